import SimplicityModel.Driver.ProgUtil
import SimplicityModel.Routes
import SimplicityModel.RoutesExec
import SimplicityModel.PruneIds
/-! C12: the routes by which witness values reach a redemption program.

`route U P|N <plan> [T:…] V:i:<type>:<compact bits>…`            `finalize_unpruned` with the
      candidate values `V` (of their own types) attached at construction
`route F P|N <plan> [T:…] N:i:<name>… M:<name>:<type>:<bits>…`   `Forest::to_witness_node(&map)` with
      witness node `i` named `N`, then `finalize_unpruned`
`route P P|N <plan> [T:… C:… J:…] V:… X:i:L|R… [E:fail]`         `finalize_pruned`, run included: the model
      elaborates the unpruned program, runs it with the tracker (`Routes.finalizePruned`: identities =
      `Prog.ihrs`, jets = the recorded calls `J:`) and prunes by its own record.  `X` (the case nodes of
      which the real run used only the left / only the right branch) and `E:fail` (the real run
      failed) are what the real run did: the model's run must agree with them (`model-tracker-differs`,
      `model-run-fails`, `model-run-succeeds` otherwise); re-inference as the code does it
      (`Routes.codeLeaks`)
`route D <plan> [T:…] B:<bits>`                                   the witness stream of `RedeemNode::decode`
→ `ok W:i:<target type>:<compact bits>…` (every witness node of the resulting program) | `err` |
  `err-exec`.  Runs `Routes.routeU/forestRoute/routeP/decodeRoute`, the functions the theorems of
  `Props/C12.lean` are about. -/
namespace Drv.C12
open Prog Drv.ProgUtil Routes BM4

structure Extra where
  cands : List (Nat × Val) := []
  names : List (Nat × String) := []
  map : List (String × Val) := []
  sides : List (Nat × Bool) := []
  execFailed : Bool := false
  bits : List Bool := []
  rest : List String := []

def parseExtra : List String → Extra → Option Extra
  | [], e => some { e with rest := e.rest.reverse }
  | t :: ts, e =>
    match t.splitOn ":" with
    | ["V", i, ty, bits] => do
      let i ← i.toNat?; let ty ← parseTy ty; let b ← Drv.bits? bits
      let v ← valOfCompact ty b
      parseExtra ts { e with cands := (i, v) :: e.cands }
    | ["N", i, name] => do
      let i ← i.toNat?
      parseExtra ts { e with names := (i, name) :: e.names }
    | ["M", name, ty, bits] => do
      let ty ← parseTy ty; let b ← Drv.bits? bits
      let v ← valOfCompact ty b
      parseExtra ts { e with map := e.map ++ [(name, v)] }
    | ["X", i, s] => do
      let i ← i.toNat?
      let s ← if s = "L" then some false else if s = "R" then some true else none
      parseExtra ts { e with sides := (i, s) :: e.sides }
    | ["E", "fail"] => parseExtra ts { e with execFailed := true }
    | ["B", bits] => do
      let b ← Drv.bits? bits
      parseExtra ts { e with bits := b }
    | _ => parseExtra ts { e with rest := t :: e.rest }

def showOutcome : Outcome → String
  | .ok ar r =>
    " ".intercalate ("ok" :: r.map fun (i, v) => s!"W:{i}:{tyText (tgtOf ar i)}:{Drv.showBits (compact v)}")
  | .err => "err"
  | .illTyped => "ill-typed"
  | .fuel => "model-fuel"
  | .panic => "model-panic"

def lookupNat {α} (l : List (Nat × α)) (i : Nat) : Option α := (l.find? (·.1 = i)).map (·.2)
def lookupStr {α} (l : List (String × α)) (n : String) : Option α := (l.find? (·.1 = n)).map (·.2)

def routeOp (kind : String) (program : Bool) (toks : List String) : String :=
  match parsePlan toks with
  | none => "bad-op"
  | some (p, tail) =>
    match parseExtra tail {} with
    | none => "bad-op"
    | some e =>
      match parseExtras e.rest {} with
      | none => "bad-op"
      | some ex =>
        let jt := ex.jetTy
        if kind = "U" then showOutcome (routeU jt p program (lookupNat e.cands))
        else if kind = "F" then showOutcome (forestRoute jt p program (lookupNat e.names) (lookupStr e.map))
        else if kind = "P" then
          let cand := lookupNat e.cands
          match routeU jt p program cand with
          | .ok ar r =>
            let jetCmr := fun n => some ((ex.jetCmr n).getD 0)
            match ihrs jetCmr p ar (witBits r), cmrs jetCmr p with
            | some an, some cm =>
              let re : RunEnv := { ids := fun i => (an.getD i (0, 0)).2, cmr := cm, jets := ex.jetSem }
              if !planOK p then "bad-plan" else
              match trackedRun p ar r re with
              | .noTerm => "model-elab-failed"
              | .failed _ =>
                if e.execFailed then
                  match finalizePruned jt codeLeaks p program cand re with
                  | .err => "err-exec"
                  | o => showOutcome o
                else "model-run-fails"
              | .ok tr =>
                if e.execFailed then "model-run-succeeds" else
                -- the model's tracker against the real one, on the case nodes of the program
                let reach := reachable p
                let agree := (List.range p.size).all fun i =>
                  match reach.getD i false, p[i]? with
                  | true, some (.case _ _) => sidesOf re.ids tr.sides i == lookupNat e.sides i
                  | _, _ => true
                if agree then showOutcome (finalizePruned jt codeLeaks p program cand re)
                else "model-tracker-differs"
            | _, _ => "model-annot-failed"
          | o => showOutcome o
        else if kind = "D" then
          let o := decodeRoute jt p e.bits
          -- the recursive reader of `Routes` against the loop of `Prog/Codec.lean`
          match o, infer jt p true with
          | .ok _ r, .ok ar =>
            match readWitnesses p ar e.bits with
            | .ok (ws, rest) =>
              if ws = r.map (fun (i, v) => (i, compact v)) ∧ closeOk rest then showOutcome o
              else "model-inconsistent"
            | .error _ => "model-inconsistent"
          | .err, .ok ar =>
            match readWitnesses p ar e.bits with
            | .ok (_, rest) => if closeOk rest then "model-inconsistent" else "err"
            | .error _ => "err"
          | o, _ => showOutcome o
        else "bad-op"

def handle : List String → String
  | "route" :: "D" :: rest => routeOp "D" true rest
  | "route" :: kind :: mode :: rest => routeOp kind (mode = "P") rest
  | _ => "bad-op"

end Drv.C12
