import SimplicityModel.Driver.ProgUtil
/-! C09: `cmr <plan> [C:name:hex…]` → the commitment root of every node, recomputed with SHA-256;
`ivs` → all tagged IVs (compared with the constants of the source by the translator) -/
namespace Drv.C09
open Prog Drv.ProgUtil

def handle : List String → String
  | "cmr" :: rest =>
    match parsePlan rest with
    | none => "bad-op"
    | some (p, tail) =>
      match parseExtras tail {} with
      | none => "bad-op"
      | some ex =>
        match cmrs ex.jetCmr p with
        | some cs => " ".intercalate (cs.toList.map hex32)
        | none => "bad-plan"
  | ["tmr", t] =>
    match parseTy t with
    | some t => hex32 (tmr t)
    | none => "bad-op"
  | _ => "bad-op"

end Drv.C09
