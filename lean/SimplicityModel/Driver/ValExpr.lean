import SimplicityModel.ValueBuilt
import SimplicityModel.Driver.Util
/-!
Value expressions of the C10 / C11 line protocol (trusted glue, no proofs): a value is given by the
history that produced it, as a prefix expression over the operations of `src/value.rs`; the driver
evaluates it with the `RVal` model (`ValueRVal.lean`), the harness with the real library.

    U                 Value::unit()
    L e T             Value::left(e, T)            R T e     Value::right(T, e)
    P e e             Value::product(e, e)         Z T       Value::zero(T)
    W n hex           Value::u1 … u512 (n = 0 … 9) with the given bytes
    B n hex           Value::buffer8_two_n_plus_one(n, bytes)
    DP T skip hex     Value::from_padded_bits on the bits of `hex` after skipping `skip` of them
    DC T skip hex     Value::from_compact_bits, same input convention
    AL e / AR e       e.as_left() / e.as_right()   (`.to_value()`)
    A1 e / A2 e       the components of e.as_product()
    PR T e            e.prune(T)
    M e / M2 e        output of the Bit Machine running `iden` / `comp iden iden` on e
                      (from_padded_bits of the padded form; `Value::zero` of the type when its
                      width is zero)

Types: `1`, `+AB`, `*AB`, `wN` = 2^(2^N) (N one digit, or a b c for 10 11 12), `bN` = the
buffer type `(2^8)^<2^(N+1)`.
-/
namespace Drv.VX
open Vl

def digitVal (c : Char) : Option Nat :=
  if '0' ≤ c ∧ c ≤ '9' then some (c.toNat - '0'.toNat)
  else if 'a' ≤ c ∧ c ≤ 'f' then some (c.toNat - 'a'.toNat + 10) else none

partial def parseTy : List Char → Option (Ty × List Char)
  | '1' :: r => some (.one, r)
  | '+' :: r => do let (a, r1) ← parseTy r; let (b, r2) ← parseTy r1; pure (.sum a b, r2)
  | '*' :: r => do let (a, r1) ← parseTy r; let (b, r2) ← parseTy r1; pure (.prod a b, r2)
  | 'w' :: c :: r => do let n ← digitVal c; pure (Ty.word n, r)
  | 'b' :: c :: r => do let n ← digitVal c; pure (Ty.buf8 n, r)
  | _ => none

def ty? (s : String) : Option Ty :=
  match parseTy s.toList with
  | some (t, []) => some t
  | _ => none

def wordN : Ty → Option Nat
  | .sum .one .one => some 0
  | .prod a b =>
    match wordN a, wordN b with
    | some n, some m => if n = m then some (n + 1) else none
    | _, _ => none
  | _ => none

def digitChar (n : Nat) : Char := if n < 10 then Char.ofNat ('0'.toNat + n) else Char.ofNat ('a'.toNat + n - 10)

partial def showTyAux (t : Ty) (acc : List Char) : List Char :=
  match wordN t with
  | some n => if n ≤ 15 then 'w' :: digitChar n :: acc else
    match t with
    | .prod a b => '*' :: showTyAux a (showTyAux b acc)
    | _ => acc
  | none =>
    match t with
    | .one => '1' :: acc
    | .sum a b => '+' :: showTyAux a (showTyAux b acc)
    | .prod a b => '*' :: showTyAux a (showTyAux b acc)

def showTy (t : Ty) : String := String.ofList (showTyAux t [])

def bytesOK (bs : List Nat) : Bool := bs.all (· < 256)

/-- the bits a `BitIter` over `hex` yields after `skip` of them were read -/
def inputBits (skip hex : String) : Option (List Bool) := do
  let k ← skip.toNat?
  let bs ← Drv.hexBytes? hex
  pure ((RVal.bitsOfBytes bs).drop k)

abbrev R := Except String

def need {α} (o : Option α) (msg : String) : R α := match o with | some a => pure a | none => throw msg

/-- the machine's `iden`: the output frame holds the padded form of the input -/
def machineIden (v : RVal) : R RVal :=
  if v.ty.bw = 0 then pure (RVal.zero v.ty) else
  match RVal.fromPaddedBits v.ty v.iterPadded with
  | some (w, _) => pure w
  | none => throw "stuck"

partial def evalE : List String → R (RVal × List String)
  | "U" :: r => pure (RVal.unit, r)
  | "L" :: r => do
    let (v, r1) ← evalE r
    match r1 with
    | t :: r2 => do let b ← need (ty? t) "bad-type"; pure (v.left b, r2)
    | [] => throw "bad-expr"
  | "R" :: t :: r => do
    let a ← need (ty? t) "bad-type"
    let (v, r1) ← evalE r
    pure (RVal.right a v, r1)
  | "P" :: r => do
    let (x, r1) ← evalE r
    let (y, r2) ← evalE r1
    pure (x.product y, r2)
  | "Z" :: t :: r => do let a ← need (ty? t) "bad-type"; pure (RVal.zero a, r)
  | "W" :: n :: hex :: r => do
    let n ← need n.toNat? "bad-expr"
    let bs ← need (Drv.hexBytes? hex) "bad-hex"
    pure (RVal.word n bs, r)
  | "B" :: n :: hex :: r => do
    let n ← need n.toNat? "bad-expr"
    let bs ← need (Drv.hexBytes? hex) "bad-hex"
    match RVal.buffer8 n bs with
    | some v => pure (v, r)
    | none => throw "too-long"
  | "DP" :: t :: skip :: hex :: r => do
    let a ← need (ty? t) "bad-type"
    let inp ← need (inputBits skip hex) "bad-hex"
    match RVal.fromPaddedBits a inp with
    | some (v, _) => pure (v, r)
    | none => throw "eof"
  | "DC" :: t :: skip :: hex :: r => do
    let a ← need (ty? t) "bad-type"
    let inp ← need (inputBits skip hex) "bad-hex"
    match RVal.fromCompactBits a inp with
    | some (v, _) => pure (v, r)
    | none => throw "eof"
  | "AL" :: r => do
    let (v, r1) ← evalE r
    match v.asLeft with | some l => pure (l, r1) | none => throw "stuck"
  | "AR" :: r => do
    let (v, r1) ← evalE r
    match v.asRight with | some l => pure (l, r1) | none => throw "stuck"
  | "A1" :: r => do
    let (v, r1) ← evalE r
    match v.asProduct with | some (l, _) => pure (l, r1) | none => throw "stuck"
  | "A2" :: r => do
    let (v, r1) ← evalE r
    match v.asProduct with | some (_, x) => pure (x, r1) | none => throw "stuck"
  | "PR" :: t :: r => do
    let a ← need (ty? t) "bad-type"
    let (v, r1) ← evalE r
    match RVal.prune a v with | some w => pure (w, r1) | none => throw "stuck"
  | "M" :: r => do
    let (v, r1) ← evalE r
    let w ← machineIden v
    pure (w, r1)
  | "M2" :: r => do
    let (v, r1) ← evalE r
    let w ← machineIden v
    pure (w, r1)
  | _ => throw "bad-expr"

/-- an expression that must use up its tokens -/
def evalAll (toks : List String) : R RVal := do
  let (v, r) ← evalE toks
  if r.isEmpty then pure v else throw "bad-expr"

/-- `type:compact bits` -/
def showSub (v : RVal) : String := s!"{showTy v.ty}:{Drv.showBits v.iterCompact}"
def showOpt (o : Option RVal) : String := match o with | some v => showSub v | none => "none"

/-- split a token list at the first `;` -/
def splitSemi : List String → List String × List String
  | [] => ([], [])
  | ";" :: r => ([], r)
  | t :: r => let (a, b) := splitSemi r; (t :: a, b)

def hexNat? (s : String) : Option Nat :=
  s.toList.foldl (fun acc c => do let a ← acc; let d ← Drv.hexDigit? c; pure (a * 16 + d)) (some 0)

def hex16 (n : Nat) : String :=
  String.ofList ((List.range 16).map fun i => Drv.hexOfNat ((n >>> (4 * (15 - i))) % 16))

end Drv.VX
