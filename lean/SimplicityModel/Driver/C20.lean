import SimplicityModel.ConcModel
import SimplicityModel.Prog.Merkle
/-!
C20: `par <n> <schedule> X:<shared digests> [G:… B:… ignored] o:<tid>:<ctx>:<op>…`

* `<schedule>` = `t.t.t…` (the turnstile order: the thread that performs its next operation; every
  slot first draws one probe name, whose distance from the base is printed as `@d`) or `free`
  (no turnstile: the model runs a round-robin interleaving; by `interleaving_eq_sequential` every
  other interleaving gives the same canonical per-thread results).
* `<op>` = `F` | `P,a,b` | `S,a,b` | `C,h,<type>` | `D,h` | `Z,h` | `M,n` | `R,k` |
  `W,<names>,<digest>,<descriptor>` (a whole library operation: opaque to the model);
  `R,k` reads shared object `k mod (number of shared objects)`.
* answer: `T0 <result>… T1 <result>… solo=ok`: the canonical results of every thread in the
  interleaved run of `ConcModel.run`; `solo=ok` iff they equal the results of running every thread's
  operations alone (`solo=MODEL-DIFF` would contradict the theorem).

Contexts: context `j` of thread `t` is the global context `64*j + t`, owned by `t`.
-/
namespace Drv.C20
open ConcModel BM4

def tyPlain : Ty → String
  | .one => "1"
  | .sum a b => "+" ++ tyPlain a ++ tyPlain b
  | .prod a b => "*" ++ tyPlain a ++ tyPlain b

/-- names are numbered in the order of their first occurrence in the thread's results -/
def nameIx (seen : List Nat) (n : Nat) : List Nat × Nat :=
  match seen.idxOf? n with
  | some k => (seen, k)
  | none => (seen ++ [n], seen.length)

def shownText (seen : List Nat) : Shown → List Nat × String
  | .var n => let (s, k) := nameIx seen n; (s, s!"v{k}")
  | .fin t => (seen, tyPlain t)
  | .sum a b =>
    let (s1, x) := shownText seen a
    let (s2, y) := shownText s1 b
    (s2, "+" ++ x ++ y)
  | .prod a b =>
    let (s1, x) := shownText seen a
    let (s2, y) := shownText s1 b
    (s2, "*" ++ x ++ y)
  | .cut => (seen, "~")

def hexN (bytes : Nat) (v : Nat) : String := Drv.showHex (Sha2.bytesOfNat v bytes)

def resText (seen : List Nat) (op : Op) : Res → List Nat × String
  | .handle k => (seen, s!"h{k}")
  | .ok => (seen, "ok")
  | .err e t => let (s, x) := shownText seen e; (s, "err:" ++ x ++ ":" ++ tyPlain t)
  | .shown e => let (s, x) := shownText seen e; (s, "d:" ++ x)
  | .ty t => (seen, "z:" ++ tyPlain t)
  | .val v =>
    match op with
    | .memo _ => (seen, "m:" ++ hexN 32 v)
    | .readShared _ => (seen, "r:" ++ hexN 8 v)
    | _ => (seen, "w:" ++ hexN 8 v)
  | .bad => (seen, "bad")

def canonList (ops : List Op) (rs : List Res) : List String :=
  ((ops.zip rs).foldl (fun (acc : List Nat × List String) (p : Op × Res) =>
    let (s, x) := resText acc.1 p.1 p.2
    (s, acc.2 ++ [x])) ([], [])).2

def hexNat? (s : String) : Option Nat := do
  let bs ← Drv.hexBytes? s
  pure (Sha2.natOfBytes bs)

def parseOp (body : String) : Option Op :=
  match body.splitOn "," with
  | ["F"] => some .fresh
  | ["P", a, b] => .mkProd <$> a.toNat? <*> b.toNat?
  | ["S", a, b] => .mkSum <$> a.toNat? <*> b.toNat?
  | ["C", h, t] => .bindC <$> h.toNat? <*> Prog.parseTy t
  | ["D", h] => .display <$> h.toNat?
  | ["Z", h] => .finalize <$> h.toNat?
  | ["M", n] => .memo <$> n.toNat?
  | ["R", k] => .readShared <$> k.toNat?
  | "W" :: names :: digest :: _ => .whole <$> names.toNat? <*> hexNat? digest
  | _ => none

structure Parsed where
  shared : List Nat := []
  ops : List (Nat × Nat × Op) := []   -- (tid, local ctx, op), in line order

def parseToks : List String → Parsed → Option Parsed
  | [], p => some { p with ops := p.ops.reverse }
  | t :: ts, p =>
    match t.splitOn ":" with
    | ["X", vs] =>
      if vs = "-" then parseToks ts p else do
        let xs ← (vs.splitOn ",").mapM hexNat?
        parseToks ts { p with shared := xs }
    | "G" :: _ => parseToks ts p
    | "B" :: _ => parseToks ts p
    | ["o", tid, c, body] => do
      let tid ← tid.toNat?; let c ← c.toNat?; let op ← parseOp body
      if tid < 64 ∧ c < 63 then parseToks ts { p with ops := (tid, c, op) :: p.ops } else none
    | _ => none

def gctx (tid c : Nat) : Nat := 64 * c + tid
def probeCtx (tid : Nat) : Nat := 64 * 63 + tid

/-- the steps of a turnstile schedule: each slot = a probe draw, then the thread's next operation -/
def buildTurnstile (n : Nat) (sched : List Nat) (ops : List (Nat × Nat × Op)) : Option (List (Step × Bool)) :=
  let rec go (sched : List Nat) (rest : Nat → List (Nat × Op)) (acc : List (Step × Bool)) (fuel : Nat) : Option (List (Step × Bool)) :=
    match fuel, sched with
    | _, [] => if (List.range n).all (fun t => (rest t).isEmpty) then some acc.reverse else none
    | 0, _ => none
    | f+1, t :: ss =>
      match rest t with
      | [] => none
      | (c, op) :: more =>
        go ss (fun u => if u = t then more else rest u)
          ((⟨t, gctx t c, op⟩, false) :: (⟨t, probeCtx t, .whole 1 0⟩, true) :: acc) f
  go sched (fun t => (ops.filter (·.1 = t)).map (·.2)) [] (sched.length + 1)

/-- round-robin interleaving of the threads' operation lists -/
def buildRoundRobin (n : Nat) (ops : List (Nat × Nat × Op)) : List (Step × Bool) :=
  let per : List (List Step) := (List.range n).map fun t => (ops.filter (·.1 = t)).map fun (_, c, op) => ⟨t, gctx t c, op⟩
  let longest := per.foldl (fun m l => max m l.length) 0
  (List.range longest).flatMap fun i => per.filterMap fun l => (l[i]?).map fun st => (st, false)

def handle : List String → String
  | "par" :: n :: sched :: rest =>
    match n.toNat?, parseToks rest {} with
    | some n, some p =>
      if n = 0 ∨ n > 16 ∨ p.ops.any (fun o => o.1 ≥ n) then "bad-op" else
      let E : Env := ⟨fun k => p.shared.getD (k % p.shared.length) 0, Prog.tmrWord⟩
      let steps? : Option (List (Step × Bool)) :=
        if sched = "free" then some (buildRoundRobin n p.ops)
        else match Drv.nats? (sched.splitOn ".") with
          | some ts => if ts.all (· < n) then buildTurnstile n ts p.ops else none
          | none => none
      match steps? with
      | none => "bad-op"
      | some sb =>
        let tr := sb.map (·.1)
        let full := (run E G.init tr).2
        -- counter value before every step (`run_next`: the names of all earlier steps)
        let befores := (tr.foldl (fun (acc : Nat × List Nat) st => (acc.1 + st.op.names, acc.2 ++ [acc.1])) (0, [])).2
        let tagged := (sb.zip (full.zip befores))   -- ((step, isProbe), ((tid, res), before))
        let perThread := (List.range n).map fun t =>
          let mine := tagged.filter fun x => x.1.1.tid = t
          let real := mine.filter fun x => !x.1.2
          let probes := (mine.filter fun x => x.1.2).map fun x => x.2.2
          let ops := real.map fun x => x.1.1.op
          let rs := real.map fun x => x.2.1.2
          let texts := canonList ops rs
          -- solo run of this thread's real operations
          let soloTr := real.map fun x => x.1.1
          let solo := (run E G.init soloTr).2.map (·.2)
          let same := texts == canonList ops solo
          let shown := if sched = "free" then texts
            else (texts.zip probes).map fun (x, d) => s!"@{d}:{x}"
          (s!"T{t}" :: shown, same)
        let out := perThread.flatMap (·.1)
        let ok := perThread.all (·.2)
        " ".intercalate (out ++ [if ok then "solo=ok" else "solo=MODEL-DIFF"])
    | _, _ => "bad-op"
  | _ => "bad-op"

end Drv.C20
