/-
C16 — the executable instance of the satisfier model that the driver runs, `Policy::sorted` under
its Rust name, and `Policy::normalized`.
-/
import SimplicityModel.PolicySatThm
import SimplicityModel.PolicyEnv

namespace Pol

/-- node = number of combinator nodes of the fragment (a stand-in for the program whose cost the
satisfier compares; the verdict does not depend on it, `satisfyOk_any_cost`) -/
def sizeAlg : Alg Nat Unit where
  iden := 1
  unit := 1
  witness := fun _ => 1
  drop := fun x => x + 1
  comp := fun x y => x + y + 1
  pair := fun x y => x + y + 1
  case := fun x y => x + y + 1
  assertl := fun x _ => x + 2
  assertr := fun _ y => y + 2
  fail := fun _ => 1
  word := fun _ _ => 1
  jet := fun _ => 1

def unitRoots : Alg Unit Unit where
  iden := ()
  unit := ()
  witness := fun _ => ()
  drop := fun _ => ()
  comp := fun _ _ => ()
  pair := fun _ _ => ()
  case := fun _ _ => ()
  assertl := fun _ _ => ()
  assertr := fun _ _ => ()
  fail := fun _ => ()
  word := fun _ _ => ()
  jet := fun _ => ()

def runCost (n : Nat) : Nat := min n (Thresh.MAX - 1)

theorem runCost_lt (n : Nat) : runCost n < Thresh.MAX := by
  unfold runCost Thresh.MAX; omega

/-- the verdict does not look at the witness values -/
def noSecrets : Secrets := ⟨fun _ => .unit, fun _ => .unit⟩

/-- the satisfier's decision: `satisfy_internal(..).get_node().is_some()`, i.e. `Policy::satisfy`
does not answer `Unsatisfiable` -/
def satisfyOk (a : Avail) (p : P) : Bool :=
  (satisfyInternal sizeAlg unitRoots (fun _ => ()) runCost noSecrets a p).isNode

/-- `Policy::sorted` -/
def sorted (p : P) : P := sort p

/-- `Policy::normalized` (recurses through and/or only; thresholds and leaves are returned as they
are; the `Trivial`/`Unsatisfiable` tests look at the children before they are normalised) -/
def normalized : P → P
  | .and l r =>
    match l, r with
    | .leaf 0 e, _ => .leaf 0 e
    | _, .leaf 0 e => .leaf 0 e
    | .leaf 1 _, r => normalized r
    | l, .leaf 1 _ => normalized l
    | l, r => .and (normalized l) (normalized r)
  | .or l r =>
    match l, r with
    | .leaf 1 _, _ => .leaf 1 0
    | _, .leaf 1 _ => .leaf 1 0
    | .leaf 0 _, r => normalized r
    | l, .leaf 0 _ => normalized l
    | l, r => .or (normalized l) (normalized r)
  | x => x

end Pol
