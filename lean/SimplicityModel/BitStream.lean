import SimplicityModel.Bytes
/-
Spike: C13 — `BitIter` (reader) and `BitWriter` over bytes, against the bit-list abstraction.
-/
namespace BitStream
open Bytes

/-- the 8 bits of a byte, most significant first -/
def byteBits (b : Nat) : List Bool := (List.range 8).map fun k => b.testBit (7 - k)

def bitsOf : List Nat → List Bool
  | [] => []
  | b :: bs => byteBits b ++ bitsOf bs

@[simp] theorem byteBits_length (b : Nat) : (byteBits b).length = 8 := by simp [byteBits]

theorem byteBits_get (b k : Nat) (hk : k < 8) : (byteBits b)[k]? = some (b.testBit (7 - k)) := by
  simp [byteBits, hk]

/-! ### reader -/

structure Reader where
  rest : List Nat
  cached : Nat
  readBits : Nat      -- 1..8 (8 initially: forces a fetch)
  total : Nat

def Reader.new (bytes : List Nat) : Reader := ⟨bytes, 0, 8, 0⟩

/-- the bits still to be delivered -/
def Reader.remaining (r : Reader) : List Bool := (byteBits r.cached).drop r.readBits ++ bitsOf r.rest

/-- `Iterator::next` -/
def Reader.next (r : Reader) : Option (Bool × Reader) :=
  if r.readBits < 8 then
    some (r.cached.testBit (8 - (r.readBits + 1)), { r with readBits := r.readBits + 1, total := r.total + 1 })
  else match r.rest with
    | [] => none
    | b :: rest => some (b.testBit 7, { rest := rest, cached := b, readBits := 1, total := r.total + 1 })

/-- `read_u8` -/
def Reader.readU8 (r : Reader) : Option (Nat × Reader) :=
  match r.rest with
  | [] => none
  | b :: rest => some (Bytes.readU8 r.cached b r.readBits, { r with rest := rest, cached := b, total := r.total + 8 })

/-- `close`: no bytes left and the unread bits of the cached byte are zero -/
def Reader.close (r : Reader) : Bool :=
  r.rest.isEmpty && (r.cached % 2 ^ (8 - r.readBits) == 0)

theorem drop_byteBits (b r : Nat) (hr : r < 8) :
    (byteBits b).drop r = b.testBit (7 - r) :: (byteBits b).drop (r + 1) := by
  rw [List.drop_eq_getElem_cons (by simp [hr])]
  congr 1
  have := byteBits_get b r hr
  rw [List.getElem?_eq_getElem (by simp [hr])] at this
  exact Option.some.inj this

theorem drop_byteBits_8 (b : Nat) : (byteBits b).drop 8 = [] := by
  apply List.drop_eq_nil_of_le; simp

/-- **reader, one bit**: `next` delivers the head of `remaining` and keeps the tail; the counter
advances by one; it fails exactly when nothing remains -/
theorem Reader.next_spec (r : Reader) (hr : r.readBits ≤ 8) :
    match r.next with
    | some (b, r') => r.remaining = b :: r'.remaining ∧ r'.total = r.total + 1 ∧
        1 ≤ r'.readBits ∧ r'.readBits ≤ 8
    | none => r.remaining = [] := by
  unfold Reader.next
  by_cases h : r.readBits < 8
  · rw [if_pos h]
    simp only [Reader.remaining]
    refine ⟨?_, by simp, by simp, by simp; omega⟩
    rw [drop_byteBits _ _ h]
    simp only [List.cons_append]
    congr 2
    omega
  · rw [if_neg h]
    have h8 : r.readBits = 8 := by omega
    cases hrest : r.rest with
    | nil => simp [Reader.remaining, hrest, h8, drop_byteBits_8, bitsOf]
    | cons b rest =>
      simp only [Reader.remaining, hrest, h8, drop_byteBits_8, bitsOf, List.nil_append]
      refine ⟨?_, by simp, by simp, by simp⟩
      have := drop_byteBits b 0 (by omega)
      simp only [List.drop_zero] at this
      rw [this]
      simp

/-- **reader, `close`**: accepted exactly when no byte is left and every remaining bit is zero -/
theorem Reader.close_spec (r : Reader) (h1 : 1 ≤ r.readBits) (hr : r.readBits ≤ 8) :
    r.close = true ↔ r.rest = [] ∧ ∀ b ∈ r.remaining, b = false := by
  unfold Reader.close Reader.remaining
  constructor
  · intro h
    simp only [Bool.and_eq_true, List.isEmpty_iff, beq_iff_eq] at h
    refine ⟨h.1, ?_⟩
    rw [h.1]
    simp only [bitsOf, List.append_nil]
    intro b hb
    obtain ⟨k, hk⟩ := List.getElem?_of_mem hb
    rw [List.getElem?_drop] at hk
    have hk8 : r.readBits + k < 8 := by
      rcases Nat.lt_or_ge (r.readBits + k) 8 with h' | h'
      · exact h'
      · rw [List.getElem?_eq_none (by simp; omega)] at hk; cases hk
    rw [byteBits_get _ _ hk8] at hk
    cases hk
    have : r.cached.testBit (7 - (r.readBits + k)) =
        (r.cached % 2 ^ (8 - r.readBits)).testBit (7 - (r.readBits + k)) := by
      rw [Nat.testBit_mod_two_pow]
      have : 7 - (r.readBits + k) < 8 - r.readBits := by omega
      simp [this]
    rw [this, h.2]; simp
  · rintro ⟨h1', h2⟩
    simp only [Bool.and_eq_true, List.isEmpty_iff, beq_iff_eq]
    refine ⟨h1', ?_⟩
    apply Nat.eq_of_testBit_eq
    intro i
    rw [Nat.testBit_mod_two_pow, Nat.zero_testBit]
    by_cases hi : i < 8 - r.readBits
    · simp only [hi, decide_true, Bool.true_and]
      apply h2
      rw [h1']
      simp only [bitsOf, List.append_nil]
      have hk : (byteBits r.cached)[7 - i]? = some (r.cached.testBit (7 - (7 - i))) :=
        byteBits_get _ _ (by omega)
      rw [show 7 - (7 - i) = i by omega] at hk
      have : ((byteBits r.cached).drop r.readBits)[7 - i - r.readBits]? = some (r.cached.testBit i) := by
        rw [List.getElem?_drop, show r.readBits + (7 - i - r.readBits) = 7 - i by omega]; exact hk
      exact List.mem_of_getElem? this
    · simp [hi]

theorem readU8_bits (c n r : Nat) (hc : c < 256) (hn : n < 256) (h1 : 1 ≤ r) (h8 : r ≤ 8) :
    byteBits (Bytes.readU8 c n r) = (byteBits c).drop r ++ (byteBits n).take r := by
  apply List.ext_getElem?
  intro k
  by_cases hk : k < 8
  · rw [byteBits_get _ _ hk, readU8_testBit c n r k hc hn h1 h8 hk]
    by_cases hlt : k + r < 8
    · rw [if_pos hlt, List.getElem?_append_left (by simp; omega), List.getElem?_drop,
        byteBits_get _ _ (by omega)]
      congr 2; omega
    · rw [if_neg hlt, List.getElem?_append_right (by simp; omega), List.getElem?_take]
      simp only [List.length_drop, byteBits_length]
      rw [if_pos (by omega), byteBits_get _ _ (by omega)]
      congr 2; omega
  · rw [List.getElem?_eq_none (by simp; omega), List.getElem?_eq_none (by simp; omega)]

/-- **reader, one byte**: `read_u8` delivers the next eight bits of `remaining`, at any alignment -/
theorem Reader.readU8_spec (r : Reader) (h1 : 1 ≤ r.readBits) (h8 : r.readBits ≤ 8)
    (hc : r.cached < 256) (hb : ∀ b ∈ r.rest, b < 256) :
    match r.readU8 with
    | some (v, r') => r.remaining = byteBits v ++ r'.remaining ∧ r'.total = r.total + 8 ∧
        r'.readBits = r.readBits
    | none => r.rest = [] := by
  unfold Reader.readU8
  cases hrest : r.rest with
  | nil => rfl
  | cons n rest =>
    simp only [Reader.remaining, hrest, bitsOf]
    refine ⟨?_, by simp, by simp⟩
    rw [readU8_bits _ _ _ hc (hb n (by simp [hrest])) h1 h8, List.append_assoc, ← List.append_assoc (List.take _ _),
      List.take_append_drop]

/-! ### writer -/

structure Writer where
  out : List Nat       -- bytes written so far
  cache : Nat
  cacheLen : Nat       -- 0..8
  total : Nat

def Writer.new : Writer := ⟨[], 0, 0, 0⟩

/-- `write_bit` -/
def Writer.writeBit (w : Writer) (b : Bool) : Writer :=
  if w.cacheLen < 8 then
    { w with cacheLen := w.cacheLen + 1, total := w.total + 1,
             cache := if b then w.cache ||| (1 <<< (8 - (w.cacheLen + 1))) else w.cache }
  else
    { out := w.out ++ [w.cache], cacheLen := 1, total := w.total + 1,
      cache := if b then 1 <<< 7 else 0 }

/-- `flush_all` -/
def Writer.flushAll (w : Writer) : Writer :=
  if w.cacheLen > 0 then { w with out := w.out ++ [w.cache], cache := 0, cacheLen := 0 } else w

/-- the bits written so far -/
def Writer.written (w : Writer) : List Bool := bitsOf w.out ++ (byteBits w.cache).take w.cacheLen

/-- the cache holds nothing below its `cacheLen` top bits -/
def Writer.Inv (w : Writer) : Prop := w.cacheLen ≤ 8 ∧ w.cache < 256 ∧ ∀ i, i < 8 - w.cacheLen → w.cache.testBit i = false

theorem bitsOf_append (a b : List Nat) : bitsOf (a ++ b) = bitsOf a ++ bitsOf b := by
  induction a with
  | nil => rfl
  | cons x xs ih => simp [bitsOf, ih]

theorem take_byteBits_succ (b k : Nat) (hk : k < 8) :
    (byteBits b).take (k + 1) = (byteBits b).take k ++ [b.testBit (7 - k)] := by
  rw [List.take_add_one, byteBits_get b k hk]; rfl

theorem byteBits_congr {a b : Nat} (n : Nat) (h : ∀ i, 8 - n ≤ i → i < 8 → a.testBit i = b.testBit i) :
    (byteBits a).take n = (byteBits b).take n := by
  apply List.ext_getElem?
  intro k
  rw [List.getElem?_take, List.getElem?_take]
  by_cases hk : k < n
  · simp only [hk, if_true]
    by_cases hk8 : k < 8
    · rw [byteBits_get _ _ hk8, byteBits_get _ _ hk8, h (7 - k) (by omega) (by omega)]
    · rw [List.getElem?_eq_none (by simp; omega), List.getElem?_eq_none (by simp; omega)]
  · simp [hk]

theorem testBit_lt_256 {c i : Nat} (hc : c < 256) (hi : 8 ≤ i) : c.testBit i = false := by
  apply Nat.testBit_lt_two_pow
  exact Nat.lt_of_lt_of_le hc (by
    have : (256 : Nat) = 2 ^ 8 := by decide
    rw [this]; exact Nat.pow_le_pow_right (by omega) hi)

/-- **writer, one bit**: `written` grows by exactly that bit, the counter by one -/
theorem Writer.writeBit_spec (w : Writer) (b : Bool) (h : w.Inv) :
    (w.writeBit b).written = w.written ++ [b] ∧ (w.writeBit b).total = w.total + 1 ∧ (w.writeBit b).Inv := by
  obtain ⟨h8, h256, hz⟩ := h
  unfold Writer.writeBit
  by_cases hc : w.cacheLen < 8
  · rw [if_pos hc]
    refine ⟨?_, rfl, ?_⟩
    · simp only [Writer.written]
      rw [take_byteBits_succ _ _ hc, ← List.append_assoc]
      have hpos : 8 - (w.cacheLen + 1) = 7 - w.cacheLen := by omega
      congr 1
      · congr 1
        apply byteBits_congr
        intro i hi1 hi2
        cases b with
        | false => rfl
        | true =>
          simp only [if_true, Nat.testBit_or, testBit_mask, hpos]
          have : ¬ (7 - w.cacheLen = i) := by omega
          simp [this]
      · cases b with
        | false =>
          simp only [Bool.false_eq_true, if_false]
          rw [hz (7 - w.cacheLen) (by omega)]
        | true => simp [Nat.testBit_or, testBit_mask, hpos]
    · refine ⟨by simp only []; omega, ?_, ?_⟩
      · cases b with
        | false => exact h256
        | true =>
          simp only [if_true]
          have : (256 : Nat) = 2 ^ 8 := by decide
          rw [this]
          apply Nat.or_lt_two_pow (by rw [← this]; exact h256)
          rw [Nat.one_shiftLeft]
          exact Nat.pow_lt_pow_right (by omega) (by omega)
      · intro i hi
        simp only [] at hi
        cases b with
        | false => exact hz i (by omega)
        | true =>
          simp only [if_true, Nat.testBit_or, testBit_mask]
          rw [hz i (by omega)]
          have : ¬ (8 - (w.cacheLen + 1) = i) := by omega
          simp only [this, decide_false, Bool.or_false]
  · rw [if_neg hc]
    have hc8 : w.cacheLen = 8 := by omega
    refine ⟨?_, rfl, ?_⟩
    · simp only [Writer.written, hc8]
      rw [bitsOf_append]
      simp only [bitsOf, List.append_nil]
      rw [List.take_of_length_le (l := byteBits w.cache) (by simp)]
      congr 1
      have := take_byteBits_succ (if b then 1 <<< 7 else 0) 0 (by omega)
      simp only [List.take_zero, List.nil_append, Nat.zero_add] at this
      rw [this]
      cases b with
      | false => simp
      | true => simp only [if_true]; congr 1
    · refine ⟨by simp, ?_, ?_⟩
      · cases b <;> simp
      · intro i hi
        simp only [] at hi
        cases b with
        | false => simp
        | true =>
          simp only [if_true, testBit_mask]
          have : ¬ (7 = i) := by omega
          simp [this]

/-- **writer, flush**: the bytes are the written bits followed by zero padding to a byte boundary -/
theorem Writer.flushAll_spec (w : Writer) (h : w.Inv) :
    ∃ pad, bitsOf w.flushAll.out = w.written ++ List.replicate pad false ∧ pad < 8 ∧
      (w.written.length + pad) % 8 = 0 ∨ (w.cacheLen = 0 ∧ w.flushAll = w) := by
  obtain ⟨h8, h256, hz⟩ := h
  by_cases hc : w.cacheLen > 0
  · refine ⟨8 - w.cacheLen, .inl ⟨?_, by omega, ?_⟩⟩
    · unfold Writer.flushAll
      rw [if_pos hc]
      simp only [Writer.written, bitsOf_append, bitsOf, List.append_nil, List.append_assoc]
      congr 1
      conv => lhs; rw [← List.take_append_drop w.cacheLen (byteBits w.cache)]
      congr 1
      apply List.ext_getElem?
      intro k
      rw [List.getElem?_drop]
      by_cases hk : k < 8 - w.cacheLen
      · rw [byteBits_get _ _ (by omega), hz _ (by omega)]
        simp [List.getElem?_replicate, hk]
      · rw [List.getElem?_eq_none (by simp; omega), List.getElem?_eq_none (by simp; omega)]
    · have hlen : ∀ bs : List Nat, (bitsOf bs).length = 8 * bs.length := by
        intro bs; induction bs with
        | nil => rfl
        | cons x xs ih => simp [bitsOf, ih]; omega
      simp only [Writer.written, List.length_append, hlen, List.length_take, byteBits_length]
      omega
  · exact ⟨0, .inr ⟨by omega, by unfold Writer.flushAll; rw [if_neg hc]⟩⟩

/-! ### derived operations -/

/-- `read_u2`: `match (self.next(), self.next())` — both calls are made -/
def Reader.readU2 (r : Reader) : Option ((Bool × Bool) × Reader) :=
  match r.next with
  | none => none
  | some (b0, r1) => match r1.next with
    | none => none
    | some (b1, r2) => some ((b0, b1), r2)

theorem Reader.readU2_spec (r : Reader) (hr : r.readBits ≤ 8) :
    match r.readU2 with
    | some ((b0, b1), r') => r.remaining = b0 :: b1 :: r'.remaining ∧ r'.total = r.total + 2
    | none => r.remaining.length < 2 := by
  have h1 := r.next_spec hr
  cases hn : r.next with
  | none =>
    rw [hn] at h1
    have : r.readU2 = none := by simp [Reader.readU2, hn]
    rw [this]; simp [h1]
  | some p =>
    obtain ⟨b0, r1⟩ := p
    rw [hn] at h1
    obtain ⟨e1, t1, _, hr1⟩ := h1
    have h2 := r1.next_spec hr1
    cases hn2 : r1.next with
    | none =>
      rw [hn2] at h2
      have : r.readU2 = none := by simp [Reader.readU2, hn, hn2]
      rw [this]; simp [e1, h2]
    | some p2 =>
      obtain ⟨b1, r2⟩ := p2
      rw [hn2] at h2
      obtain ⟨e2, t2, _, _⟩ := h2
      have : r.readU2 = some ((b0, b1), r2) := by simp [Reader.readU2, hn, hn2]
      rw [this]
      exact ⟨by rw [e1, e2], by omega⟩

/-- a sequence of `write_bit` -/
def Writer.writeBits (w : Writer) : List Bool → Writer
  | [] => w
  | b :: bs => (w.writeBit b).writeBits bs

theorem Writer.writeBits_spec : ∀ (bs : List Bool) (w : Writer), w.Inv →
    (w.writeBits bs).written = w.written ++ bs ∧ (w.writeBits bs).total = w.total + bs.length ∧
    (w.writeBits bs).Inv
  | [], w, h => ⟨by simp [Writer.writeBits], rfl, h⟩
  | b :: bs, w, h => by
    obtain ⟨h1, h2, h3⟩ := w.writeBit_spec b h
    obtain ⟨i1, i2, i3⟩ := Writer.writeBits_spec bs (w.writeBit b) h3
    refine ⟨?_, ?_, i3⟩
    · simp only [Writer.writeBits]; rw [i1, h1]; simp
    · simp only [Writer.writeBits]; rw [i2, h2]; simp; omega

/-- `write_bits_be(n, len)`: the `len` least significant bits of `n`, most significant first -/
def bitsBE (n len : Nat) : List Bool := (List.range len).map fun i => n.testBit (len - 1 - i)

def Writer.writeBitsBE (w : Writer) (n len : Nat) : Writer := w.writeBits (bitsBE n len)

theorem Writer.writeBitsBE_spec (w : Writer) (n len : Nat) (h : w.Inv) :
    (w.writeBitsBE n len).written = w.written ++ bitsBE n len ∧
    (w.writeBitsBE n len).total = w.total + len := by
  obtain ⟨h1, h2, _⟩ := Writer.writeBits_spec (bitsBE n len) w h
  exact ⟨h1, by unfold Writer.writeBitsBE; rw [h2]; simp [bitsBE]⟩

theorem Writer.new_inv : Writer.new.Inv := ⟨by simp [Writer.new], by simp [Writer.new], by simp [Writer.new]⟩

/-- `collect_bits` / `write_to_vec`: write everything, flush -/
def collectBits (bs : List Bool) : List Nat × Nat := (((Writer.new.writeBits bs).flushAll).out, bs.length)

/-- **writer then reader**: the collected bytes are the bits followed by zero padding to a byte
boundary -/
theorem collectBits_spec (bs : List Bool) :
    ∃ pad, bitsOf (collectBits bs).1 = bs ++ List.replicate pad false ∧ pad < 8 ∧ (bs.length + pad) % 8 = 0 := by
  obtain ⟨h1, _, h3⟩ := Writer.writeBits_spec bs Writer.new Writer.new_inv
  have hw0 : Writer.new.written = [] := by simp [Writer.new, Writer.written, bitsOf]
  rw [hw0, List.nil_append] at h1
  obtain ⟨pad, hf⟩ := (Writer.new.writeBits bs).flushAll_spec h3
  rcases hf with ⟨e, hp, hm⟩ | ⟨hc, he⟩
  · exact ⟨pad, by simpa [collectBits, h1] using e, hp, by rw [h1] at hm; exact hm⟩
  · refine ⟨0, ?_, by omega, ?_⟩
    · simp only [collectBits, he, List.replicate_zero, List.append_nil]
      have : (Writer.new.writeBits bs).written = bitsOf (Writer.new.writeBits bs).out := by
        simp [Writer.written, hc]
      rw [← this, h1]
    · have hlen : ∀ l : List Nat, (bitsOf l).length = 8 * l.length := by
        intro l; induction l with
        | nil => rfl
        | cons x xs ih => simp [bitsOf, ih]; omega
      have : bs.length = 8 * (Writer.new.writeBits bs).out.length := by
        rw [← hlen]
        have hh : (Writer.new.writeBits bs).written = bitsOf (Writer.new.writeBits bs).out := by
          simp [Writer.written, hc]
        rw [← hh, h1]
      omega

/-- reading `k` bits one by one -/
def Reader.take : Nat → Reader → List Bool × Reader
  | 0, r => ([], r)
  | k+1, r => match r.next with
    | none => ([], r)
    | some (b, r') => let (bs, r'') := Reader.take k r'; (b :: bs, r'')

theorem Reader.take_spec : ∀ (k : Nat) (r : Reader), r.readBits ≤ 8 →
    (Reader.take k r).1 = r.remaining.take k
  | 0, r, _ => by simp [Reader.take]
  | k+1, r, hr => by
    have h1 := r.next_spec hr
    simp only [Reader.take]
    cases hn : r.next with
    | none => rw [hn] at h1; simp [h1]
    | some p =>
      obtain ⟨b, r'⟩ := p
      rw [hn] at h1
      obtain ⟨e1, _, _, hr'⟩ := h1
      simp only []
      rw [e1, List.take_succ_cons, ← Reader.take_spec k r' hr']

/-- **round trip**: what was written, flushed and read back is what was written (then zero padding) -/
theorem write_read (bs : List Bool) :
    (Reader.take bs.length (Reader.new (collectBits bs).1)).1 = bs := by
  obtain ⟨pad, h, _, _⟩ := collectBits_spec bs
  rw [Reader.take_spec _ _ (by simp [Reader.new])]
  simp only [Reader.new, Reader.remaining, drop_byteBits_8, List.nil_append]
  rw [h]; simp

/-! ### windows (with the bit budget of the repaired `byte_slice_window`) -/

structure LReader where
  r : Reader
  limit : Option Nat      -- `remaining`: `none` = `usize::MAX`

def LReader.remaining (l : LReader) : List Bool :=
  match l.limit with
  | none => l.r.remaining
  | some k => l.r.remaining.take k

def LReader.next (l : LReader) : Option (Bool × LReader) :=
  match l.limit with
  | some 0 => none
  | lim => match l.r.next with
    | none => none
    | some (b, r') => some (b, ⟨r', lim.map (· - 1)⟩)

theorem LReader.next_spec (l : LReader) (hr : l.r.readBits ≤ 8) :
    match l.next with
    | some (b, l') => l.remaining = b :: l'.remaining ∧ l'.r.readBits ≤ 8
    | none => l.remaining = [] := by
  have h1 := l.r.next_spec hr
  unfold LReader.next LReader.remaining
  cases hl : l.limit with
  | none =>
    simp only []
    cases hn : l.r.next with
    | none => rw [hn] at h1; simpa using h1
    | some p => obtain ⟨b, r'⟩ := p; rw [hn] at h1; exact ⟨by simpa using h1.1, h1.2.2.2⟩
  | some k =>
    cases k with
    | zero => simp
    | succ k =>
      simp only []
      cases hn : l.r.next with
      | none => rw [hn] at h1; simp [h1]
      | some p =>
        obtain ⟨b, r'⟩ := p
        rw [hn] at h1
        refine ⟨?_, h1.2.2.2⟩
        simp [h1.1]

theorem bitsOf_length (l : List Nat) : (bitsOf l).length = 8 * l.length := by
  induction l with
  | nil => rfl
  | cons x xs ih => simp [bitsOf, ih]; omega

theorem bitsOf_drop : ∀ (k : Nat) (l : List Nat), bitsOf (l.drop k) = (bitsOf l).drop (8 * k)
  | 0, l => by simp
  | k+1, [] => by simp [bitsOf]
  | k+1, x :: xs => by
    simp only [List.drop_succ_cons, bitsOf]
    rw [bitsOf_drop k xs, show 8 * (k + 1) = 8 + 8 * k by omega, ← List.drop_drop,
      List.drop_left' (byteBits_length x)]

theorem bitsOf_take : ∀ (k : Nat) (l : List Nat), bitsOf (l.take k) = (bitsOf l).take (8 * k)
  | 0, l => by simp [bitsOf]
  | k+1, [] => by simp [bitsOf]
  | k+1, x :: xs => by
    simp only [List.take_succ_cons, bitsOf]
    rw [bitsOf_take k xs, show 8 * (k + 1) = 8 + 8 * k by omega, List.take_append,
      byteBits_length, List.take_of_length_le (l := byteBits x) (by simp)]
    congr 2
    omega

/-- `byte_slice_window(sl, start, end)` -/
def window (bytes : List Nat) (s e : Nat) : LReader :=
  let sl := (bytes.take ((e + 7) / 8)).drop (s / 8)
  if s % 8 = 0 then ⟨⟨sl, 0, 8, 0⟩, some (e - s)⟩
  else match sl with
    | [] => ⟨⟨[], 0, 8, 0⟩, some (e - s)⟩     -- the Rust code would panic on `unwrap`
    | b :: rest => ⟨⟨rest, b, s % 8, 0⟩, some (e - s)⟩

/-- **window**: exactly the bits `start .. end` of the slice -/
theorem window_exact (bytes : List Nat) (s e : Nat) (hse : s ≤ e) (he : e ≤ 8 * bytes.length) :
    (window bytes s e).remaining = ((bitsOf bytes).drop s).take (e - s) := by
  have key : ∀ (sl : List Nat), sl = (bytes.take ((e + 7) / 8)).drop (s / 8) →
      ((bitsOf sl).drop (s % 8)).take (e - s) = ((bitsOf bytes).drop s).take (e - s) := by
    intro sl hsl
    rw [hsl, bitsOf_drop, bitsOf_take, List.drop_drop, show 8 * (s / 8) + s % 8 = s by omega]
    rw [List.drop_take, List.take_take]
    congr 1
    omega
  unfold window
  simp only []
  by_cases h0 : s % 8 = 0
  · rw [if_pos h0]
    simp only [LReader.remaining, Reader.remaining, drop_byteBits_8, List.nil_append]
    have := key _ rfl
    rw [h0, List.drop_zero] at this
    exact this
  · rw [if_neg h0]
    cases hsl : (bytes.take ((e + 7) / 8)).drop (s / 8) with
    | nil =>
      -- impossible when s < e; for s = e both sides are empty
      have := key _ hsl.symm
      simp only [bitsOf, List.drop_nil, List.take_nil] at this
      simp [LReader.remaining, Reader.remaining, drop_byteBits_8, bitsOf, ← this]
    | cons b rest =>
      simp only [LReader.remaining, Reader.remaining]
      have := key _ hsl.symm
      simp only [bitsOf] at this
      rw [← this, List.drop_append_of_le_length (by simp; omega)]

#print axioms window_exact
#print axioms Reader.readU2_spec
#print axioms Writer.writeBitsBE_spec
#print axioms collectBits_spec
#print axioms write_read
#print axioms Reader.next_spec
#print axioms Reader.close_spec
#print axioms Reader.readU8_spec
#print axioms Writer.writeBit_spec
#print axioms Writer.flushAll_spec
end BitStream
