/-
A sequence of context operations (`Type::free/complete/sum/product`, `unify`, `bind_product`) run
from a well-formed context leaves a context whose assignments are exactly the solutions of the
equations the operations stand for (`opsEqns`, over the element indices as variables); an
`Err.bind` answer means those equations have no solution.
-/
import SimplicityModel.UnionBoundBindThm

namespace UB
open Inf (Ty Tm Eqn Sol)

/-- a complete type as a constant term -/
def tmOfInf : Ty → Tm
  | .one => .one
  | .sum a b => .sum (tmOfInf a) (tmOfInf b)
  | .prod a b => .prod (tmOfInf a) (tmOfInf b)

@[simp] theorem tmOfInf_eval (ρ : Nat → Ty) (t : Ty) : (tmOfInf t).eval ρ = t := by
  induction t with
  | one => rfl
  | sum a b iha ihb => simp [tmOfInf, Tm.eval, iha, ihb]
  | prod a b iha ihb => simp [tmOfInf, Tm.eval, iha, ihb]

/-- the equation an operation stands for when the context holds `k` elements, and the new count -/
def opEqn (k : Nat) : Op → List Eqn × Nat
  | .free => ([], k + 1)
  | .complete t => ([(.var k, tmOfInf t)], k + 1)
  | .sum a b => ([(.var k, .sum (.var a) (.var b))], k + 1)
  | .product a b => ([(.var k, .prod (.var a) (.var b))], k + 1)
  | .unify a b => ([(.var a, .var b)], k)
  | .bindProduct e a b => ([(.var e, .prod (.var a) (.var b))], k)

def opsEqns : Nat → List Op → List Eqn
  | _, [] => []
  | k, op :: ops => (opEqn k op).1 ++ opsEqns (opEqn k op).2 ops

def opsCount : Nat → List Op → Nat
  | k, [] => k
  | k, op :: ops => opsCount (opEqn k op).2 ops

theorem sol_append (ρ : Nat → Ty) (E E' : List Eqn) : Sol ρ (E ++ E') ↔ (Sol ρ E ∧ Sol ρ E') := by
  simp only [Sol, List.mem_append]
  exact ⟨fun h => ⟨fun e he => h e (.inl he), fun e he => h e (.inr he)⟩,
         fun ⟨h1, h2⟩ e he => he.elim (h1 e) (h2 e)⟩

theorem sol_nil (ρ : Nat → Ty) : Sol ρ [] := by simp [Sol]

theorem sol_single (ρ : Nat → Ty) (a b : Tm) : Sol ρ [(a, b)] ↔ a.eval ρ = b.eval ρ := by simp [Sol]

/-! ### allocation -/

theorem alloc_elems (c : Ctx) (B : Bound) (j : Nat) :
    (allocType c B).1.elems[j]? =
      if j = c.elems.size then some { data := .root c.slab.size, rank := 0 } else c.elems[j]? := by
  simp [allocType, Array.getElem?_push]

theorem alloc_slab (c : Ctx) (B : Bound) (j : Nat) :
    (allocType c B).1.slab[j]? = if j = c.slab.size then some B else c.slab[j]? := by
  simp [allocType, Array.getElem?_push]

theorem alloc_owner (c : Ctx) (B : Bound) (e b : Nat) :
    Owner (allocType c B).1 e b ↔ (Owner c e b ∨ (e = c.elems.size ∧ b = c.slab.size)) := by
  unfold Owner
  rw [alloc_elems]
  split
  · next h =>
    subst h
    have : c.elems[c.elems.size]? = none := Array.getElem?_eq_none (Nat.le_refl _)
    simp [eq_comm]
  · next h => simp [h]

theorem alloc_par (c : Ctx) (B : Bound) (ρ : Nat → Ty) :
    ParentSol ρ (allocType c B).1 ↔ ParentSol ρ c := by
  unfold ParentSol
  constructor
  · intro h e i p hi hd
    have hlt : e < c.elems.size := by
      rcases Nat.lt_or_ge e c.elems.size with h' | h'
      · exact h'
      · rw [Array.getElem?_eq_none h'] at hi; cases hi
    exact h e i p (by rw [alloc_elems, if_neg (Nat.ne_of_lt hlt)]; exact hi) hd
  · intro h e i p hi hd
    rw [alloc_elems] at hi
    split at hi
    · cases hi; cases hd
    · exact h e i p hi hd

theorem alloc_wf {c : Ctx} (w : WF c) (B : Bound) : WF (allocType c B).1 := by
  constructor
  · intro e b ho
    rcases (alloc_owner c B e b).1 ho with h | ⟨_, rfl⟩
    · have := w.rootLt e b h
      simp [allocType]; omega
    · simp [allocType]
  · intro e e' b ho ho'
    rcases (alloc_owner c B e b).1 ho with h | ⟨rfl, rfl⟩
    · rcases (alloc_owner c B e' b).1 ho' with h' | ⟨rfl, rfl⟩
      · exact w.inj e e' b h h'
      · exact absurd (w.rootLt e _ h) (Nat.lt_irrefl _)
    · rcases (alloc_owner c B e' _).1 ho' with h' | ⟨rfl, _⟩
      · exact absurd (w.rootLt e' _ h') (Nat.lt_irrefl _)
      · rfl

theorem alloc_sol {c : Ctx} (w : WF c) (B : Bound) (ρ : Nat → Ty) :
    SolSt ρ (allocType c B).1 ↔ (SolSt ρ c ∧ BoundSat ρ (ρ c.elems.size) B) := by
  constructor
  · intro s
    refine ⟨⟨(alloc_par c B ρ).1 s.par, ?_⟩, ?_⟩
    · intro e b B' ho hs
      have hlt := w.rootLt e b ho
      exact s.bnd e b B' ((alloc_owner c B e b).2 (.inl ho))
        (by rw [alloc_slab, if_neg (Nat.ne_of_lt hlt)]; exact hs)
    · exact s.bnd _ _ B ((alloc_owner c B _ _).2 (.inr ⟨rfl, rfl⟩)) (by rw [alloc_slab, if_pos rfl])
  · rintro ⟨s, hb⟩
    refine ⟨(alloc_par c B ρ).2 s.par, ?_⟩
    intro e b B' ho hs
    rcases (alloc_owner c B e b).1 ho with h | ⟨rfl, rfl⟩
    · have hlt := w.rootLt e b h
      rw [alloc_slab, if_neg (Nat.ne_of_lt hlt)] at hs
      exact s.bnd e b B' h hs
    · rw [alloc_slab, if_pos rfl] at hs; cases hs; exact hb

theorem alloc_size (c : Ctx) (B : Bound) : (allocType c B).1.elems.size = c.elems.size + 1 := by
  simp [allocType]

/-- outcome of an allocating operation that stands for the constraint `P` on the new element -/
def AllocGood (c : Ctx) (P : (Nat → Ty) → Prop) : M (Ctx × Nat) → Prop
  | .ok (c', k) => k = c.elems.size ∧ c'.elems.size = c.elems.size + 1 ∧ WF c' ∧
      (∀ ρ, SolSt ρ c' ↔ (SolSt ρ c ∧ P ρ))
  | .error .bind => False
  | .error .occurs => False
  | .error _ => True

theorem alloc_good {c c1 : Ctx} (k1 : Compress c c1) (w1 : WF c1) (B : Bound)
    (P : (Nat → Ty) → Prop)
    (h : ∀ ρ, (SolSt ρ c1 ∧ BoundSat ρ (ρ c1.elems.size) B) ↔ (SolSt ρ c ∧ P ρ)) :
    AllocGood c P (.ok (allocType c1 B)) := by
  have h1 : (allocType c1 B).2 = c.elems.size := k1.esize
  have h2 : (allocType c1 B).1.elems.size = c.elems.size + 1 := by rw [alloc_size, k1.esize]
  have h3 : WF (allocType c1 B).1 := alloc_wf w1 B
  have h4 : ∀ ρ, SolSt ρ (allocType c1 B).1 ↔ (SolSt ρ c ∧ P ρ) := fun ρ => (alloc_sol w1 B ρ).trans (h ρ)
  exact ⟨h1, h2, h3, h4⟩

theorem typePair_good {F : Nat} {c : Ctx} (w : WF c) (l r : Nat) (mk : Ty → Ty → Ty) (mkB : Nat → Nat → Bound)
    (hB : ∀ ρ t, BoundSat ρ t (mkB l r) ↔ t = mk (ρ l) (ρ r)) :
    AllocGood c (fun ρ => ρ c.elems.size = mk (ρ l) (ρ r))
      (match completePairData F c l r with
       | .error e => .error e
       | .ok (c, some (d1, d2)) => .ok (allocType c (.complete (mk d1 d2)))
       | .ok (c, none) => .ok (allocType c (mkB l r))) := by
  split
  · next err he => rcases completePairData_err he with rfl | rfl <;> trivial
  · next c1 d1 d2 h1 =>
    obtain ⟨k1, hc⟩ := completePairData_spec h1
    obtain ⟨ca1, ca2⟩ := hc d1 d2 rfl
    have w1 := k1.wf w
    refine alloc_good k1 w1 _ _ (fun ρ => ?_)
    rw [k1.esize]
    constructor
    · rintro ⟨s, hb⟩
      refine ⟨(k1.sol ρ).1 s, ?_⟩
      show _ = mk (ρ l) (ρ r)
      rw [ca1.value s, ca2.value s]; exact hb
    · rintro ⟨s, hb⟩
      have s1 := (k1.sol ρ).2 s
      refine ⟨s1, ?_⟩
      show _ = mk d1 d2
      rw [← ca1.value s1, ← ca2.value s1]; exact hb
  · next c1 h1 =>
    obtain ⟨k1, _⟩ := completePairData_spec h1
    have w1 := k1.wf w
    refine alloc_good k1 w1 _ _ (fun ρ => ?_)
    rw [k1.esize, hB, k1.sol ρ]

theorem typeSum_good {F : Nat} {c : Ctx} (w : WF c) (l r : Nat) :
    AllocGood c (fun ρ => ρ c.elems.size = .sum (ρ l) (ρ r)) (typeSum F c l r) :=
  typePair_good w l r .sum .sum (fun _ _ => Iff.rfl)

theorem typeProduct_good {F : Nat} {c : Ctx} (w : WF c) (l r : Nat) :
    AllocGood c (fun ρ => ρ c.elems.size = .prod (ρ l) (ρ r)) (typeProduct F c l r) :=
  typePair_good w l r .prod .product (fun _ _ => Iff.rfl)

/-! ### one operation, a list of operations -/

/-- outcome of running operations that stand for the equations `E` -/
def OpsGood (c : Ctx) (E : List Eqn) (k' : Nat) : M Ctx → Prop
  | .ok c' => WF c' ∧ c'.elems.size = k' ∧ (∀ ρ, SolSt ρ c' ↔ (SolSt ρ c ∧ Sol ρ E))
  | .error .bind => ∀ ρ, ¬ (SolSt ρ c ∧ Sol ρ E)
  | .error .occurs => False
  | .error _ => True

theorem StepGood.ops {c : Ctx} {P : (Nat → Ty) → Prop} {E : List Eqn} {res : M Ctx}
    (hP : ∀ ρ, P ρ ↔ Sol ρ E) (g : StepGood c P res) : OpsGood c E c.elems.size res := by
  match res, g with
  | .ok c', ⟨w, m, hs⟩ => exact ⟨w, m.esize, fun ρ => by rw [hs ρ, hP ρ]⟩
  | .error .bind, g => exact fun ρ h => g ρ ⟨h.1, (hP ρ).2 h.2⟩
  | .error .occurs, g => exact g
  | .error .fuel, _ => trivial
  | .error .panic, _ => trivial

theorem AllocGood.ops {c : Ctx} {P : (Nat → Ty) → Prop} {E : List Eqn} {res : M (Ctx × Nat)}
    (hP : ∀ ρ, P ρ ↔ Sol ρ E) (g : AllocGood c P res) :
    OpsGood c E (c.elems.size + 1) (fstM res) := by
  unfold fstM
  match res, g with
  | .ok (c', k), ⟨_, hsz, w, hs⟩ => exact ⟨w, hsz, fun ρ => by rw [hs ρ, hP ρ]⟩
  | .error .bind, g => exact g.elim
  | .error .occurs, g => exact g
  | .error .fuel, _ => trivial
  | .error .panic, _ => trivial

theorem step_good (F : Nat) {c : Ctx} (w : WF c) (op : Op) :
    OpsGood c (opEqn c.elems.size op).1 (opEqn c.elems.size op).2 (step F c op) := by
  cases op with
  | free =>
    refine ⟨alloc_wf w _, alloc_size c _, fun ρ => ?_⟩
    show SolSt ρ (allocType c .free).1 ↔ _
    rw [alloc_sol w]
    exact ⟨fun h => ⟨h.1, sol_nil ρ⟩, fun h => ⟨h.1, trivial⟩⟩
  | complete t =>
    refine ⟨alloc_wf w _, alloc_size c _, fun ρ => ?_⟩
    show SolSt ρ (allocType c (.complete t)).1 ↔ _
    rw [alloc_sol w]
    simp only [opEqn, sol_single, Tm.eval, tmOfInf_eval]
    exact Iff.rfl
  | sum a b =>
    exact (typeSum_good (F := F) w a b).ops (fun ρ => by simp [opEqn, sol_single, Tm.eval])
  | product a b =>
    exact (typeProduct_good (F := F) w a b).ops (fun ρ => by simp [opEqn, sol_single, Tm.eval])
  | unify a b =>
    exact (unify_good F F w a b).step.ops (fun ρ => by simp [opEqn, sol_single, Tm.eval])
  | bindProduct e a b =>
    exact (bindProduct_good F F w e a b).ops (fun ρ => by simp [opEqn, sol_single, Tm.eval])

theorem runOps_good (F : Nat) : ∀ (ops : List Op) {c : Ctx}, WF c →
    OpsGood c (opsEqns c.elems.size ops) (opsCount c.elems.size ops) (runOps F c ops)
  | [], c, w => ⟨w, rfl, fun ρ => ⟨fun s => ⟨s, sol_nil ρ⟩, fun h => h.1⟩⟩
  | op :: ops, c, w => by
    unfold runOps
    have g := step_good F w op
    generalize step F c op = res at g
    match res, g with
    | .ok c1, ⟨w1, hsz, hs⟩ =>
      dsimp only
      have g2 := runOps_good F ops w1
      rw [hsz] at g2
      generalize runOps F c1 ops = res2 at g2
      simp only [opsEqns, opsCount]
      match res2, g2 with
      | .ok c2, ⟨w2, hsz2, hs2⟩ =>
        refine ⟨w2, hsz2, fun ρ => ?_⟩
        rw [hs2 ρ, hs ρ, sol_append, and_assoc]
      | .error .bind, g2 =>
        intro ρ h
        rw [sol_append] at h
        exact g2 ρ ⟨(hs ρ).2 ⟨h.1, h.2.1⟩, h.2.2⟩
      | .error .occurs, g2 => exact g2
      | .error .fuel, _ => trivial
      | .error .panic, _ => trivial
    | .error .bind, g =>
      intro ρ h
      simp only [opsEqns, sol_append] at h
      exact g ρ ⟨h.1, h.2.1⟩
    | .error .occurs, g => exact g
    | .error .fuel, _ => trivial
    | .error .panic, _ => trivial

theorem wf_empty : WF ({} : Ctx) :=
  ⟨fun e b ⟨i, hi, _⟩ => by simp at hi, fun e e' b ⟨i, hi, _⟩ => by simp at hi⟩

theorem solSt_empty (ρ : Nat → Ty) : SolSt ρ ({} : Ctx) :=
  ⟨fun e i p hi => by simp at hi, fun e b B ⟨i, hi, _⟩ => by simp at hi⟩

end UB
