/-
Spike: reference unifier for Simplicity's type constraints and the invariants
that give soundness, "no solution on error" and leastness (= principal solution
with the remaining variables set to unit).
-/
namespace Inf

inductive Ty | one | sum (a b : Ty) | prod (a b : Ty)
deriving DecidableEq, Repr

inductive Tm | var (n : Nat) | one | sum (a b : Tm) | prod (a b : Tm)
deriving DecidableEq, Repr

def Tm.eval (ρ : Nat → Ty) : Tm → Ty
  | .var n => ρ n
  | .one => .one
  | .sum a b => .sum (a.eval ρ) (b.eval ρ)
  | .prod a b => .prod (a.eval ρ) (b.eval ρ)

def Tm.subst1 : Tm → Nat → Tm → Tm
  | .var n, x, t => if n = x then t else .var n
  | .one, _, _ => .one
  | .sum a b, x, t => .sum (a.subst1 x t) (b.subst1 x t)
  | .prod a b, x, t => .prod (a.subst1 x t) (b.subst1 x t)

def Tm.occurs : Tm → Nat → Bool
  | .var n, x => n = x
  | .one, _ => false
  | .sum a b, x => a.occurs x || b.occurs x
  | .prod a b, x => a.occurs x || b.occurs x

def Ty.size : Ty → Nat
  | .one => 1
  | .sum a b => 1 + a.size + b.size
  | .prod a b => 1 + a.size + b.size

abbrev Eqn := Tm × Tm
abbrev Bind := Nat × Tm

def Sol (ρ : Nat → Ty) (E : List Eqn) : Prop := ∀ e ∈ E, e.1.eval ρ = e.2.eval ρ
def SolS (ρ : Nat → Ty) (S : List Bind) : Prop := ∀ p ∈ S, ρ p.1 = p.2.eval ρ

inductive Res | ok (S : List Bind) | clash | occurs | fuel
deriving Repr

def substE (x : Nat) (t : Tm) (e : Eqn) : Eqn := (e.1.subst1 x t, e.2.subst1 x t)
def substS (x : Nat) (t : Tm) (p : Bind) : Bind := (p.1, p.2.subst1 x t)

def elim (unify : List Eqn → List Bind → Res) (x : Nat) (t : Tm) (E : List Eqn) (S : List Bind) : Res :=
  if t = .var x then unify E S
  else if t.occurs x then .occurs
  else unify (E.map (substE x t)) ((x, t) :: S.map (substS x t))

def unify : Nat → List Eqn → List Bind → Res
  | 0, _, _ => .fuel
  | _+1, [], S => .ok S
  | f+1, (s, t) :: E, S =>
    match s, t with
    | .var x, t => elim (unify f) x t E S
    | .one, .var x => elim (unify f) x .one E S
    | .sum a b, .var x => elim (unify f) x (.sum a b) E S
    | .prod a b, .var x => elim (unify f) x (.prod a b) E S
    | .one, .one => unify f E S
    | .sum a b, .sum c d => unify f ((a, c) :: (b, d) :: E) S
    | .prod a b, .prod c d => unify f ((a, c) :: (b, d) :: E) S
    | _, _ => .clash

/-! ### lemmas -/

theorem subst1_eval (ρ : Nat → Ty) (x : Nat) (t : Tm) (h : ρ x = t.eval ρ) (u : Tm) :
    (u.subst1 x t).eval ρ = u.eval ρ := by
  induction u with
  | var n =>
    simp only [Tm.subst1]
    split
    · next hn => subst hn; simp [Tm.eval, h]
    · rfl
  | one => rfl
  | sum a b iha ihb => simp [Tm.subst1, Tm.eval, iha, ihb]
  | prod a b iha ihb => simp [Tm.subst1, Tm.eval, iha, ihb]

theorem Ty.size_pos (t : Ty) : 0 < t.size := by cases t <;> simp [Ty.size] <;> omega

theorem occurs_size (ρ : Nat → Ty) (x : Nat) (t : Tm) (ho : t.occurs x = true) :
    (ρ x).size ≤ (t.eval ρ).size := by
  induction t with
  | var n => simp [Tm.occurs] at ho; subst ho; simp [Tm.eval]
  | one => simp [Tm.occurs] at ho
  | sum a b iha ihb =>
    simp only [Tm.occurs, Bool.or_eq_true] at ho
    simp only [Tm.eval, Ty.size]
    rcases ho with h | h
    · have := iha h; omega
    · have := ihb h; omega
  | prod a b iha ihb =>
    simp only [Tm.occurs, Bool.or_eq_true] at ho
    simp only [Tm.eval, Ty.size]
    rcases ho with h | h
    · have := iha h; omega
    · have := ihb h; omega

theorem occurs_no_sol (ρ : Nat → Ty) (x : Nat) (t : Tm) (hne : t ≠ .var x)
    (ho : t.occurs x = true) : ρ x ≠ t.eval ρ := by
  intro h
  cases t with
  | var n => simp [Tm.occurs] at ho; subst ho; exact hne rfl
  | one => simp [Tm.occurs] at ho
  | sum a b =>
    simp only [Tm.occurs, Bool.or_eq_true] at ho
    have hs : (ρ x).size = 1 + (a.eval ρ).size + (b.eval ρ).size := by rw [h]; rfl
    rcases ho with h' | h'
    · have := occurs_size ρ x a h'; omega
    · have := occurs_size ρ x b h'; omega
  | prod a b =>
    simp only [Tm.occurs, Bool.or_eq_true] at ho
    have hs : (ρ x).size = 1 + (a.eval ρ).size + (b.eval ρ).size := by rw [h]; rfl
    rcases ho with h' | h'
    · have := occurs_size ρ x a h'; omega
    · have := occurs_size ρ x b h'; omega

/-- the state `(E, S)` denotes the valuations solving both -/
def Den (ρ : Nat → Ty) (E : List Eqn) (S : List Bind) : Prop := Sol ρ E ∧ SolS ρ S

theorem sol_cons (ρ) (e : Eqn) (E : List Eqn) : Sol ρ (e :: E) ↔ e.1.eval ρ = e.2.eval ρ ∧ Sol ρ E := by
  simp [Sol]

theorem solS_cons (ρ) (p : Bind) (S : List Bind) : SolS ρ (p :: S) ↔ ρ p.1 = p.2.eval ρ ∧ SolS ρ S := by
  simp [SolS]

theorem sol_map_subst (ρ : Nat → Ty) (x : Nat) (t : Tm) (h : ρ x = t.eval ρ) (E : List Eqn) :
    Sol ρ (E.map (substE x t)) ↔ Sol ρ E := by
  simp only [Sol, List.mem_map, forall_exists_index, and_imp, forall_apply_eq_imp_iff₂, substE,
    subst1_eval ρ x t h]

theorem solS_map_subst (ρ : Nat → Ty) (x : Nat) (t : Tm) (h : ρ x = t.eval ρ) (S : List Bind) :
    SolS ρ (S.map (substS x t)) ↔ SolS ρ S := by
  simp only [SolS, List.mem_map, forall_exists_index, and_imp, forall_apply_eq_imp_iff₂, substS,
    subst1_eval ρ x t h]

/-- what a result says about the denotation of the state it was computed from -/
def Good (r : Res) (E : List Eqn) (S : List Bind) : Prop :=
  match r with
  | .ok S' => ∀ ρ, Den ρ E S ↔ SolS ρ S'
  | .clash => ∀ ρ, ¬ Den ρ E S
  | .occurs => ∀ ρ, ¬ Den ρ E S
  | .fuel => True

theorem good_of_iff {r : Res} {E E' : List Eqn} {S S' : List Bind}
    (h : ∀ ρ, Den ρ E S ↔ Den ρ E' S') (g : Good r E' S') : Good r E S := by
  cases r with
  | ok S'' => intro ρ; rw [h ρ]; exact g ρ
  | clash => intro ρ; rw [h ρ]; exact g ρ
  | occurs => intro ρ; rw [h ρ]; exact g ρ
  | fuel => trivial

theorem elim_good (u : List Eqn → List Bind → Res) (hu : ∀ E S, Good (u E S) E S)
    (x : Nat) (t : Tm) (E : List Eqn) (S : List Bind) :
    Good (elim u x t E S) ((.var x, t) :: E) S := by
  unfold elim
  split
  · next h =>
    subst h
    apply good_of_iff _ (hu E S)
    intro ρ; simp [Den, sol_cons]
  · split
    · next hne ho =>
      intro ρ hd
      have := (sol_cons ρ _ _).1 hd.1
      exact occurs_no_sol ρ x t hne ho this.1
    · apply good_of_iff _ (hu _ _)
      intro ρ
      simp only [Den, sol_cons, solS_cons, Tm.eval]
      constructor
      · rintro ⟨⟨hx, hE⟩, hS⟩
        exact ⟨(sol_map_subst ρ x t hx E).2 hE, hx, (solS_map_subst ρ x t hx S).2 hS⟩
      · rintro ⟨hE, hx, hS⟩
        exact ⟨⟨hx, (sol_map_subst ρ x t hx E).1 hE⟩, (solS_map_subst ρ x t hx S).1 hS⟩

theorem good_swap {r : Res} {x : Nat} {t : Tm} {E : List Eqn} {S : List Bind}
    (g : Good r ((.var x, t) :: E) S) : Good r ((t, .var x) :: E) S := by
  apply good_of_iff _ g
  intro ρ
  simp only [Den, sol_cons]
  constructor
  · rintro ⟨⟨h, hE⟩, hS⟩; exact ⟨⟨h.symm, hE⟩, hS⟩
  · rintro ⟨⟨h, hE⟩, hS⟩; exact ⟨⟨h.symm, hE⟩, hS⟩

/-- **soundness + exactness of errors** for every fuel: an `ok` result has exactly the
solutions of the input; `clash`/`occurs` mean the input has no (finite) solution. -/
theorem unify_good : ∀ (f : Nat) (E : List Eqn) (S : List Bind), Good (unify f E S) E S := by
  intro f
  induction f with
  | zero => intro E S; simp [unify, Good]
  | succ f ih =>
    intro E S
    cases E with
    | nil => simp [unify, Good, Den, Sol]
    | cons e E =>
      obtain ⟨s, t⟩ := e
      cases s with
      | var x => simp only [unify]; exact elim_good _ ih x t E S
      | one =>
        cases t with
        | var x => simp only [unify]; exact good_swap (elim_good _ ih x .one E S)
        | one =>
          simp only [unify]
          apply good_of_iff _ (ih E S); intro ρ; simp [Den, sol_cons]
        | sum c d => simp only [unify]; intro ρ hd; have := (sol_cons ρ _ _).1 hd.1; simp [Tm.eval] at this
        | prod c d => simp only [unify]; intro ρ hd; have := (sol_cons ρ _ _).1 hd.1; simp [Tm.eval] at this
      | sum a b =>
        cases t with
        | var x => simp only [unify]; exact good_swap (elim_good _ ih x (.sum a b) E S)
        | one => simp only [unify]; intro ρ hd; have := (sol_cons ρ _ _).1 hd.1; simp [Tm.eval] at this
        | sum c d =>
          simp only [unify]
          apply good_of_iff _ (ih _ S); intro ρ
          simp only [Den, sol_cons, Tm.eval, Ty.sum.injEq]
          constructor
          · rintro ⟨⟨⟨h1, h2⟩, hE⟩, hS⟩; exact ⟨⟨h1, h2, hE⟩, hS⟩
          · rintro ⟨⟨h1, h2, hE⟩, hS⟩; exact ⟨⟨⟨h1, h2⟩, hE⟩, hS⟩
        | prod c d => simp only [unify]; intro ρ hd; have := (sol_cons ρ _ _).1 hd.1; simp [Tm.eval] at this
      | prod a b =>
        cases t with
        | var x => simp only [unify]; exact good_swap (elim_good _ ih x (.prod a b) E S)
        | one => simp only [unify]; intro ρ hd; have := (sol_cons ρ _ _).1 hd.1; simp [Tm.eval] at this
        | sum c d => simp only [unify]; intro ρ hd; have := (sol_cons ρ _ _).1 hd.1; simp [Tm.eval] at this
        | prod c d =>
          simp only [unify]
          apply good_of_iff _ (ih _ S); intro ρ
          simp only [Den, sol_cons, Tm.eval, Ty.prod.injEq]
          constructor
          · rintro ⟨⟨⟨h1, h2⟩, hE⟩, hS⟩; exact ⟨⟨h1, h2, hE⟩, hS⟩
          · rintro ⟨⟨h1, h2, hE⟩, hS⟩; exact ⟨⟨⟨h1, h2⟩, hE⟩, hS⟩


/-! ### solved form and the least solution -/

def Solved (S : List Bind) (E : List Eqn) : Prop :=
  (∀ p ∈ S, ∀ q ∈ S, q.2.occurs p.1 = false) ∧
  (∀ p ∈ S, ∀ e ∈ E, e.1.occurs p.1 = false ∧ e.2.occurs p.1 = false) ∧
  (S.map (·.1)).Nodup

theorem occurs_subst_self (u : Tm) (x : Nat) (t : Tm) (h : t.occurs x = false) :
    (u.subst1 x t).occurs x = false := by
  induction u with
  | var n => simp only [Tm.subst1]; split <;> simp_all [Tm.occurs]
  | one => rfl
  | sum a b iha ihb => simp [Tm.subst1, Tm.occurs, iha, ihb]
  | prod a b iha ihb => simp [Tm.subst1, Tm.occurs, iha, ihb]

theorem occurs_subst_other (u : Tm) (x y : Nat) (t : Tm) (hu : u.occurs y = false)
    (ht : t.occurs y = false) : (u.subst1 x t).occurs y = false := by
  induction u with
  | var n => simp only [Tm.subst1]; split <;> simp_all [Tm.occurs]
  | one => rfl
  | sum a b iha ihb =>
    simp only [Tm.occurs, Bool.or_eq_false_iff] at hu
    simp [Tm.subst1, Tm.occurs, iha hu.1, ihb hu.2]
  | prod a b iha ihb =>
    simp only [Tm.occurs, Bool.or_eq_false_iff] at hu
    simp [Tm.subst1, Tm.occurs, iha hu.1, ihb hu.2]

theorem solved_elim {x : Nat} {t : Tm} {E : List Eqn} {S : List Bind}
    (h : Solved S ((.var x, t) :: E)) (ho : t.occurs x = false) :
    Solved ((x, t) :: S.map (substS x t)) (E.map (substE x t)) := by
  obtain ⟨h1, h2, h3⟩ := h
  have hxt : ∀ p ∈ S, p.1 ≠ x ∧ t.occurs p.1 = false := by
    intro p hp
    have := (h2 p hp (.var x, t) (by simp))
    simp only [Tm.occurs, decide_eq_false_iff_not] at this
    exact ⟨fun h => this.1 h.symm, this.2⟩
  refine ⟨?_, ?_, ?_⟩
  · intro p hp q hq
    simp only [List.mem_cons, List.mem_map] at hp hq
    rcases hp with rfl | ⟨p', hp', rfl⟩
    · rcases hq with rfl | ⟨q', _, rfl⟩
      · exact ho
      · exact occurs_subst_self _ _ _ ho
    · rcases hq with rfl | ⟨q', hq', rfl⟩
      · exact (hxt p' hp').2
      · exact occurs_subst_other _ _ _ _ (h1 p' hp' q' hq') (hxt p' hp').2
  · intro p hp e he
    simp only [List.mem_cons, List.mem_map] at hp he
    obtain ⟨e', he', rfl⟩ := he
    rcases hp with rfl | ⟨p', hp', rfl⟩
    · exact ⟨occurs_subst_self _ _ _ ho, occurs_subst_self _ _ _ ho⟩
    · have := h2 p' hp' e' (by simp [he'])
      exact ⟨occurs_subst_other _ _ _ _ this.1 (hxt p' hp').2,
             occurs_subst_other _ _ _ _ this.2 (hxt p' hp').2⟩
  · simp only [List.map_cons, List.map_map]
    have : (S.map ((·.1) ∘ substS x t)) = S.map (·.1) := by
      apply List.map_congr_left; intro p _; rfl
    rw [this, List.nodup_cons]
    refine ⟨?_, h3⟩
    intro hmem
    obtain ⟨p, hp, hpx⟩ := List.mem_map.1 hmem
    exact (hxt p hp).1 hpx

theorem solved_tail {e : Eqn} {E : List Eqn} {S : List Bind} (h : Solved S (e :: E)) : Solved S E :=
  ⟨h.1, fun p hp e' he' => h.2.1 p hp e' (by simp [he']), h.2.2⟩

theorem solved_swap {x : Nat} {t : Tm} {E : List Eqn} {S : List Bind}
    (h : Solved S ((t, .var x) :: E)) : Solved S ((.var x, t) :: E) := by
  refine ⟨h.1, ?_, h.2.2⟩
  intro p hp e he
  simp only [List.mem_cons] at he
  rcases he with rfl | he
  · have := h.2.1 p hp (t, .var x) (by simp); exact ⟨this.2, this.1⟩
  · exact h.2.1 p hp e (by simp [he])

theorem solved_decomp {a b c d : Tm} {E : List Eqn} {S : List Bind}
    (h : ∀ p ∈ S, (a.occurs p.1 = false ∧ b.occurs p.1 = false) ∧
                   (c.occurs p.1 = false ∧ d.occurs p.1 = false))
    (ht : Solved S E) : Solved S ((a, c) :: (b, d) :: E) := by
  refine ⟨ht.1, ?_, ht.2.2⟩
  intro p hp e he
  simp only [List.mem_cons] at he
  rcases he with rfl | rfl | he
  · exact ⟨(h p hp).1.1, (h p hp).2.1⟩
  · exact ⟨(h p hp).1.2, (h p hp).2.2⟩
  · exact ht.2.1 p hp e he

theorem elim_solved (u : List Eqn → List Bind → Res)
    (hu : ∀ E S S', Solved S E → u E S = .ok S' → Solved S' [])
    (x : Nat) (t : Tm) (E : List Eqn) (S S' : List Bind)
    (h : Solved S ((.var x, t) :: E)) (hr : elim u x t E S = .ok S') : Solved S' [] := by
  unfold elim at hr
  split at hr
  · exact hu _ _ _ (solved_tail h) hr
  · split at hr
    · cases hr
    · next _ ho => exact hu _ _ _ (solved_elim h (by simpa using ho)) hr

theorem unify_solved : ∀ (f : Nat) (E : List Eqn) (S S' : List Bind),
    Solved S E → unify f E S = .ok S' → Solved S' [] := by
  intro f
  induction f with
  | zero => intro E S S' _ h; simp [unify] at h
  | succ f ih =>
    intro E S S' hs hr
    cases E with
    | nil => simp only [unify] at hr; cases hr; exact hs
    | cons e E =>
      obtain ⟨s, t⟩ := e
      cases s with
      | var x => simp only [unify] at hr; exact elim_solved _ ih x t E S S' hs hr
      | one =>
        cases t with
        | var x => simp only [unify] at hr; exact elim_solved _ ih x .one E S S' (solved_swap hs) hr
        | one => simp only [unify] at hr; exact ih _ _ _ (solved_tail hs) hr
        | sum c d => simp [unify] at hr
        | prod c d => simp [unify] at hr
      | sum a b =>
        cases t with
        | var x => simp only [unify] at hr; exact elim_solved _ ih x _ E S S' (solved_swap hs) hr
        | one => simp [unify] at hr
        | sum c d =>
          simp only [unify] at hr
          refine ih _ _ _ (solved_decomp ?_ (solved_tail hs)) hr
          intro p hp
          have := hs.2.1 p hp (.sum a b, .sum c d) (by simp)
          simpa [Tm.occurs, Bool.or_eq_false_iff] using this
        | prod c d => simp [unify] at hr
      | prod a b =>
        cases t with
        | var x => simp only [unify] at hr; exact elim_solved _ ih x _ E S S' (solved_swap hs) hr
        | one => simp [unify] at hr
        | sum c d => simp [unify] at hr
        | prod c d =>
          simp only [unify] at hr
          refine ih _ _ _ (solved_decomp ?_ (solved_tail hs)) hr
          intro p hp
          have := hs.2.1 p hp (.prod a b, .prod c d) (by simp)
          simpa [Tm.occurs, Bool.or_eq_false_iff] using this

/-- the order of `Value::prune`: unit below everything, componentwise otherwise -/
inductive Le : Ty → Ty → Prop
  | one (t) : Le .one t
  | sum {a a' b b'} : Le a a' → Le b b' → Le (.sum a b) (.sum a' b')
  | prod {a a' b b'} : Le a a' → Le b b' → Le (.prod a b) (.prod a' b')

theorem Le.refl : ∀ t, Le t t
  | .one => .one _
  | .sum a b => .sum (Le.refl a) (Le.refl b)
  | .prod a b => .prod (Le.refl a) (Le.refl b)

theorem eval_mono {ρ ρ' : Nat → Ty} (h : ∀ x, Le (ρ x) (ρ' x)) (t : Tm) :
    Le (t.eval ρ) (t.eval ρ') := by
  induction t with
  | var n => exact h n
  | one => exact .one _
  | sum a b iha ihb => exact .sum iha ihb
  | prod a b iha ihb => exact .prod iha ihb

theorem eval_congr {ρ ρ' : Nat → Ty} (t : Tm) (h : ∀ y, t.occurs y = true → ρ y = ρ' y) :
    t.eval ρ = t.eval ρ' := by
  induction t with
  | var n => exact h n (by simp [Tm.occurs])
  | one => rfl
  | sum a b iha ihb =>
    simp only [Tm.eval]
    rw [iha (fun y hy => h y (by simp [Tm.occurs, hy])), ihb (fun y hy => h y (by simp [Tm.occurs, hy]))]
  | prod a b iha ihb =>
    simp only [Tm.eval]
    rw [iha (fun y hy => h y (by simp [Tm.occurs, hy])), ihb (fun y hy => h y (by simp [Tm.occurs, hy]))]

def lookup : List Bind → Nat → Option Tm
  | [], _ => none
  | (y, t) :: S, x => if y = x then some t else lookup S x

/-- remaining variables set to unit -/
def closeUnit (S : List Bind) : Nat → Ty := fun x =>
  match lookup S x with
  | some t => t.eval (fun _ => .one)
  | none => .one

theorem lookup_none {S : List Bind} {x : Nat} (h : ∀ p ∈ S, p.1 ≠ x) : lookup S x = none := by
  induction S with
  | nil => rfl
  | cons p S ih =>
    obtain ⟨y, t⟩ := p
    simp only [lookup]
    rw [if_neg (h (y, t) (by simp))]
    exact ih (fun q hq => h q (by simp [hq]))

theorem lookup_mem {S : List Bind} (hn : (S.map (·.1)).Nodup) {p : Bind} (hp : p ∈ S) :
    lookup S p.1 = some p.2 := by
  induction S with
  | nil => cases hp
  | cons q S ih =>
    obtain ⟨y, t⟩ := q
    simp only [List.map_cons, List.nodup_cons] at hn
    simp only [List.mem_cons] at hp
    simp only [lookup]
    rcases hp with rfl | hp
    · simp
    · have : y ≠ p.1 := by
        intro h; apply hn.1; rw [h]; exact List.mem_map.2 ⟨p, hp, rfl⟩
      rw [if_neg this]; exact ih hn.2 hp

/-- **principal solution with free variables set to unit = least solution** -/
theorem closeUnit_least (S : List Bind) (hs : Solved S []) :
    SolS (closeUnit S) S ∧ ∀ ρ, SolS ρ S → ∀ x, Le (closeUnit S x) (ρ x) := by
  constructor
  · intro p hp
    have hl := lookup_mem hs.2.2 hp
    show (match lookup S p.1 with | some t => t.eval (fun _ => .one) | none => .one) = _
    rw [hl]
    apply eval_congr
    intro y hy
    -- y occurs in p.2, hence is not in the domain
    have : ∀ q ∈ S, q.1 ≠ y := by
      intro q hq h
      have := hs.1 q hq p hp
      rw [h] at this
      rw [this] at hy; cases hy
    show Ty.one = closeUnit S y
    unfold closeUnit; rw [lookup_none this]
  · intro ρ hρ x
    unfold closeUnit
    cases hl : lookup S x with
    | none => exact .one _
    | some t =>
      -- (x, t) ∈ S
      have hmem : (x, t) ∈ S := by
        clear hρ hs
        induction S with
        | nil => simp [lookup] at hl
        | cons q S ih =>
          obtain ⟨y, u⟩ := q
          simp only [lookup] at hl
          split at hl
          · next h => cases hl; subst h; simp
          · simp [ih hl]
      have := hρ (x, t) hmem
      show Le (t.eval fun _ => .one) (ρ x)
      rw [this]
      exact eval_mono (fun _ => .one _) t

/-- end-to-end: a successful run from the empty substitution yields the least solution of `E` -/
theorem unify_least (f : Nat) (E : List Eqn) (S' : List Bind) (h : unify f E [] = .ok S') :
    Sol (closeUnit S') E ∧ ∀ ρ, Sol ρ E → ∀ x, Le (closeUnit S' x) (ρ x) := by
  have hg := unify_good f E []
  rw [h] at hg
  have hsol : Solved S' [] := unify_solved f E [] S' ⟨by simp, by simp, by simp⟩ h
  have hl := closeUnit_least S' hsol
  constructor
  · exact ((hg _).2 hl.1).1
  · intro ρ hρ
    exact hl.2 ρ ((hg ρ).1 ⟨hρ, by simp [SolS]⟩)


theorem Le.antisymm : ∀ {a b : Ty}, Le a b → Le b a → a = b := by
  intro a b h1
  induction h1 with
  | one t => intro h2; cases h2; rfl
  | sum _ _ iha ihb => intro h2; cases h2 with | sum ha hb => rw [iha ha, ihb hb]
  | prod _ _ iha ihb => intro h2; cases h2 with | prod ha hb => rw [iha ha, ihb hb]

/-- **C08/C12**: dropping constraints (pruning a branch) can only shrink the inferred types -/
theorem least_mono {f f' : Nat} {E E' : List Eqn} {S S' : List Bind}
    (hsub : ∀ e ∈ E', e ∈ E) (h : unify f E [] = .ok S) (h' : unify f' E' [] = .ok S') :
    ∀ x, Le (closeUnit S' x) (closeUnit S x) := by
  have hs := (unify_least f E S h).1
  exact (unify_least f' E' S' h').2 (closeUnit S) (fun e he => hs e (hsub e he))

/-- **C04 order independence**: the inferred types depend only on the *set* of constraints, not on
the order (or multiplicity) in which the nodes were constructed, nor on the fuel used -/
theorem least_order_independent {f f' : Nat} {E E' : List Eqn} {S S' : List Bind}
    (hsame : ∀ e, e ∈ E ↔ e ∈ E') (h : unify f E [] = .ok S) (h' : unify f' E' [] = .ok S') :
    ∀ x, closeUnit S x = closeUnit S' x := by
  intro x
  exact Le.antisymm (least_mono (fun e he => (hsame e).1 he) h' h x)
    (least_mono (fun e he => (hsame e).2 he) h h' x)

/-- and rejection is order independent too: a clash/occurs result for one order excludes success for any other -/
theorem error_order_independent {f f' : Nat} {E E' : List Eqn} {S' : List Bind}
    (hsame : ∀ e, e ∈ E ↔ e ∈ E') (h : unify f E [] = .clash ∨ unify f E [] = .occurs)
    (h' : unify f' E' [] = .ok S') : False := by
  have hs := (unify_least f' E' S' h').1
  have hg := unify_good f E []
  have hden : Den (closeUnit S') E [] := ⟨fun e he => hs e ((hsame e).1 he), by simp [SolS]⟩
  rcases h with h | h <;> (rw [h] at hg; exact hg _ hden)

/-- **C01, re-inference after decoding**: decoding merges nodes with equal identity roots, which
only *adds* equations between type variables that already had equal types.  If the original typing
`closeUnit S` (the least solution of the original constraints `E`) also solves the enlarged system
`E'`, then inference on `E'` returns exactly the original types. -/
theorem least_of_quotient {f f' : Nat} {E E' : List Eqn} {S S' : List Bind}
    (hsub : ∀ e ∈ E, e ∈ E') (h : unify f E [] = .ok S) (h' : unify f' E' [] = .ok S')
    (hsol : Sol (closeUnit S) E') : ∀ x, closeUnit S' x = closeUnit S x := by
  intro x
  apply Le.antisymm
  · exact (unify_least f' E' S' h').2 (closeUnit S) hsol x
  · exact least_mono hsub h' h x

/-- and inference on the enlarged system cannot fail when the original typing solves it -/
theorem quotient_accepts {f' : Nat} {E' : List Eqn} {ρ : Nat → Ty} (hsol : Sol ρ E')
    (h : unify f' E' [] = .clash ∨ unify f' E' [] = .occurs) : False := by
  have hg := unify_good f' E' []
  have hden : Den ρ E' [] := ⟨hsol, by simp [SolS]⟩
  rcases h with h | h <;> (rw [h] at hg; exact hg _ hden)

#print axioms least_of_quotient
#print axioms unify_good
#print axioms unify_least
#print axioms least_order_independent
end Inf
