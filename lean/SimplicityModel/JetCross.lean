/-
C14 — comparisons *between* jet tables (Core vs Elements, Elements vs the C tables of libsimplicity):
the single-pass Boolean checks the kernel evaluates over the regenerated tables, and the lemmas that
turn a passed check into a statement about every row.  Core Lean only.
-/
import SimplicityModel.JetTable

namespace JetTable

/-- the types two type names denote are the same: the names are the same bytes, or both are legal and
have the same (compressed) parse -/
def sameTy (k1 k2 : Nat) : Bool :=
  Nat.beq k1 k2 ||
    (match ctyOfName (bytesOfKey k1), ctyOfName (bytesOfKey k2) with
     | some a, some b => decide (a = b)
     | _, _ => false)

theorem sameTy_spec {k1 k2 : Nat} (h : sameTy k1 k2 = true) :
    typeOfName (bytesOfKey k1) = typeOfName (bytesOfKey k2) := by
  unfold sameTy at h
  simp only [Bool.or_eq_true] at h
  rcases h with h | h
  · rw [Nat.eq_of_beq_eq_true h]
  · apply typeOfName_congr
    split at h
    · next a b h1 h2 => simp only [decide_eq_true_eq] at h; rw [h1, h2, h]
    · cases h

/-! ## Core ⊂ Elements (both in alphabetical order: one merge pass) -/

/-- every core jet (keys `kcs`, codes `ccs`) has a namesake further along the Elements table with the same
source and target type and the code `0 ++ core code` -/
def coreInElements : List (Nat × Nat × Nat) → List (List Bool) → List (Nat × Nat × Nat) → List (List Bool) → Bool
  | [], [], _, _ => true
  | kc :: kcs, cc :: ccs, ke :: kes, ce :: ces =>
    bif Nat.beq kc.1 ke.1 then
      sameTy kc.2.1 ke.2.1 && sameTy kc.2.2 ke.2.2 && decide (ce = false :: cc) && coreInElements kcs ccs kes ces
    else coreInElements (kc :: kcs) (cc :: ccs) kes ces
  | _, _, _, _ => false

/-- what is established for core row `i` and its Elements namesake `j` -/
def CoreMatch (kcs : List (Nat × Nat × Nat)) (ccs : List (List Bool)) (kes : List (Nat × Nat × Nat)) (ces : List (List Bool))
    (i j : Nat) : Prop :=
  ∃ (h1 : i < kcs.length) (h2 : i < ccs.length) (h3 : j < kes.length) (h4 : j < ces.length),
    kcs[i].1 = kes[j].1 ∧ sameTy kcs[i].2.1 kes[j].2.1 = true ∧ sameTy kcs[i].2.2 kes[j].2.2 = true ∧
    ces[j] = false :: ccs[i]

theorem coreInElements_spec : ∀ (kcs : List (Nat × Nat × Nat)) (ccs : List (List Bool)) (kes : List (Nat × Nat × Nat))
    (ces : List (List Bool)), coreInElements kcs ccs kes ces = true →
    kcs.length = ccs.length ∧ ∀ i, i < kcs.length → ∃ j, CoreMatch kcs ccs kes ces i j
  | [], [], _, _, _ => ⟨rfl, fun i h => by cases h⟩
  | [], _ :: _, _, _, h => by simp [coreInElements] at h
  | _ :: _, [], _, _, h => by simp [coreInElements] at h
  | _ :: _, _ :: _, [], _, h => by simp [coreInElements] at h
  | _ :: _, _ :: _, _ :: _, [], h => by simp [coreInElements] at h
  | kc :: kcs, cc :: ccs, ke :: kes, ce :: ces, h => by
    simp only [coreInElements] at h
    cases hb : Nat.beq kc.1 ke.1 with
    | true =>
      simp only [hb, cond_true, Bool.and_eq_true, decide_eq_true_eq] at h
      obtain ⟨hl, hi⟩ := coreInElements_spec kcs ccs kes ces h.2
      refine ⟨by simp [hl], fun i hlt => ?_⟩
      cases i with
      | zero =>
        exact ⟨0, by simp, by simp, by simp, by simp, Nat.eq_of_beq_eq_true hb, h.1.1.1, h.1.1.2, h.1.2⟩
      | succ i =>
        obtain ⟨j, h1, h2, h3, h4, hm⟩ := hi i (by simpa using hlt)
        exact ⟨j+1, by simpa using h1, by simpa using h2, by simpa using h3, by simpa using h4, by simpa using hm⟩
    | false =>
      simp only [hb, cond_false] at h
      obtain ⟨hl, hi⟩ := coreInElements_spec (kc :: kcs) (cc :: ccs) kes ces h
      refine ⟨hl, fun i hlt => ?_⟩
      obtain ⟨j, h1, h2, h3, h4, hm⟩ := hi i hlt
      exact ⟨j+1, h1, h2, by simpa using h3, by simpa using h4, by simpa using hm⟩

/-! ## the C decode tree: a family bit, then naturals read by nested `decodeUptoMaxInt` switches -/

/-- read naturals (code of src/bit_encoding, C `decodeUptoMaxInt`) until the bits are used up -/
def decodeNats : Nat → List Bool → Option (List Nat)
  | 0, _ => none
  | _+1, [] => some []
  | f+1, b :: bs =>
    match Spk.decodeNat (b :: bs) with
    | .ok (n, rest) => (match decodeNats f rest with | some ns => some (n :: ns) | none => none)
    | .error _ => none

def encodeNats : List Nat → List Bool
  | [] => []
  | n :: ns => Spk.encodeNat n ++ encodeNats ns

theorem decodeNats_spec : ∀ (f : Nat) (bs : List Bool) (ns : List Nat), decodeNats f bs = some ns → bs = encodeNats ns
  | 0, _, _, h => by simp [decodeNats] at h
  | _+1, [], ns, h => by simp only [decodeNats, Option.some.injEq] at h; subst h; rfl
  | f+1, b :: bs, ns, h => by
    simp only [decodeNats] at h
    split at h
    · next n rest hd =>
      split at h
      · next ms hm =>
        simp only [Option.some.injEq] at h
        subst h
        rw [(Spk.decode_canonical _ _ _ hd).1, decodeNats_spec f rest ms hm]
        rfl
      · cases h
    · cases h

/-- the code of a row is the family bit followed by the naturals on the C tree's path to that jet -/
def pathOk (code : List Bool) (p : Bool × List Nat) : Bool :=
  match code with
  | [] => false
  | b :: rest => decide (b = p.1) && decide (decodeNats 16 rest = some p.2)

theorem pathOk_spec {code : List Bool} {p : Bool × List Nat} (h : pathOk code p = true) :
    code = p.1 :: encodeNats p.2 := by
  unfold pathOk at h
  split at h
  · cases h
  · next b rest =>
    simp only [Bool.and_eq_true, decide_eq_true_eq] at h
    rw [h.1, decodeNats_spec 16 rest p.2 h.2]

end JetTable
