/-
C12 — the routes by which witness data reaches a redemption program, as functions from a plan
(typed by `Prog.infer`) and candidate values to the witness values the redemption program carries.

* `routeU`       `ConstructNode::finalize_unpruned`: per witness node `Value::prune(candidate, target
                 type of the node)`, `FinalizeError::Type` when that is `None`; no candidate → the
                 zero value of the type.
* `forestRoute`  `Forest::to_witness_node(&HashMap<name, value>)`: the candidate of a node is the map's
                 entry for the node's name; then as `routeU`.
* `decodeRoute`  `RedeemNode::decode`: one `Value::from_compact_bits` per witness node with the node's
                 inferred target type, in node order, then `BitIter::close`.
* `routeP`       `finalize_pruned`: `routeU`, then (for a *given* set of removed case branches `Cut`,
                 which the real code takes from an execution) re-inference on the constraints that
                 remain and `Value::prune` of every remaining witness value to its re-inferred type;
                 the three `.expect(..)` of `prune_with_tracker` are the outcome `panic`.
                 `leak = false` is the code as it is (since the repair "pruning re-infers the types
                 of the pruned program in its own context"): the `Retyper` pass rebuilds the pruned
                 program, in which hidden branches are only roots, in a second fresh context, so the
                 re-inferred types are the principal types of the pruned program.  `leak = true` is
                 the first pass (`Pruner`), which converts *every* node of the unpruned DAG into one
                 context before a branch is hidden, so the constraints of removed nodes stay; before
                 the repair its types were the result (they matter when a removed branch shares a
                 node with the remaining program).  Both passes contain an `.expect(..)`.

The invariant is `WitnessTyped arrows r`.  Proofs are in `RoutesProps.lean`.
-/
import SimplicityModel.RoutesValue
import SimplicityModel.Prog.Infer
import SimplicityModel.Prog.Codec

namespace Routes
open BM4 Prog
open Inf (Eqn)

abbrev Arrows := Array (Ty × Ty)

/-- the inferred target type of node `i` -/
def tgtOf (ar : Arrows) (i : Nat) : Ty := (ar.getD i (.one, .one)).2

def isWitness (p : Plan) (i : Nat) : Bool :=
  match p[i]? with
  | some .witness => true
  | _ => false

/-- the witness nodes of a plan, ascending -/
def witnessIdx (p : Plan) : List Nat := (List.range p.size).filter (isWitness p)

/-- what a redemption program carries: a value at each witness node -/
abbrev Witnesses := List (Nat × Val)

/-- **the invariant**: every witness value has exactly the inferred target type of its node -/
def WitnessTyped (ar : Arrows) (r : Witnesses) : Prop := ∀ iv ∈ r, HasTy iv.2 (tgtOf ar iv.1)

/-- exactly one value per listed node, in order -/
def Covers (idx : List Nat) (r : Witnesses) : Prop := r.map (·.1) = idx

inductive Outcome
  | ok (ar : Arrows) (r : Witnesses)
  /-- the route reports an error (`FinalizeError::Type`, a decode error) -/
  | err
  /-- the plan itself has no typing: outside the property's quantifier -/
  | illTyped
  /-- the driver's unification fuel did not suffice (never a verdict) -/
  | fuel
  /-- one of the `.expect(..)` in `prune_with_tracker` would fire -/
  | panic
deriving DecidableEq

/-! ### route 1: witnesses given at construction + `finalize_unpruned` -/

/-- `Finalizer::convert_witness` of `finalize_unpruned` -/
def convertOne (ar : Arrows) (cand : Nat → Option Val) (i : Nat) : Option (Nat × Val) :=
  match cand i with
  | some v => (prune v (tgtOf ar i)).map fun w => (i, w)
  | none => some (i, zero (tgtOf ar i))

def convertAll (ar : Arrows) (cand : Nat → Option Val) : List Nat → Option Witnesses
  | [] => some []
  | i :: is =>
    match convertOne ar cand i, convertAll ar cand is with
    | some x, some xs => some (x :: xs)
    | _, _ => none

def finalizeUnpruned (p : Plan) (ar : Arrows) (cand : Nat → Option Val) : Option Witnesses :=
  convertAll ar cand (witnessIdx p)

def routeU (jt : JetTypes) (p : Plan) (program : Bool) (cand : Nat → Option Val) : Outcome :=
  match infer jt p program with
  | .ok ar =>
    match finalizeUnpruned p ar cand with
    | some r => .ok ar r
    | none => .err
  | .fuel => .fuel
  | _ => .illTyped

/-! ### route 3: the human-readable witness map -/

/-- `Populator::convert_witness`: the value stored under the node's name, if any -/
def forestCand (names : Nat → Option String) (m : String → Option Val) : Nat → Option Val :=
  fun i => (names i).bind m

def forestRoute (jt : JetTypes) (p : Plan) (program : Bool) (names : Nat → Option String)
    (m : String → Option Val) : Outcome :=
  routeU jt p program (forestCand names m)

/-! ### route 4: decoding -/

/-- `DecodeFinalizer::convert_witness` at every witness node, in node order -/
def readAll (ar : Arrows) : List Nat → List Bool → Option (Witnesses × List Bool)
  | [], bs => some ([], bs)
  | i :: is, bs =>
    match decCompact (tgtOf ar i) bs with
    | none => none
    | some (v, r) => (readAll ar is r).map fun (vs, r') => ((i, v) :: vs, r')

def decodeRoute (jt : JetTypes) (p : Plan) (bits : List Bool) : Outcome :=
  match infer jt p true with
  | .ok ar =>
    match readAll ar (witnessIdx p) bits with
    | some (r, rest) => if closeOk rest then .ok ar r else .err
    | none => .err
  | .fuel => .fuel
  | _ => .illTyped

/-- the witness stream of a redemption program (`encode_witness`): compact encodings in node order -/
def encW : Witnesses → List Bool
  | [] => []
  | iv :: r => compact iv.2 ++ encW r

/-- the witness half of `to_vec_with_witness` -/
def serialise (r : Witnesses) : List Bool := padToByte (encW r)

/-! ### route 2: `finalize_pruned` -/

/-- which parts of a program a pruning removes: nodes that stay, and for a case node whether only
its left (`some false`: becomes `assertl`) or only its right (`some true`: `assertr`) branch stays -/
structure Cut where
  keep : Nat → Bool
  side : Nat → Option Bool

/-- the typing constraints of node `i` after the cut.  Fresh variables are numbered as in the
uncut program (the numbering is immaterial for the solution; keeping it makes the constraint set
literally a subset). -/
def cutNodeEqns (jt : JetTypes) (leak : Bool) (c : Cut) (i : Nat) (nd : Node) (f : Nat) :
    Option (List Eqn × Nat) :=
  match nodeEqns jt i nd f with
  | none => none
  | some (es, f') =>
    if c.keep i || leak then
      match nd, c.side i with
      | .case a _, some false =>
        some ([(src a, .prod (.var f) (.var (f+2))), (tgt i, tgt a),
               (src i, .prod (.sum (.var f) (.var (f+1))) (.var (f+2)))], f')
      | .case _ b, some true =>
        some ([(src b, .prod (.var (f+1)) (.var (f+2))), (tgt i, tgt b),
               (src i, .prod (.sum (.var f) (.var (f+1))) (.var (f+2)))], f')
      | _, _ => some (es, f')
    else some ([], f')

def cutGo (jt : JetTypes) (leak : Bool) (c : Cut) : Nat → List Node → Nat → List Eqn → Option (List Eqn)
  | _, [], _, acc => some acc
  | i, nd :: rest, f, acc =>
    match cutNodeEqns jt leak c i nd f with
    | none => none
    | some (es, f') => cutGo jt leak c (i + 1) rest f' (acc ++ es)

def cutConstraints (jt : JetTypes) (leak : Bool) (p : Plan) (program : Bool) (c : Cut) : Option (List Eqn) :=
  match cutGo jt leak c 0 p.toList (2 * p.size) [] with
  | none => none
  | some es =>
    let r := p.size - 1
    some (if program then es ++ [(src r, .one), (tgt r, .one)] else es)

/-- type inference of the pruned program (`ConstructData::from_inner` in a fresh context +
`finalize`) -/
def inferCut (jt : JetTypes) (leak : Bool) (p : Plan) (program : Bool) (c : Cut) : InferRes :=
  match cutConstraints jt leak p program c with
  | none => .badPlan
  | some es =>
    match Inf.unify unifyFuel es [] with
    | .ok S =>
      let ρ := Inf.closeUnit S
      .ok ((Array.range p.size).map fun i => (tyOfInf (ρ (2 * i)), tyOfInf (ρ (2 * i + 1))))
    | .clash => .typeError
    | .occurs => .occurs
    | .fuel => .fuel

/-- the pruning `Finalizer::convert_witness`: every remaining witness value pruned to the
re-inferred target type of its node; `none` is the `.expect("pruned type should be shrunken
version of unpruned type")` -/
def pruneValues (ar' : Arrows) (keep : Nat → Bool) : Witnesses → Option Witnesses
  | [] => some []
  | iv :: rest =>
    if keep iv.1 then
      match prune iv.2 (tgtOf ar' iv.1), pruneValues ar' keep rest with
      | some w, some ws => some ((iv.1, w) :: ws)
      | _, _ => none
    else pruneValues ar' keep rest

def routeP (jt : JetTypes) (leak : Bool) (p : Plan) (program : Bool) (cand : Nat → Option Val)
    (c : Cut) : Outcome :=
  match routeU jt p program cand with
  | .ok _ r =>
    match inferCut jt leak p program c with
    | .ok ar' =>
      match pruneValues ar' c.keep r with
      | some r' => .ok ar' r'
      | none => .panic
    | .fuel => .fuel
    | _ => .panic
  | o => o

/-- the code as it is: the types of the pruned program come from the `Retyper` pass, where the
constraints of removed branches are gone (see the header) -/
def codeLeaks : Bool := false

/-- does the witness stream of a pruned program decode, at the *principal* types of the pruned
program (what `RedeemNode::decode` infers), to the values the program carries? -/
def ownSerialisationDecodes (jt : JetTypes) (p : Plan) (program : Bool) (c : Cut) : Outcome → Bool
  | .ok _ r' =>
    match inferCut jt false p program c with
    | .ok arP =>
      match readAll arP ((witnessIdx p).filter c.keep) (serialise r') with
      | some (r'', rest) => closeOk rest && r'' == r'
      | none => false
    | _ => false
  | _ => true

/-! ### the cut a set of executed branches determines (driver glue; the theorems hold for any cut) -/

def cutNode (side : Nat → Option Bool) (i : Nat) (nd : Node) : List Nat :=
  match nd, side i with
  | .case a _, some false => [a]
  | .case _ b, some true => [b]
  | nd, _ => nd.children

/-- nodes reachable from the root when the cut case nodes lose a branch -/
def reachCut (p : Plan) (side : Nat → Option Bool) : Array Bool := Id.run do
  let mut m := Array.replicate p.size false
  if p.size = 0 then return m
  m := m.set! (p.size - 1) true
  for k in [0:p.size] do
    let i := p.size - 1 - k
    if m.getD i false then
      match p[i]? with
      | some nd => for ch in cutNode side i nd do m := m.set! ch true
      | none => pure ()
  return m

def cutOf (p : Plan) (side : Nat → Option Bool) : Cut :=
  let m := reachCut p side
  { keep := fun i => m.getD i false, side := side }

end Routes
