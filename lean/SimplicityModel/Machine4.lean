/-
Spike: Bit Machine (bit-cell level) vs. denotational semantics for the core combinators.
-/
namespace BM4

inductive Ty | one | sum (a b : Ty) | prod (a b : Ty)
deriving DecidableEq, Repr

def Ty.bw : Ty → Nat
  | .one => 0
  | .sum a b => 1 + max a.bw b.bw
  | .prod a b => a.bw + b.bw

def padL (a b : Ty) : Nat := max a.bw b.bw - a.bw
def padR (a b : Ty) : Nat := max a.bw b.bw - b.bw

inductive Val | unit | inl (v : Val) | inr (v : Val) | pair (a b : Val)
deriving DecidableEq, Repr

/-- `Enc t v bits`: `bits` is a padded encoding of `v` at type `t`; padding content is arbitrary -/
inductive Enc : Ty → Val → List Bool → Prop
  | unit : Enc .one .unit []
  | inl {a b v bs pad} : Enc a v bs → pad.length = padL a b →
      Enc (.sum a b) (.inl v) (false :: (pad ++ bs))
  | inr {a b v bs pad} : Enc b v bs → pad.length = padR a b →
      Enc (.sum a b) (.inr v) (true :: (pad ++ bs))
  | pair {a b x y bx by'} : Enc a x bx → Enc b y by' → Enc (.prod a b) (.pair x y) (bx ++ by')

theorem Enc.length {t v bs} (h : Enc t v bs) : bs.length = t.bw := by
  induction h with
  | unit => rfl
  | inl _ hp ih => simp [Ty.bw, ih, hp, padL]; omega
  | inr _ hp ih => simp [Ty.bw, ih, hp, padR]; omega
  | pair _ _ ih1 ih2 => simp [Ty.bw, ih1, ih2]

inductive HasTy : Val → Ty → Prop
  | unit : HasTy .unit .one
  | inl {v a b} : HasTy v a → HasTy (.inl v) (.sum a b)
  | inr {v a b} : HasTy v b → HasTy (.inr v) (.sum a b)
  | pair {x y a b} : HasTy x a → HasTy y b → HasTy (.pair x y) (.prod a b)

/-- padded encoding with zero padding (`Value::iter_padded` of a constructed value) -/
def padded : Ty → Val → List Bool
  | .sum a b, .inl v => false :: (List.replicate (padL a b) false ++ padded a v)
  | .sum a b, .inr v => true :: (List.replicate (padR a b) false ++ padded b v)
  | .prod a b, .pair x y => padded a x ++ padded b y
  | _, _ => []

theorem enc_padded {t v} (h : HasTy v t) : Enc t v (padded t v) := by
  induction h with
  | unit => exact .unit
  | inl _ ih => exact .inl ih (by simp)
  | inr _ ih => exact .inr ih (by simp)
  | pair _ _ ih1 ih2 => exact .pair ih1 ih2

inductive Term : Ty → Ty → Type
  | iden {a} : Term a a
  | unit {a} : Term a .one
  | injl {a b c} : Term a b → Term a (.sum b c)
  | injr {a b c} : Term a c → Term a (.sum b c)
  | take {a b c} : Term a c → Term (.prod a b) c
  | drop {a b c} : Term b c → Term (.prod a b) c
  | comp {a b c} : Term a b → Term b c → Term a c
  | case {a b c d} : Term (.prod a c) d → Term (.prod b c) d → Term (.prod (.sum a b) c) d
  | pair {a b c} : Term a b → Term a c → Term a (.prod b c)
  | fail {a b} : Term a b
  | witness {a b} (v : Val) : Term a b          -- also models constant words
  | assertl {a b c d} : Term (.prod a c) d → Term (.prod (.sum a b) c) d
  | assertr {a b c d} : Term (.prod b c) d → Term (.prod (.sum a b) c) d
  /-- a jet: `jf` is the C function on bit buffers, `f` its specification on values -/
  | jet {a b} (jf : List Bool → Option (List Bool)) (f : Val → Option Val) : Term a b
  | word {a b} (v : Val) : Term a b             -- constant word: like witness, but `extra_cells = 0`
  /-- `disconnect s t`; `w` is `2^256` and `cw` the CMR of `t` as a value in the real code -/
  | disconnect {a b c d} (w : Ty) (cw : Val) : Term (.prod w a) (.prod b c) → Term c d → Term a (.prod b d)

def eval : {a b : Ty} → Term a b → Val → Option Val
  | _, _, .iden, v => some v
  | _, _, .unit, _ => some .unit
  | _, _, .injl t, v => (eval t v).map .inl
  | _, _, .injr t, v => (eval t v).map .inr
  | _, _, .take t, .pair x _ => eval t x
  | _, _, .take _, _ => none
  | _, _, .drop t, .pair _ y => eval t y
  | _, _, .drop _, _ => none
  | _, _, .comp s t, v => (eval s v).bind (eval t)
  | _, _, .case s _, .pair (.inl x) z => eval s (.pair x z)
  | _, _, .case _ t, .pair (.inr y) z => eval t (.pair y z)
  | _, _, .case _ _, _ => none
  | _, _, .pair s t, v => (eval s v).bind fun x => (eval t v).map fun y => .pair x y
  | _, _, .fail, _ => none
  | _, _, .witness w, _ => some w
  | _, _, .assertl s, .pair (.inl x) z => eval s (.pair x z)
  | _, _, .assertl _, _ => none
  | _, _, .assertr t, .pair (.inr y) z => eval t (.pair y z)
  | _, _, .assertr _, _ => none
  | _, _, .word w, _ => some w
  | _, _, .jet _ f, v => f v
  | _, _, .disconnect _ cw s t, v =>
      (eval s (.pair cw v)).bind fun
        | .pair x y => (eval t y).map fun z => .pair x z
        | _ => none

/-- the C jet computes its specification on every padded encoding of every input (trusted: C library) -/
def JetOK (a b : Ty) (jf : List Bool → Option (List Bool)) (f : Val → Option Val) : Prop :=
  ∀ v bits, Enc a v bits →
    match f v with
    | some o => ∃ out, jf bits = some out ∧ Enc b o out
    | none => jf bits = none

/-- every witness value has the target type of its node (the invariant of redemption programs, C12) -/
def WT : {a b : Ty} → Term a b → Prop
  | _, _, .iden => True
  | _, _, .unit => True
  | _, _, .injl t => WT t
  | _, _, .injr t => WT t
  | _, _, .take t => WT t
  | _, _, .drop t => WT t
  | _, _, .comp s t => WT s ∧ WT t
  | _, _, .case s t => WT s ∧ WT t
  | _, _, .pair s t => WT s ∧ WT t
  | _, _, .fail => True
  | _, b, .witness w => HasTy w b
  | _, _, .assertl s => WT s
  | _, _, .assertr t => WT t
  | _, b, .word w => HasTy w b
  | a, b, .jet jf f => JetOK a b jf f
  | _, _, .disconnect w cw s t => HasTy cw w ∧ WT s ∧ WT t

structure Frame where
  cursor : Nat
  start : Nat
  len : Nat
deriving Repr

structure M where
  cells : Nat → Bool
  next : Nat
  read : List Frame
  write : List Frame
  cap : Nat    -- number of cells of the data buffer (`data.len() * 8`)
  fcap : Nat   -- capacity of the frame stacks (`extra_frames + IO_EXTRA_FRAMES`)

inductive Err | fail | crash
deriving DecidableEq, Repr

def upd (f : Nat → Bool) (i : Nat) (b : Bool) : Nat → Bool := fun j => if j = i then b else f j

def writeBit (b : Bool) (m : M) : Except Err M :=
  match m.write with
  | [] => .error .crash
  | w :: ws =>
    if w.cursor < m.cap then
      .ok { m with cells := upd m.cells w.cursor b, write := { w with cursor := w.cursor + 1 } :: ws }
    else .error .crash

/-- `write_value`: the bits of the padded encoding, one `write_bit` each -/
def writeBits : List Bool → M → Except Err M
  | [], m => .ok m
  | b :: bs, m => do let m ← writeBit b m; writeBits bs m

def skip (n : Nat) (m : M) : Except Err M :=
  if n = 0 then .ok m else
  match m.write with
  | [] => .error .crash
  | w :: ws => .ok { m with write := { w with cursor := w.cursor + n } :: ws }

def fwd (n : Nat) (m : M) : Except Err M :=
  if n = 0 then .ok m else
  match m.read with
  | [] => .error .crash
  | r :: rs => .ok { m with read := { r with cursor := r.cursor + n } :: rs }

def back (n : Nat) (m : M) : Except Err M :=
  if n = 0 then .ok m else
  match m.read with
  | [] => .error .crash
  | r :: rs => .ok { m with read := { r with cursor := r.cursor - n } :: rs }

/-- `Frame::copy_from`: bit by bit, in order -/
def copyCells (cells : Nat → Bool) (src dst : Nat) : Nat → Nat → Bool
  | 0 => cells
  | n+1 => copyCells (upd cells dst (cells src)) (src + 1) (dst + 1) n

def copy (n : Nat) (m : M) : Except Err M :=
  if n = 0 then .ok m else
  match m.read, m.write with
  | r :: _, w :: ws =>
    -- `Frame::copy_from` indexes the buffer: outside it the Rust code panics
    if r.cursor + n ≤ m.cap ∧ w.cursor + n ≤ m.cap then
      .ok { m with cells := copyCells m.cells r.cursor w.cursor n,
                   write := { w with cursor := w.cursor + n } :: ws }
    else .error .crash
  | _, _ => .error .crash

/-- outside the destination range a copy changes nothing -/
theorem copyCells_outside (cells : Nat → Bool) (src dst n k : Nat) (h : k < dst ∨ dst + n ≤ k) :
    copyCells cells src dst n k = cells k := by
  induction n generalizing cells src dst with
  | zero => rfl
  | succ n ih =>
    simp only [copyCells]
    rw [ih _ _ _ (by omega)]
    simp only [upd]
    rw [if_neg (by omega)]

/-- `copyCells` on an array snapshot of the cells -/
def copyArr (arr : Array Bool) (src dst : Nat) : Nat → Array Bool
  | 0 => arr
  | n+1 => copyArr (arr.setIfInBounds dst (arr.getD src false)) (src + 1) (dst + 1) n

theorem copyArr_spec (cap : Nat) : ∀ (n : Nat) (arr : Array Bool) (cells : Nat → Bool) (src dst : Nat),
    arr.size = cap → src + n ≤ cap → dst + n ≤ cap → (∀ j, j < cap → arr.getD j false = cells j) →
    (copyArr arr src dst n).size = cap ∧
      ∀ j, j < cap → (copyArr arr src dst n).getD j false = copyCells cells src dst n j
  | 0, arr, cells, src, dst, hs, _, _, h => ⟨hs, h⟩
  | n+1, arr, cells, src, dst, hs, h1, h2, h => by
    simp only [copyArr, copyCells]
    apply copyArr_spec cap n _ _ _ _ (by simp [hs]) (by omega) (by omega)
    intro j hj
    simp only [upd]
    by_cases e : j = dst
    · subst e
      rw [if_pos rfl, ← h src (by omega)]
      simp [Array.getD, hs, hj]
    · rw [if_neg e, ← h j hj]
      have e' : ¬ dst = j := fun x => e x.symm
      simp [Array.getD, hs, hj, Array.getElem_setIfInBounds, e']

/-- What the compiled driver runs for `copy` (`@[csimp]` below proves it equal).  A function-valued
result such as `copyCells cells src dst n` is compiled as a partial application that redoes the
whole recursion — and every read of the old memory in it — at each later read, so a chain of `k`
copies of `n` bits costs `n^k`; here the cells below `cap` are evaluated once into an array and the
copy is done on the array. -/
def copyImpl (n : Nat) (m : M) : Except Err M :=
  if n = 0 then .ok m else
  match m.read, m.write with
  | r :: _, w :: ws =>
    if r.cursor + n ≤ m.cap ∧ w.cursor + n ≤ m.cap then
      let old := m.cells
      let arr0 : Array Bool := Array.ofFn (n := m.cap) fun i => old i.val
      let arr := copyArr arr0 r.cursor w.cursor n
      .ok { m with cells := fun j => if j < m.cap then arr.getD j false else old j,
                   write := { w with cursor := w.cursor + n } :: ws }
    else .error .crash
  | _, _ => .error .crash

@[csimp] theorem copy_eq_copyImpl : @copy = @copyImpl := by
  funext n m
  unfold copy copyImpl
  split
  · rfl
  · split
    · rename_i r _ w ws _ _
      split
      · rename_i hc
        congr 2
        funext j
        split
        · rename_i hj
          have h0 : ∀ j, j < m.cap → (Array.ofFn (n := m.cap) fun i => m.cells i.val).getD j false = m.cells j := by
            intro j hj; simp [Array.getD, hj]
          exact ((copyArr_spec m.cap n _ m.cells r.cursor w.cursor (by simp) hc.1 hc.2 h0).2 j hj).symm
        · rename_i hj
          exact copyCells_outside _ _ _ _ _ (Or.inr (by omega))
      · rfl
    · rfl

/-- `new_write_frame`, with the two debug assertions turned into crashes -/
def newWrite (n : Nat) (m : M) : Except Err M :=
  if m.next + n ≤ m.cap ∧ m.write.length + m.read.length < m.fcap then
    .ok { m with write := ⟨m.next, m.next, n⟩ :: m.write, next := m.next + n }
  else .error .crash

def moveWriteToRead (m : M) : Except Err M :=
  match m.write with
  | [] => .error .crash
  | w :: ws => .ok { m with write := ws, read := { w with cursor := w.start } :: m.read }

def dropRead (m : M) : Except Err M :=
  match m.read with
  | [] => .error .crash
  | r :: rs => if m.next - r.len = r.start then .ok { m with read := rs, next := m.next - r.len }
               else .error .crash

def peek (m : M) : Except Err Bool :=
  match m.read with
  | [] => .error .crash
  | r :: _ => if r.cursor < m.cap then .ok (m.cells r.cursor) else .error .crash

def slice (cells : Nat → Bool) (c : Nat) : Nat → List Bool
  | 0 => []
  | n+1 => cells c :: slice cells (c+1) n

def rcur (m : M) : Nat := match m.read with | [] => 0 | r :: _ => r.cursor

/-- the interpreter, as structural recursion (the Rust call stack is its defunctionalisation) -/
def run : {a b : Ty} → Term a b → M → Except Err M
  | a, _, .iden, m => copy a.bw m
  | _, _, .unit, m => .ok m
  | _, _, @Term.injl _ b c t, m => do
      let m ← writeBit false m
      let m ← skip (padL b c) m
      run t m
  | _, _, @Term.injr _ b c t, m => do
      let m ← writeBit true m
      let m ← skip (padR b c) m
      run t m
  | _, _, .take t, m => run t m
  | _, _, @Term.drop a _ _ t, m => do
      let m ← fwd a.bw m
      let m ← run t m
      back a.bw m
  | _, _, @Term.comp _ b _ s t, m => do
      let m ← newWrite b.bw m
      let m ← run s m
      let m ← moveWriteToRead m
      let m ← run t m
      dropRead m
  | _, _, @Term.case a b _ _ s t, m => do
      let bit ← peek m
      if bit then do
        let m ← fwd (1 + padR a b) m
        let m ← run t m
        back (1 + padR a b) m
      else do
        let m ← fwd (1 + padL a b) m
        let m ← run s m
        back (1 + padL a b) m
  | _, _, .pair s t, m => do
      let m ← run s m
      run t m
  | _, _, .fail, _ => .error .fail
  | _, b, .witness w, m => writeBits (padded b w) m
  | _, _, @Term.assertl a b _ _ s, m => do
      let bit ← peek m
      if bit then .error .fail     -- ReachedPrunedBranch
      else do
        let m ← fwd (1 + padL a b) m
        let m ← run s m
        back (1 + padL a b) m
  | _, _, @Term.assertr a b _ _ t, m => do
      let bit ← peek m
      if bit then do
        let m ← fwd (1 + padR a b) m
        let m ← run t m
        back (1 + padR a b) m
      else .error .fail
  | _, b, .word w, m => writeBits (padded b w) m
  | a, _, .jet jf _, m =>
      -- `exec_jet`: read `a.bw` bits (and `back`), call the jet, write its output bit by bit
      if (a.bw ≠ 0 ∧ m.read = []) ∨ m.cap < rcur m + a.bw then .error .crash else
      match jf (slice m.cells (rcur m) a.bw) with
      | none => .error .fail
      | some out => writeBits out m
  | _, _, @Term.disconnect a b c _ w cw s t, m => do
      let m ← newWrite (w.bw + a.bw) m
      let m ← writeBits (padded w cw) m
      let m ← copy a.bw m
      let m ← moveWriteToRead m
      let m ← newWrite (b.bw + c.bw) m
      let m ← run s m
      let m ← moveWriteToRead m
      let m ← copy b.bw m          -- CopyFwd(size_b)
      let m ← fwd b.bw m
      let m ← run t m
      let m ← dropRead m
      dropRead m


/-- `NodeBounds::extra_cells` -/
def extraCells : {a b : Ty} → Term a b → Nat
  | _, _, .iden => 0
  | _, _, .unit => 0
  | _, _, .injl t => extraCells t
  | _, _, .injr t => extraCells t
  | _, _, .take t => extraCells t
  | _, _, .drop t => extraCells t
  | _, _, @Term.comp _ b _ s t => b.bw + max (extraCells s) (extraCells t)
  | _, _, .case s t => max (extraCells s) (extraCells t)
  | _, _, .pair s t => max (extraCells s) (extraCells t)
  | _, _, .fail => 0
  | _, b, .witness _ => b.bw     -- `NodeBounds::witness` (an over-approximation: nothing is allocated)
  | _, _, .assertl s => extraCells s
  | _, _, .assertr t => extraCells t
  | _, _, .word _ => 0
  | _, _, .jet _ _ => 0
  | _, _, @Term.disconnect a b c _ w _ s t =>
      (w.bw + a.bw) + (b.bw + c.bw) + max (extraCells s) (extraCells t)

/-- `NodeBounds::extra_frames` -/
def extraFrames : {a b : Ty} → Term a b → Nat
  | _, _, .iden => 0
  | _, _, .unit => 0
  | _, _, .injl t => extraFrames t
  | _, _, .injr t => extraFrames t
  | _, _, .take t => extraFrames t
  | _, _, .drop t => extraFrames t
  | _, _, .comp s t => 1 + max (extraFrames s) (extraFrames t)
  | _, _, .case s t => max (extraFrames s) (extraFrames t)
  | _, _, .pair s t => max (extraFrames s) (extraFrames t)
  | _, _, .fail => 0
  | _, _, .witness _ => 0
  | _, _, .assertl s => extraFrames s
  | _, _, .assertr t => extraFrames t
  | _, _, .word _ => 0
  | _, _, .jet _ _ => 0
  | _, _, .disconnect _ _ s t => 2 + max (extraFrames s) (extraFrames t)

/-! ### specification -/


@[simp] theorem slice_length (cells c n) : (slice cells c n).length = n := by
  induction n generalizing c with
  | zero => rfl
  | succ n ih => simp [slice, ih]

theorem slice_add (cells : Nat → Bool) (c n k : Nat) :
    slice cells c (n + k) = slice cells c n ++ slice cells (c + n) k := by
  induction n generalizing c with
  | zero => simp [slice]
  | succ n ih =>
    rw [Nat.succ_add]
    simp only [slice, List.cons_append, ih]
    rw [show c + 1 + n = c + (n + 1) by omega]

theorem slice_congr {f g : Nat → Bool} {c n : Nat} (h : ∀ i, i < n → f (c + i) = g (c + i)) :
    slice f c n = slice g c n := by
  induction n generalizing c with
  | zero => rfl
  | succ n ih =>
    simp only [slice]
    congr 1
    · simpa using h 0 (by omega)
    · apply ih
      intro i hi
      have := h (i+1) (by omega)
      rw [show c + (i + 1) = c + 1 + i by omega] at this
      exact this

theorem slice_split {cells : Nat → Bool} {c n k : Nat} {bx by' : List Bool}
    (h : slice cells c (n + k) = bx ++ by') (hl : bx.length = n) :
    bx = slice cells c n ∧ by' = slice cells (c + n) k := by
  rw [slice_add] at h
  have := List.append_inj h (by simp [hl])
  exact ⟨this.1.symm, this.2.symm⟩

def wcur (m : M) : Nat := match m.write with | [] => 0 | w :: _ => w.cursor

def advW (n : Nat) : List Frame → List Frame
  | [] => []
  | w :: ws => { w with cursor := w.cursor + n } :: ws

@[simp] theorem advW_zero (ws : List Frame) : advW 0 ws = ws := by
  cases ws <;> simp [advW]

theorem advW_advW (n k : Nat) (ws : List Frame) : advW k (advW n ws) = advW (n + k) ws := by
  cases ws <;> simp [advW, Nat.add_assoc]

structure Pre (m : M) (a b : Ty) (v : Val) : Prop where
  enc : Enc a v (slice m.cells (rcur m) a.bw)
  hr : a.bw ≠ 0 → m.read ≠ []
  hw : b.bw ≠ 0 → m.write ≠ []
  rlt : rcur m + a.bw ≤ m.next
  wlt : wcur m + b.bw ≤ m.next
  disj : ∀ i j, i < a.bw → j < b.bw → rcur m + i ≠ wcur m + j

structure Post (m m' : M) (b : Ty) (out : Val) : Prop where
  read : m'.read = m.read
  next : m'.next = m.next
  write : m'.write = advW b.bw m.write
  enc : Enc b out (slice m'.cells (wcur m) b.bw)
  frame : ∀ i, i < m.next → (∀ j, j < b.bw → i ≠ wcur m + j) → m'.cells i = m.cells i

def Spec {a b : Ty} (t : Term a b) (m : M) (v : Val) : Prop :=
  match eval t v with
  | some out => ∃ m', run t m = .ok m' ∧ Post m m' b out
  | none => run t m = .error .fail

theorem copyCells_spec (cells : Nat → Bool) (src dst n : Nat)
    (hd : ∀ i j, i < n → j < n → src + i ≠ dst + j) (k : Nat) :
    copyCells cells src dst n k =
      if dst ≤ k ∧ k < dst + n then cells (src + (k - dst)) else cells k := by
  induction n generalizing cells src dst with
  | zero =>
    simp only [copyCells]
    rw [if_neg (by omega)]
  | succ n ih =>
    simp only [copyCells]
    rw [ih]
    · by_cases h1 : dst + 1 ≤ k ∧ k < dst + 1 + n
      · have h2 : dst ≤ k ∧ k < dst + (n + 1) := by omega
        simp only [h1, h2, and_self, if_true, upd]
        have : src + 1 + (k - (dst + 1)) ≠ dst := by
          have := hd (1 + (k - (dst+1))) 0 (by omega) (by omega)
          omega
        simp only [this, if_false]
        congr 1; omega
      · simp only [h1, if_false, upd]
        by_cases h3 : k = dst
        · subst h3
          simp
        · have h2 : ¬ (dst ≤ k ∧ k < dst + (n + 1)) := by omega
          simp [h3, h2]
    · intro i j hi hj
      have := hd (i+1) (j+1) (by omega) (by omega)
      omega

end BM4
