/-
C08, end to end: what `Prog.prunePipeline` returns, evaluated by `Prog.Pruned.antiDos` (the two
functions behind the driver's `prune` verb), is accepted — the pruned, re-typed program elaborates,
its run succeeds, and the anti-DoS conditions hold — whenever the identity roots of the plan are
pairwise distinct and the annotation of the pruned plan succeeds.
-/
import SimplicityModel.PrunePipeline
import SimplicityModel.PruneThms
import SimplicityModel.PruneAnnot

set_option linter.unusedSimpArgs false
set_option linter.unusedVariables false

namespace Prog
open BM4

/-! ### the witness table read back from the printed list -/

theorem find?_filterMap_key (g : Nat → Option (List Bool)) (j : Nat) : ∀ (l : List Nat),
    (l.filterMap fun i => (g i).map fun b => (i, b)).find? (fun w => decide (w.1 = j)) =
      if j ∈ l then (g j).map fun b => (j, b) else none
  | [] => by simp
  | i :: l => by
    have ih := find?_filterMap_key g j l
    simp only [List.filterMap_cons]
    cases hg : g i with
    | none =>
      simp only [Option.map_none]
      rw [ih]
      by_cases hij : j = i
      · subst hij; simp [hg]
      · simp [hij]
    | some b =>
      simp only [Option.map_some, List.find?_cons]
      by_cases hij : i = j
      · subst hij; simp [hg]
      · have : j ≠ i := fun h => hij h.symm
        simp only [hij, decide_false, List.mem_cons, this, false_or]
        exact ih

theorem witOfList_prunedWits (p1 : Plan) (reach : Array Bool) (wit : Nat → Option (List Bool))
    (arr a1 : Array (Ty × Ty)) (j : Nat) (bits : List Bool) (hr : reach.getD j false = true)
    (hw : p1[j]? = some .witness) (hb : pruneWit wit arr a1 j = some bits) :
    witOfList (prunedWits p1 reach wit arr a1) wit j = some bits := by
  have hj := lt_size_of_getElem? hw
  let g : Nat → Option (List Bool) := fun i =>
    if reach.getD i false && isWitness (p1.getD i .unit) then
      some (match pruneWit wit arr a1 i with | some bits => bits | none => witMarker)
    else none
  have hgj : g j = some bits := by
    simp only [g, hr, getD_children hw, isWitness, Bool.and_self, if_true, hb]
  have hpw : prunedWits p1 reach wit arr a1 =
      (List.range p1.size).filterMap fun i => (g i).map fun b => (i, b) := by
    unfold prunedWits
    congr 1
    funext i
    simp only [g]
    split
    · cases pruneWit wit arr a1 i <;> rfl
    · rfl
  simp only [witOfList]
  rw [hpw, find?_filterMap_key g j]
  simp [hj, hgj]

/-! ### elaboration returns the node's arrow -/

theorem elabStep_types (e : Env) (f i : Nat) (nd : Node) (a b : Ty) (x : Σ a b, Term a b)
    (h : elabStep e f i nd a b = some x) : x.1 = a ∧ x.2.1 = b := by
  cases nd with
  | iden =>
    simp only [elabStep, Option.bind_eq_bind, Option.pure_def, Option.bind_eq_some_iff, Option.some.injEq] at h
    obtain ⟨t, _, rfl⟩ := h; exact ⟨rfl, rfl⟩
  | unit =>
    simp only [elabStep, Option.bind_eq_bind, Option.pure_def, Option.bind_eq_some_iff, Option.some.injEq] at h
    obtain ⟨t, _, rfl⟩ := h; exact ⟨rfl, rfl⟩
  | injl c =>
    cases b with
    | sum b1 c1 =>
      simp only [elabStep, Option.bind_eq_bind, Option.pure_def, Option.bind_eq_some_iff, Option.some.injEq] at h
      obtain ⟨t, _, rfl⟩ := h; exact ⟨rfl, rfl⟩
    | _ => simp [elabStep] at h
  | injr c =>
    cases b with
    | sum b1 c1 =>
      simp only [elabStep, Option.bind_eq_bind, Option.pure_def, Option.bind_eq_some_iff, Option.some.injEq] at h
      obtain ⟨t, _, rfl⟩ := h; exact ⟨rfl, rfl⟩
    | _ => simp [elabStep] at h
  | take c =>
    cases a with
    | prod a1 a2 =>
      simp only [elabStep, Option.bind_eq_bind, Option.pure_def, Option.bind_eq_some_iff, Option.some.injEq] at h
      obtain ⟨t, _, rfl⟩ := h; exact ⟨rfl, rfl⟩
    | _ => simp [elabStep] at h
  | drop c =>
    cases a with
    | prod a1 a2 =>
      simp only [elabStep, Option.bind_eq_bind, Option.pure_def, Option.bind_eq_some_iff, Option.some.injEq] at h
      obtain ⟨t, _, rfl⟩ := h; exact ⟨rfl, rfl⟩
    | _ => simp [elabStep] at h
  | comp x0 y0 =>
    simp only [elabStep, Option.bind_eq_bind, Option.pure_def, Option.bind_eq_some_iff, Option.some.injEq] at h
    obtain ⟨xm, _, s, _, t, _, rfl⟩ := h; exact ⟨rfl, rfl⟩
  | pair x0 y0 =>
    cases b with
    | prod b1 b2 =>
      simp only [elabStep, Option.bind_eq_bind, Option.pure_def, Option.bind_eq_some_iff, Option.some.injEq] at h
      obtain ⟨s, _, t, _, rfl⟩ := h; exact ⟨rfl, rfl⟩
    | _ => simp [elabStep] at h
  | case x0 y0 =>
    cases a with
    | prod a0 c0 =>
      cases a0 with
      | sum a1 a2 =>
        simp only [elabStep, Option.bind_eq_bind, Option.pure_def, Option.bind_eq_some_iff, Option.some.injEq] at h
        obtain ⟨s, _, t, _, rfl⟩ := h; exact ⟨rfl, rfl⟩
      | _ => simp [elabStep] at h
    | _ => simp [elabStep] at h
  | assertl x0 hh =>
    cases a with
    | prod a0 c0 =>
      cases a0 with
      | sum a1 a2 =>
        simp only [elabStep, Option.bind_eq_bind, Option.pure_def, Option.bind_eq_some_iff, Option.some.injEq] at h
        obtain ⟨s, _, rfl⟩ := h; exact ⟨rfl, rfl⟩
      | _ => simp [elabStep] at h
    | _ => simp [elabStep] at h
  | assertr hh y0 =>
    cases a with
    | prod a0 c0 =>
      cases a0 with
      | sum a1 a2 =>
        simp only [elabStep, Option.bind_eq_bind, Option.pure_def, Option.bind_eq_some_iff, Option.some.injEq] at h
        obtain ⟨s, _, rfl⟩ := h; exact ⟨rfl, rfl⟩
      | _ => simp [elabStep] at h
    | _ => simp [elabStep] at h
  | disconnect x0 oy =>
    cases oy with
    | none => simp [elabStep] at h
    | some y0 =>
      cases b with
      | prod b1 d0 =>
        simp only [elabStep, Option.bind_eq_bind, Option.pure_def, Option.bind_eq_some_iff, Option.some.injEq] at h
        obtain ⟨yc, _, cw, _, s, _, t, _, rfl⟩ := h; exact ⟨rfl, rfl⟩
      | _ => simp [elabStep] at h
  | witness =>
    simp only [elabStep, Option.bind_eq_bind, Option.pure_def, Option.bind_eq_some_iff, Option.some.injEq] at h
    obtain ⟨bits, _, v0, _, rfl⟩ := h; exact ⟨rfl, rfl⟩
  | fail en =>
    simp only [elabStep, Option.pure_def, Option.some.injEq] at h
    subst h; exact ⟨rfl, rfl⟩
  | word n bits =>
    simp only [elabStep, Option.bind_eq_bind, Option.pure_def, Option.bind_eq_some_iff, Option.some.injEq] at h
    obtain ⟨v0, _, t, _, rfl⟩ := h; exact ⟨rfl, rfl⟩
  | jet name =>
    simp only [elabStep, Option.pure_def, Option.some.injEq] at h
    subst h; exact ⟨rfl, rfl⟩
  | hidden hh => simp [elabStep] at h

/-- a node elaborates at its own arrow, and is a node of the plan -/
theorem elabNode_types (e : Env) (f i : Nat) (x : Σ a b, Term a b) (h : elabNode e f i = some x) :
    e.arrows.getD i (.one, .one) = (x.1, x.2.1) ∧ i < e.plan.size := by
  cases f with
  | zero => simp [elabNode] at h
  | succ f =>
    rw [elabNode_succ] at h
    simp only [Option.bind_eq_bind, Option.bind_eq_some_iff] at h
    obtain ⟨nd, hnd, ab, hab, hstep⟩ := h
    obtain ⟨h1, h2⟩ := elabStep_types e f i nd ab.1 ab.2 x hstep
    refine ⟨?_, lt_size_of_getElem? hnd⟩
    rw [getD_of_getElem? hab]
    exact Prod.ext h1.symm h2.symm

/-- close a goal from an impossible equation between results -/
macro "kill" h:ident : tactic =>
  `(tactic| first | (cases $h:ident) | (simp only [reduceCtorEq] at $h:ident) | (simp at $h:ident))

theorem pr_unit (t : Ty) : pr t .unit = .unit := by cases t <;> rfl

/-! ### the pipeline -/

/-- **End to end.**  If `prunePipeline` answers `ok q` and the identity roots it labelled the first
run with are pairwise distinct on the plan, then `q.antiDos` — the
model's own elaboration, run and anti-DoS evaluation of the pruned, re-typed program — answers
`"ok"`: no elaboration failure, no failing run, every reachable node executed, both sides of
every remaining case taken. -/
theorem pipeline_antiDos (jetTy : JetTypes) (jetCmr : String → Option Nat) (jetSem : JetSem)
    (wit : Nat → Option (List Bool)) (p : Plan) (q : Pruned)
    (h : prunePipeline jetTy jetCmr jetSem wit p = .ok q)
    (hinj : ∀ arrows an, inferM jetTy p (fun _ => true) true = .ok arrows → ihrs jetCmr p arrows wit = some an →
      ∀ j k, j < p.size → k < p.size → (an.getD j (0, 0)).2 = (an.getD k (0, 0)).2 → j = k) :
    q.antiDos jetCmr jetSem wit = "ok" := by
  unfold prunePipeline at h
  have hwf : wf p = true := by
    by_cases hwf : wf p = true
    · exact hwf
    · simp [hwf] at h
  simp only [hwf, Bool.not_true, Bool.false_eq_true, if_false] at h
  cases harr : inferM jetTy p (fun _ => true) true with
  | typeError => rw [harr] at h; kill h
  | occurs => rw [harr] at h; kill h
  | badPlan => rw [harr] at h; kill h
  | fuel => rw [harr] at h; kill h
  | ok arrows =>
    cases hcm : cmrs jetCmr p with
    | none => rw [harr, hcm] at h; kill h
    | some cm =>
      simp only [harr, hcm] at h
      cases han : ihrs jetCmr p arrows wit with
      | none => rw [han] at h; kill h
      | some an =>
        simp only [han] at h
        cases hx : elabNode { plan := p, arrows := arrows, wit := wit, cmr := cm, jets := jetSem } (p.size + 1)
            (p.size - 1) with
        | none => rw [hx] at h; kill h
        | some x =>
          simp only [hx] at h
          cases hrun : evalT x.2.2 (labOf p (fun i => (an.getD i (0, 0)).2) (p.size + 1) (p.size - 1)) .unit with
          | error k => rw [hrun] at h; kill h
          | ok r =>
            obtain ⟨o, tr⟩ := r
            simp only [hrun] at h
            cases ha1 : inferM jetTy (prunePlan tr.sides (fun i => (an.getD i (0, 0)).2) (fun i => cm.getD i 0) p)
                (fun i => (reachable (prunePlan tr.sides (fun i => (an.getD i (0, 0)).2) (fun i => cm.getD i 0)
                  p)).getD i false) true with
            | typeError => rw [ha1] at h; kill h
            | occurs => rw [ha1] at h; kill h
            | badPlan => rw [ha1] at h; kill h
            | fuel => rw [ha1] at h; kill h
            | ok a1 =>
              cases hcm1 : cmrs jetCmr (prunePlan tr.sides (fun i => (an.getD i (0, 0)).2) (fun i => cm.getD i 0) p) with
              | none => rw [ha1, hcm1] at h; kill h
              | some cm1 =>
                simp only [ha1, hcm1, PruneRes.ok.injEq] at h
                subst h
                -- the root table is unchanged
                have hcmeq : cm1 = cm := by
                  have := cmrs_prunePlan jetCmr tr.sides (fun i => (an.getD i (0, 0)).2) p cm hwf hcm
                  rw [hcm1] at this
                  exact Option.some.inj this
                subst hcmeq
                obtain ⟨hty, hlt⟩ := elabNode_types _ _ _ x hx
                have hp : 0 < p.size := by have : p.size - 1 < p.size := hlt; omega
                have hroot := inferM_root hp harr
                have hv : HasTy Val.unit x.1 := by
                  have e1 : x.1 = Ty.one := by
                    have h3 : (x.1, x.2.1) = (Ty.one, Ty.one) := hty.symm.trans hroot
                    exact (Prod.mk.inj h3).1
                  rw [e1]; exact .unit
                simp only [Pruned.antiDos]
                cases han2 : ihrs jetCmr (prunePlan tr.sides (fun i => (an.getD i (0, 0)).2) (fun i => cm1.getD i 0) p) a1
                    (witOfList (prunedWits (prunePlan tr.sides (fun i => (an.getD i (0, 0)).2) (fun i => cm1.getD i 0) p)
                      (reachable (prunePlan tr.sides (fun i => (an.getD i (0, 0)).2) (fun i => cm1.getD i 0) p))
                      wit arrows a1) wit) with
                | none =>
                  have := ihrs_pruned_isSome jetCmr p arrows a1 wit tr.sides (fun i => (an.getD i (0, 0)).2)
                    (fun i => cm1.getD i 0)
                    (prunedWits (prunePlan tr.sides (fun i => (an.getD i (0, 0)).2) (fun i => cm1.getD i 0) p)
                      (reachable (prunePlan tr.sides (fun i => (an.getD i (0, 0)).2) (fun i => cm1.getD i 0) p))
                      wit arrows a1) (by rw [han]; rfl)
                  rw [han2] at this
                  cases this
                | some an2 =>
                  have hsz := prunePlan_size tr.sides (fun i => (an.getD i (0, 0)).2) (fun i => cm1.getD i 0) p
                  obtain ⟨t', tr2, h1, h2, h3⟩ := antiDoS_driver jetTy p wit cm1 jetSem
                    (fun i => (an.getD i (0, 0)).2) (fun i => (an2.getD i (0, 0)).2) (fun i => cm1.getD i 0) true
                    (witOfList (prunedWits (prunePlan tr.sides (fun i => (an.getD i (0, 0)).2) (fun i => cm1.getD i 0) p)
                      (reachable (prunePlan tr.sides (fun i => (an.getD i (0, 0)).2) (fun i => cm1.getD i 0) p))
                      wit arrows a1) wit)
                    hwf hp harr (p.size + 1) x hx .unit o tr hv hrun ha1
                    (fun j bits hr hw hb => witOfList_prunedWits _ _ wit arrows a1 j bits hr
                      (by rw [prunePlan_getElem?, hw]; rfl) hb)
                    (hinj arrows an harr han)
                  rw [hsz, h1]
                  simp only [pr_unit] at h2
                  simp only [h2, h3, if_true]

end Prog
