/-
Identity roots (IHR) of all nodes of a typed plan with witnesses — the identities the Rust
`SetTracker` keys on and libsimplicity shares nodes by.  Same construction as `Prog.annotNode`
(`Prog/Roots.lean`: IMR from the children's IMRs, IHR = IMR + source and target type roots), without
the annotated root and the cost, and with the type roots cached (driver speed only).
-/
import SimplicityModel.Prog.Roots

namespace Prog
open Sha2

abbrev TmrCache := List (BM4.Ty × Nat)

def tmrC (c : TmrCache) (t : BM4.Ty) : Nat × TmrCache :=
  match c.find? (·.1 == t) with
  | some (_, h) => (h, c)
  | none => let h := tmrF t; (h, (t, h) :: c)

/-- IMR of node `i` from the IMRs of its children -/
def imrNode (jetCmr : String → Option Nat) (wit : Nat → Option (List Bool)) (imr : Nat → Nat)
    (tgtTmr : Nat) (i : Nat) : Node → Option Nat
  | .iden => some ivIden
  | .unit => some ivUnit
  | .injl c => some (update2 ivInjl 0 (imr c))
  | .injr c => some (update2 ivInjr 0 (imr c))
  | .take c => some (update2 ivTake 0 (imr c))
  | .drop c => some (update2 ivDrop 0 (imr c))
  | .comp x y => some (update2 ivComp (imr x) (imr y))
  | .case x y => some (update2 ivCase (imr x) (imr y))
  | .assertl x h => some (update2 ivCase (imr x) h)
  | .assertr h y => some (update2 ivCase h (imr y))
  | .pair x y => some (update2 ivPair (imr x) (imr y))
  | .disconnect x (some y) => some (update2 (imrIV "disconnect") (imr x) (imr y))
  | .disconnect _ none => none
  | .witness => (wit i).map fun bits => update2 (imrIV "witness") (compactValueHash bits) tgtTmr
  | .fail e => let (l, r) := failBlock e; some (update2 ivFail l r)
  | .word n bits => some (cmrWord n bits)
  | .jet name => jetCmr name
  | .hidden h => some h

/-- (IMR, IHR) of every node, children before parents -/
def ihrs (jetCmr : String → Option Nat) (p : Plan) (arrows : Array (BM4.Ty × BM4.Ty))
    (wit : Nat → Option (List Bool)) : Option (Array (Nat × Nat)) :=
  let rec go (i : Nat) (nodes : List Node) (acc : Array (Nat × Nat)) (c : TmrCache) : Option (Array (Nat × Nat)) :=
    match nodes with
    | [] => some acc
    | nd :: rest =>
      let (a, b) := arrows.getD i (.one, .one)
      let (ta, c) := tmrC c a
      let (tb, c) := tmrC c b
      match imrNode jetCmr wit (fun j => (acc.getD j (0, 0)).1) tb i nd with
      | none => none
      | some m =>
        let h := match nd with | .hidden x => x | _ => update2 (update2 ivIdentity 0 m) ta tb
        go (i + 1) rest (acc.push (m, h)) c
  go 0 p.toList #[] []

end Prog
