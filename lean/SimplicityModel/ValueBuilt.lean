/-
C10 / C11 — the values a program can get hold of: everything obtainable from the library's
operations, in any order (`Built`), is well-formed; two-step pruning; an injective type key exists.
-/
import SimplicityModel.ValueCmp

namespace Vl
namespace RVal

/-- `(2^8)^<2^(n+1)`, the buffer type of `types/precomputed.rs`: `S(2^8)` for `n = 0`, else
`S((2^8)^(2^n)) × (2^8)^<2^n` -/
def _root_.Vl.Ty.buf8 : Nat → Ty
  | 0 => .sum .one (Ty.word 3)
  | n + 1 => .prod (.sum .one (Ty.word (n + 4))) (Ty.buf8 n)

/-- one round of the loop of `Value::buffer8_two_n_plus_one`: when bit `n` of the remaining
length is set, a `1` tag and the next `2^n` bytes are copied to the destination -/
def buffer8Step (dest : List Nat) (n off : Nat) (data : List Nat) : List Nat × List Nat :=
  if (data.length &&& 2 ^ n) != 0 then
    let d1 := copyBits [0x80] 0 dest off 1
    (copyBits (data.take (2 ^ n)) 0 d1 (off + 1) (8 * 2 ^ n), data.drop (2 ^ n))
  else (dest, data)

def buffer8Loop (dest : List Nat) : Nat → Nat → List Nat → List Nat
  | 0, off, data => (buffer8Step dest 0 off data).1
  | n + 1, off, data =>
    let s := buffer8Step dest (n + 1) off data
    buffer8Loop s.1 n (off + 1 + 8 * 2 ^ (n + 1)) s.2

/-- `Value::buffer8_two_n_plus_one(n, data)`; `none` when the slice is too long -/
def buffer8 (n : Nat) (data : List Nat) : Option RVal :=
  if data.length > 2 ^ (n + 1) - 1 then none
  else some ⟨buffer8Loop (List.replicate (((Ty.buf8 n).bw + 7) / 8) 0) n 0 data, 0, Ty.buf8 n⟩

theorem buffer8Step_spec {dest : List Nat} (h : BytesOK dest) (n off : Nat) (data : List Nat) :
    (buffer8Step dest n off data).1.length = dest.length ∧ BytesOK (buffer8Step dest n off data).1 := by
  unfold buffer8Step
  split
  · exact ⟨by simp [copyBits_length], bytesOK_copyBits _ _ _ (bytesOK_copyBits _ _ _ h _) _⟩
  · exact ⟨rfl, h⟩

theorem buffer8Loop_spec : ∀ (n off : Nat) (data dest : List Nat), BytesOK dest →
    (buffer8Loop dest n off data).length = dest.length ∧ BytesOK (buffer8Loop dest n off data)
  | 0, off, data, dest, h => buffer8Step_spec h 0 off data
  | n + 1, off, data, dest, h => by
    obtain ⟨h1, h2⟩ := buffer8Step_spec h (n + 1) off data
    obtain ⟨k1, k2⟩ := buffer8Loop_spec n (off + 1 + 8 * 2 ^ (n + 1)) (buffer8Step dest (n + 1) off data).2
      (buffer8Step dest (n + 1) off data).1 h2
    exact ⟨by simp only [buffer8Loop]; rw [k1, h1], by simp only [buffer8Loop]; exact k2⟩

theorem buffer8_wf {n : Nat} {data : List Nat} {r : RVal} (h : buffer8 n data = some r) : r.WF := by
  unfold buffer8 at h
  split at h
  · cases h
  · cases h
    obtain ⟨h1, h2⟩ := buffer8Loop_spec n 0 data _ (bytesOK_replicate (((Ty.buf8 n).bw + 7) / 8))
    refine ⟨?_, h2⟩
    simp only [h1, List.length_replicate]; omega

/-- the word constructors are given as many bytes as `u1 … u512` take -/
def wordBytesOK (n : Nat) (bytes : List Nat) : Prop :=
  bytes.length = (if n < 3 then 1 else 2 ^ (n - 3)) ∧ BytesOK bytes

/-- **every history**: the values obtainable by constructors, word constructors, `zero`, the two
decoders on any input, the buffer constructor, sub-value extraction, prune and the Bit Machine's
output decoding, applied
in any order to each other's results -/
inductive Built : RVal → Prop
  | unit : Built unit
  | zero (t : Ty) : Built (zero t)
  | word (n : Nat) (bytes : List Nat) : wordBytesOK n bytes → Built (word n bytes)
  | buffer8 {n data r} : buffer8 n data = some r → Built r
  | left {v} (b : Ty) : Built v → Built (v.left b)
  | right (a : Ty) {v} : Built v → Built (RVal.right a v)
  | product {l r} : Built l → Built r → Built (l.product r)
  | fromPadded {t inp v rest} : fromPaddedBits t inp = some (v, rest) → Built v
  | fromCompact {t inp v rest} : fromCompactBits t inp = some (v, rest) → Built v
  | asLeft {v l} : Built v → v.asLeft = some l → Built l
  | asRight {v l} : Built v → v.asRight = some l → Built l
  | asProduct {v l r} : Built v → v.asProduct = some (l, r) → Built l
  | asProduct2 {v l r} : Built v → v.asProduct = some (l, r) → Built r
  | prune {t v w} : Built v → RVal.prune t v = some w → Built w
  /-- output of the Bit Machine: the output frame, which holds the padded form of some value
  followed by whatever, is decoded with `from_padded_bits` -/
  | machine {v w rest junk} : Built v → fromPaddedBits v.ty (v.iterPadded ++ junk) = some (w, rest) → Built w

theorem word_wf {n : Nat} {bytes : List Nat} (h : wordBytesOK n bytes) : (word n bytes).WF := by
  refine ⟨?_, h.2⟩
  simp only [word, Ty.word_bw, h.1]
  by_cases h3 : n < 3
  · simp only [h3, if_true]
    have : n = 0 ∨ n = 1 ∨ n = 2 := by omega
    rcases this with rfl | rfl | rfl <;> decide
  · simp only [h3, if_false]
    have : n = (n - 3) + 3 := by omega
    rw [this, Nat.pow_add]; simp; omega

/-- whatever its history, a value is well-formed — so every statement about well-formed values
applies to it -/
theorem Built.wf {r : RVal} (h : Built r) : r.WF := by
  induction h with
  | unit => exact unit_wf
  | zero t => exact (zero_refines t).2
  | word n bytes hb => exact word_wf hb
  | buffer8 h => exact buffer8_wf h
  | left b _ ih => exact (left_refines ih b).2
  | right a _ ih => exact (right_refines a ih).2
  | product _ _ ih1 ih2 => exact (product_refines ih1 ih2).2
  | fromPadded h => exact ((fromPaddedBits_refines _ _).2 _ _ h).1
  | fromCompact h => exact (fromCompactBits_refines _ _).2 _ _ h
  | asLeft _ h ih => exact ((asLeft_refines ih).2 _ h).1
  | asRight _ h ih => exact ((asRight_refines ih).2 _ h).1
  | asProduct _ h ih => exact ((asProduct_refines ih).2 _ _ h).1
  | asProduct2 _ h ih => exact ((asProduct_refines ih).2 _ _ h).2.1
  | prune _ h ih => exact (prune_refines _ _ ih).2 _ h
  | machine _ h _ => exact ((fromPaddedBits_refines _ _).2 _ _ h).1

/-! ### prune: the statements of the property -/

/-- a successful prune returns a value of exactly the target type that denotes the truncation of
the element to that type (same tags, same pairs, same leaves wherever the target keeps them) -/
theorem prune_some {r : RVal} {x : Val} (h : r.Den x) {t : Ty} {w : RVal} (hp : prune t r = some w) :
    w.ty = t ∧ ∃ y, w.Den y ∧ HasTy y t ∧ Trunc y x := by
  rcases prune_den h t with ⟨p1, _⟩ | ⟨w', y, p1, p2, p3, p4⟩
  · rw [hp] at p1; cases p1
  · rw [hp] at p1; cases p1
    exact ⟨p3, y, p4, (prune_eq_some_iff x t y).1 p2⟩

/-- `None` exactly when no truncation of the element has the target type -/
theorem prune_none_iff {r : RVal} {x : Val} (h : r.Den x) (t : Ty) :
    prune t r = none ↔ ¬ ∃ y, HasTy y t ∧ Trunc y x := by
  rw [← prune_eq_none_iff]
  rcases prune_den h t with ⟨p1, p2⟩ | ⟨w', y, p1, p2, _, _⟩
  · simp [p1, p2]
  · simp [p1, p2]

/-- a smaller-or-equal target always succeeds -/
theorem prune_of_le {r : RVal} {x : Val} (h : r.Den x) {t : Ty} (hle : Le t r.ty) :
    ∃ w y, prune t r = some w ∧ w.ty = t ∧ w.Den y ∧ HasTy y t ∧ Trunc y x := by
  obtain ⟨y, hy⟩ := Vl.prune_of_le h.hasTy hle
  rcases prune_den h t with ⟨_, p2⟩ | ⟨w, y', p1, p2, p3, p4⟩
  · rw [hy] at p2; cases p2
  · rw [hy] at p2; cases p2
    exact ⟨w, y, p1, p3, p4, (prune_eq_some_iff x t y).1 hy⟩

/-- two steps equal one step: same type, same element, hence the same compact bits -/
theorem prune_prune {r : RVal} {x : Val} (h : r.Den x) {t1 t2 : Ty} {w : RVal}
    (h1 : prune t1 r = some w) (hle : Le t2 t1) :
    ∃ w2 w2' y, prune t2 w = some w2 ∧ prune t2 r = some w2' ∧ w2.ty = t2 ∧ w2'.ty = t2 ∧
      w2.Den y ∧ w2'.Den y ∧ w2.iterCompact = w2'.iterCompact := by
  rcases prune_den h t1 with ⟨p1, _⟩ | ⟨w', y1, p1, p2, p3, p4⟩
  · rw [h1] at p1; cases p1
  · rw [h1] at p1; cases p1
    have ht1 := prune_hasTy x t1 y1 p2
    obtain ⟨y, hy⟩ := Vl.prune_of_le ht1 hle
    have hxy : Vl.prune x t2 = some y := by rw [← Vl.prune_prune x t1 t2 y1 p2 hle]; exact hy
    rcases prune_den p4 t2 with ⟨_, q2⟩ | ⟨w2, ya, q1, q2, q3, q4⟩
    · rw [hy] at q2; cases q2
    · rw [hy] at q2; cases q2
      rcases prune_den h t2 with ⟨_, s2⟩ | ⟨w2', yb, s1, s2, s3, s4⟩
      · rw [hxy] at s2; cases s2
      · rw [hxy] at s2; cases s2
        exact ⟨w2, w2', y, q1, s1, q3, s3, q4, s4, by rw [iterCompact_den q4, iterCompact_den s4]⟩

end RVal

/-! ### an injective type key exists (the hypothesis `KeyInj` of C11 is satisfiable) -/

def pairN (a b : Nat) : Nat := 2 ^ a * (2 * b + 1)

theorem pairN_zero (b : Nat) : pairN 0 b = 2 * b + 1 := by simp [pairN]
theorem pairN_succ (a b : Nat) : pairN (a + 1) b = 2 * pairN a b := by
  simp only [pairN, Nat.pow_succ]; rw [Nat.mul_comm (2 ^ a) 2, Nat.mul_assoc]

theorem pairN_inj : ∀ (a c b d : Nat), pairN a b = pairN c d → a = c ∧ b = d
  | 0, 0, b, d, h => by rw [pairN_zero, pairN_zero] at h; exact ⟨rfl, by omega⟩
  | 0, c + 1, b, d, h => by rw [pairN_zero, pairN_succ] at h; omega
  | a + 1, 0, b, d, h => by rw [pairN_zero, pairN_succ] at h; omega
  | a + 1, c + 1, b, d, h => by
    rw [pairN_succ, pairN_succ] at h
    obtain ⟨h1, h2⟩ := pairN_inj a c b d (by omega)
    exact ⟨by rw [h1], h2⟩

/-- a Gödel numbering of types -/
def Ty.code : Ty → Nat
  | .one => 0
  | .sum a b => 2 * pairN a.code b.code + 1
  | .prod a b => 2 * pairN a.code b.code + 2

theorem Ty.code_inj : KeyInj Ty.code := by
  intro s
  induction s with
  | one => intro t h; cases t <;> simp [Ty.code] at h ⊢ <;> omega
  | sum a b iha ihb =>
    intro t h
    cases t with
    | one => simp [Ty.code] at h
    | prod c d => simp only [Ty.code] at h; omega
    | sum c d =>
      simp only [Ty.code] at h
      obtain ⟨h1, h2⟩ := pairN_inj _ _ _ _ (by omega : pairN a.code b.code = pairN c.code d.code)
      rw [iha c h1, ihb d h2]
  | prod a b iha ihb =>
    intro t h
    cases t with
    | one => simp [Ty.code] at h
    | sum c d => simp only [Ty.code] at h; omega
    | prod c d =>
      simp only [Ty.code] at h
      obtain ⟨h1, h2⟩ := pairN_inj _ _ _ _ (by omega : pairN a.code b.code = pairN c.code d.code)
      rw [iha c h1, ihb d h2]

end Vl
