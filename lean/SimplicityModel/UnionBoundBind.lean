/-
`bind` and `unify` of the union-bound context refine "add one equation to the constraint set":
a successful call leaves a context whose assignments are exactly those of the old one that satisfy
the new equation; an `Err.bind` answer means no assignment of the old context satisfies it.
Neither depends on which root union-by-rank keeps nor on how far paths were halved.
-/
import SimplicityModel.UnionBoundSpec

namespace UB
open Inf (Ty)

def Bound.isComplete : Bound → Prop
  | .complete _ => True
  | _ => False

/-- what `bind c b new` must achieve when `e` is the root holding `b` -/
def BindGood (c : Ctx) (e : Nat) (new : Bound) : M Ctx → Prop
  | .ok c' => WF c' ∧ Mono c c' ∧ (∀ ρ, SolSt ρ c' ↔ (SolSt ρ c ∧ BoundSat ρ (ρ e) new)) ∧
      (new.isComplete → ∀ x y, Owner c x y → Owner c' x y)
  | .error .bind => ∀ ρ, ¬ (SolSt ρ c ∧ BoundSat ρ (ρ e) new)
  | .error .occurs => False
  | .error _ => True

/-- what `unify c x y` must achieve -/
def UnifyGood (c : Ctx) (x y : Nat) : M Ctx → Prop
  | .ok c' => WF c' ∧ Mono c c' ∧ (∀ ρ, SolSt ρ c' ↔ (SolSt ρ c ∧ ρ x = ρ y)) ∧
      (∀ ρ, ParentSol ρ c' → ρ x = ρ y)
  | .error .bind => ∀ ρ, ¬ (SolSt ρ c ∧ ρ x = ρ y)
  | .error .occurs => False
  | .error _ => True

theorem BindGood.of_soft {c e new} {err : Err} (h : err = .fuel ∨ err = .panic) :
    BindGood c e new (.error err) := by
  rcases h with rfl | rfl <;> trivial

theorem UnifyGood.of_soft {c x y} {err : Err} (h : err = .fuel ∨ err = .panic) :
    UnifyGood c x y (.error err) := by
  rcases h with rfl | rfl <;> trivial

theorem BoundSat.congr {ρ : Nat → Ty} {t t' : Ty} (h : t = t') (B : Bound) :
    BoundSat ρ t B ↔ BoundSat ρ t' B := by subst h; exact Iff.rfl

/-! ### writing one slab entry -/

/-- all bound constraints except the one stored at `b` -/
def BoundSolExcept (ρ : Nat → Ty) (c : Ctx) (b : Nat) : Prop :=
  ∀ e' b' B, Owner c e' b' → b' ≠ b → c.slab[b']? = some B → BoundSat ρ (ρ e') B

theorem boundSol_split {c : Ctx} {e b : Nat} {B : Bound} (w : WF c) (ho : Owner c e b)
    (hs : c.slab[b]? = some B) (ρ : Nat → Ty) :
    BoundSol ρ c ↔ (BoundSolExcept ρ c b ∧ BoundSat ρ (ρ e) B) := by
  constructor
  · intro h
    exact ⟨fun e' b' B' ho' _ hs' => h e' b' B' ho' hs', h e b B ho hs⟩
  · rintro ⟨h1, h2⟩ e' b' B' ho' hs'
    by_cases hb : b' = b
    · subst hb
      have := w.inj _ _ _ ho ho'
      subst this
      rw [hs] at hs'; cases hs'
      exact h2
    · exact h1 e' b' B' ho' hb hs'

theorem boundSol_orphan {c : Ctx} {b : Nat} (hno : ∀ e, ¬ Owner c e b) (ρ : Nat → Ty) :
    BoundSol ρ c ↔ BoundSolExcept ρ c b := by
  constructor
  · intro h e' b' B' ho' _ hs'; exact h e' b' B' ho' hs'
  · intro h e' b' B' ho' hs'
    by_cases hb : b' = b
    · subst hb; exact absurd ho' (hno e')
    · exact h e' b' B' ho' hb hs'

theorem setBound_owner (c : Ctx) (b : Nat) (n : Bound) (e x : Nat) :
    Owner (setBound c b n) e x ↔ Owner c e x := Iff.rfl

theorem setBound_par (c : Ctx) (b : Nat) (n : Bound) (ρ : Nat → Ty) :
    ParentSol ρ (setBound c b n) ↔ ParentSol ρ c := Iff.rfl

theorem setBound_except (c : Ctx) (b : Nat) (n : Bound) (ρ : Nat → Ty) :
    BoundSolExcept ρ (setBound c b n) b ↔ BoundSolExcept ρ c b := by
  unfold BoundSolExcept
  constructor
  · intro h e' b' B ho hb hs
    exact h e' b' B ho hb (by rw [setBound_get, if_neg (Ne.symm hb)]; exact hs)
  · intro h e' b' B ho hb hs
    rw [setBound_get, if_neg (Ne.symm hb)] at hs
    exact h e' b' B ho hb hs

theorem setBound_wf {c : Ctx} (w : WF c) (b : Nat) (n : Bound) : WF (setBound c b n) :=
  ⟨fun e x ho => by simp only [setBound, Array.size_setIfInBounds]; exact w.rootLt e x ho, w.inj⟩

/-- overwriting the bound of the root `e` -/
theorem setBound_sol {c : Ctx} {e b : Nat} (w : WF c) (ho : Owner c e b) (n : Bound) (ρ : Nat → Ty) :
    SolSt ρ (setBound c b n) ↔ (ParentSol ρ c ∧ BoundSolExcept ρ c b ∧ BoundSat ρ (ρ e) n) := by
  have hlt := w.rootLt e b ho
  have hs : (setBound c b n).slab[b]? = some n := by rw [setBound_get, if_pos rfl, if_pos hlt]
  constructor
  · intro h
    have := (boundSol_split (setBound_wf w b n) ho hs ρ).1 h.bnd
    exact ⟨h.par, (setBound_except c b n ρ).1 this.1, this.2⟩
  · rintro ⟨h1, h2, h3⟩
    exact ⟨h1, (boundSol_split (setBound_wf w b n) ho hs ρ).2 ⟨(setBound_except c b n ρ).2 h2, h3⟩⟩

/-- overwriting a slab entry that no root holds changes nothing -/
theorem setBound_sol_orphan {c : Ctx} {b : Nat} (hno : ∀ e, ¬ Owner c e b) (n : Bound) (ρ : Nat → Ty) :
    SolSt ρ (setBound c b n) ↔ SolSt ρ c := by
  constructor
  · intro h
    exact ⟨h.par, (boundSol_orphan hno ρ).2 ((setBound_except c b n ρ).1
      ((boundSol_orphan (c := setBound c b n) hno ρ).1 h.bnd))⟩
  · intro h
    exact ⟨h.par, (boundSol_orphan (c := setBound c b n) hno ρ).2 ((setBound_except c b n ρ).2
      ((boundSol_orphan hno ρ).1 h.bnd))⟩

/-- replacing a free or incomplete entry by a bound is `Mono` (complete entries are never replaced) -/
theorem setBound_mono {c : Ctx} {b : Nat} {B : Bound} (hs : c.slab[b]? = some B)
    (hB : ¬ B.isComplete) (n : Bound) (hn : B = .free ∨ n.isComplete) : Mono c (setBound c b n) where
  esize := rfl
  ssize := by simp [setBound]
  owner := fun _ _ h => h
  par := fun _ h => h
  slabC := fun b' d hs' => by
    have : b ≠ b' := by rintro rfl; rw [hs] at hs'; cases hs'; exact hB trivial
    rw [setBound_get, if_neg this]; exact hs'
  slabS := fun b' l r hs' => by
    by_cases hb : b = b'
    · subst hb
      rw [hs] at hs'; cases hs'
      rcases hn with hn | hn
      · cases hn
      · cases n with
        | complete d =>
          refine .inr ⟨d, ?_⟩
          have hlt : b < c.slab.size := by
            rcases Nat.lt_or_ge b c.slab.size with h | h
            · exact h
            · rw [Array.getElem?_eq_none h] at hs; cases hs
          rw [setBound_get, if_pos rfl, if_pos hlt]
        | _ => cases hn
    · exact .inl (by rw [setBound_get, if_neg hb]; exact hs')
  slabP := fun b' l r hs' => by
    by_cases hb : b = b'
    · subst hb
      rw [hs] at hs'; cases hs'
      rcases hn with hn | hn
      · cases hn
      · cases n with
        | complete d =>
          refine .inr ⟨d, ?_⟩
          have hlt : b < c.slab.size := by
            rcases Nat.lt_or_ge b c.slab.size with h | h
            · exact h
            · rw [Array.getElem?_eq_none h] at hs; cases hs
          rw [setBound_get, if_pos rfl, if_pos hlt]
        | _ => cases hn
    · exact .inl (by rw [setBound_get, if_neg hb]; exact hs')

theorem reassign_ok {c : Ctx} {b : Nat} {n : Bound} {c' : Ctx}
    (h : reassignNonComplete c b n = .ok c') :
    c' = setBound c b n ∧ ∃ B, c.slab[b]? = some B ∧ ¬ B.isComplete := by
  unfold reassignNonComplete at h
  split at h
  · cases h
  · cases h
  · next B hB hg =>
    cases h
    refine ⟨rfl, _, getBound_ok.1 hg, ?_⟩
    intro hc
    cases B with
    | complete d => exact hB d rfl
    | _ => exact hc

theorem reassign_err {c : Ctx} {b : Nat} {n : Bound} {e : Err}
    (h : reassignNonComplete c b n = .error e) : e = .panic := by
  unfold reassignNonComplete at h
  split at h
  · next e' he => cases h; exact getBound_err he
  · cases h; rfl
  · cases h

/-! ### `complete_pair_data` -/

/-- `x` is in a class whose root holds `Complete d` -/
def CompleteAt (c : Ctx) (x : Nat) (d : Ty) : Prop :=
  ∃ r b, Owner c r b ∧ c.slab[b]? = some (Bound.complete d) ∧ ∀ ρ, ParentSol ρ c → ρ x = ρ r

theorem CompleteAt.value {c : Ctx} {x : Nat} {d : Ty} (h : CompleteAt c x d) {ρ : Nat → Ty}
    (s : SolSt ρ c) : ρ x = d := by
  obtain ⟨r, b, ho, hs, hp⟩ := h
  rw [hp ρ s.par]; exact s.bnd r b _ ho hs

theorem completePairData_spec {F : Nat} {c : Ctx} {i1 i2 : Nat} {c' : Ctx} {res : Option (Ty × Ty)}
    (h : completePairData F c i1 i2 = .ok (c', res)) :
    Compress c c' ∧ ∀ d1 d2, res = some (d1, d2) → CompleteAt c' i1 d1 ∧ CompleteAt c' i2 d2 := by
  unfold completePairData at h
  split at h
  · cases h
  · next c1 idx1 h1 =>
    obtain ⟨k1, r1, ho1, hp1⟩ := rootRef_spec h1
    split at h
    · cases h
    · next c2 idx2 h2 =>
      obtain ⟨k2, r2, ho2, hp2⟩ := rootRef_spec h2
      split at h
      · cases h
      · cases h
      · next d1 d2 hb1 hb2 =>
        cases h
        refine ⟨k1.trans k2, ?_⟩
        intro d1' d2' hd
        cases hd
        refine ⟨⟨r1, idx1, (k2.owner _ _).2 ho1, getBound_ok.1 hb1, fun ρ hρ => hp1 ρ ((k2.par ρ).1 hρ)⟩,
                ⟨r2, idx2, ho2, getBound_ok.1 hb2, hp2⟩⟩
      · cases h
        exact ⟨k1.trans k2, fun _ _ hd => by cases hd⟩

theorem completePairData_err {F : Nat} {c : Ctx} {i1 i2 : Nat} {e : Err}
    (h : completePairData F c i1 i2 = .error e) : e = .fuel ∨ e = .panic := by
  unfold completePairData at h
  split at h
  · next e' he => cases h; exact rootRef_err he
  · split at h
    · next e' he => cases h; exact rootRef_err he
    · split at h
      · next e' he => cases h; exact .inr (getBound_err he)
      · next e' he _ => cases h; exact .inr (getBound_err he)
      · cases h
      · cases h

/-! ### linking two roots -/

theorem link_owner {c : Ctx} {Y X : Nat} (e b : Nat) :
    Owner (setData c Y (.equalTo X)) e b ↔ (Owner c e b ∧ e ≠ Y) := by
  unfold Owner
  rw [setData_get]
  split
  · next h =>
    subst h
    cases hc : c.elems[Y]? with
    | none => simp
    | some i => simp
  · next h => exact ⟨fun ⟨i, h1, h2⟩ => ⟨⟨i, h1, h2⟩, fun h' => h h'.symm⟩, fun ⟨h1, _⟩ => h1⟩

theorem link_par {c : Ctx} {Y X YD : Nat} (hY : Owner c Y YD) (ρ : Nat → Ty) :
    ParentSol ρ (setData c Y (.equalTo X)) ↔ (ParentSol ρ c ∧ ρ Y = ρ X) := by
  obtain ⟨iy, hiy, hyd⟩ := hY
  unfold ParentSol
  constructor
  · intro h
    refine ⟨?_, h Y { iy with data := .equalTo X } X (by rw [setData_get, if_pos rfl, hiy]; rfl) rfl⟩
    intro e i p hi hd
    have hne : Y ≠ e := by
      rintro rfl
      rw [hiy] at hi; cases hi; rw [hyd] at hd; cases hd
    exact h e i p (by rw [setData_get, if_neg hne]; exact hi) hd
  · rintro ⟨h1, h2⟩ e i p hi hd
    rw [setData_get] at hi
    split at hi
    · next he =>
      subst he
      rw [hiy] at hi
      simp only [Option.map_some, Option.some.injEq] at hi
      subst hi
      simp only [UbData.equalTo.injEq] at hd
      subst hd
      exact h2
    · exact h1 e i p hi hd

theorem link_spec {c : Ctx} {X Y XD YD : Nat} {BY : Bound} (w : WF c) (hX : Owner c X XD)
    (hY : Owner c Y YD) (hne : X ≠ Y) (hBY : c.slab[YD]? = some BY) :
    WF (setData c Y (.equalTo X)) ∧ Mono c (setData c Y (.equalTo X)) ∧
    Owner (setData c Y (.equalTo X)) X XD ∧
    (∀ ρ, (SolSt ρ (setData c Y (.equalTo X)) ∧ BoundSat ρ (ρ X) BY) ↔ (SolSt ρ c ∧ ρ X = ρ Y)) := by
  refine ⟨?_, ?_, ?_, ?_⟩
  · exact ⟨fun e b ho => w.rootLt e b ((link_owner e b).1 ho).1,
      fun e e' b ho ho' => w.inj e e' b ((link_owner e b).1 ho).1 ((link_owner e' b).1 ho').1⟩
  · exact {
      esize := by simp [setData]
      ssize := rfl
      owner := fun e b ho => ((link_owner e b).1 ho).1
      par := fun ρ h => ((link_par hY ρ).1 h).1
      slabC := fun _ _ h => h
      slabS := fun _ _ _ h => .inl h
      slabP := fun _ _ _ h => .inl h }
  · exact (link_owner X XD).2 ⟨hX, hne⟩
  · intro ρ
    constructor
    · rintro ⟨s, hb⟩
      obtain ⟨hp, hyx⟩ := (link_par hY ρ).1 s.par
      refine ⟨⟨hp, ?_⟩, hyx.symm⟩
      intro e b B ho hs
      by_cases he : e = Y
      · subst he
        have := Owner.unique ho hY
        subst this
        rw [hBY] at hs; cases hs
        exact (BoundSat.congr hyx _).2 hb
      · exact s.bnd e b B ((link_owner e b).2 ⟨ho, he⟩) hs
    · rintro ⟨s, hxy⟩
      refine ⟨⟨(link_par hY ρ).2 ⟨s.par, hxy.symm⟩, ?_⟩, ?_⟩
      · intro e b B ho hs
        exact s.bnd e b B ((link_owner e b).1 ho).1 hs
      · exact (BoundSat.congr hxy _).2 (s.bnd Y YD BY hY hBY)

/-! ### `UbElement::unify` given a good `bind` -/

def bindClosureOf (bindF : Ctx → Nat → Bound → M Ctx) (c : Ctx) (xb yb : Nat) : M Ctx :=
  match getBound c yb with
  | .error e => .error e
  | .ok nb => bindF c xb nb

/-- link `Y` below `X`, then run the bind closure: the core of `unify` after the roots are known -/
theorem link_bind_good {bindF : Ctx → Nat → Bound → M Ctx}
    (ih : ∀ c e b new, WF c → Owner c e b → BindGood c e new (bindF c b new))
    {c : Ctx} {X Y XD YD : Nat} (w : WF c) (hX : Owner c X XD) (hY : Owner c Y YD) (hne : X ≠ Y) :
    UnifyGood c X Y (bindClosureOf bindF (setData c Y (.equalTo X)) XD YD) := by
  unfold bindClosureOf
  split
  · next e he => exact UnifyGood.of_soft (.inr (getBound_err he))
  · next BY hBY =>
    have hBY' : c.slab[YD]? = some BY := getBound_ok.1 hBY
    obtain ⟨w', m', hX', hsol⟩ := link_spec w hX hY hne hBY'
    have g := ih _ X XD BY w' hX'
    generalize bindF (setData c Y (.equalTo X)) XD BY = res at g
    match res, g with
    | .ok c', ⟨w2, m2, hs2, _⟩ =>
      refine ⟨w2, m'.trans m2, fun ρ => (hs2 ρ).trans (hsol ρ), fun ρ hρ => ?_⟩
      have := (link_par hY ρ).1 (m2.par ρ hρ)
      exact this.2.symm
    | .error .bind, g =>
      intro ρ hρ
      exact g ρ ((hsol ρ).2 hρ)
    | .error .occurs, g => exact g
    | .error .fuel, _ => trivial
    | .error .panic, _ => trivial

theorem UnifyGood.transport {c c1 : Ctx} {x y X Y : Nat} {res : M Ctx} (k : Compress c c1)
    (hx : ∀ ρ, ParentSol ρ c1 → (ρ x = ρ y ↔ ρ X = ρ Y))
    (g : UnifyGood c1 X Y res) : UnifyGood c x y res := by
  match res, g with
  | .ok c', ⟨w2, m2, hs2, hp2⟩ =>
    refine ⟨w2, k.mono.trans m2, fun ρ => ?_, fun ρ hρ => (hx ρ (m2.par ρ hρ)).2 (hp2 ρ hρ)⟩
    rw [hs2 ρ]
    constructor
    · rintro ⟨s, h⟩; exact ⟨(k.sol ρ).1 s, (hx ρ s.par).2 h⟩
    · rintro ⟨s, h⟩
      have s1 := (k.sol ρ).2 s
      exact ⟨s1, (hx ρ s1.par).1 h⟩
  | .error .bind, g =>
    rintro ρ ⟨s, h⟩
    have s1 := (k.sol ρ).2 s
    exact g ρ ⟨s1, (hx ρ s1.par).1 h⟩
  | .error .occurs, g => exact g
  | .error .fuel, _ => trivial
  | .error .panic, _ => trivial

theorem ubUnify_good {F : Nat} {bindF : Ctx → Nat → Bound → M Ctx}
    (ih : ∀ c e b new, WF c → Owner c e b → BindGood c e new (bindF c b new))
    {c : Ctx} (w : WF c) (x y : Nat) :
    UnifyGood c x y (ubUnify F (bindClosureOf bindF) c x y) := by
  unfold ubUnify
  split
  · next e he => exact UnifyGood.of_soft (rootElement_err he)
  · next c1 xr h1 =>
    obtain ⟨k1, ⟨xd0, hxr1⟩, hp1⟩ := rootElement_spec _ _ _ _ _ h1
    split
    · next e he => exact UnifyGood.of_soft (rootElement_err he)
    · next c2 yr h2 =>
      obtain ⟨k2, ⟨yd0, hyr⟩, hp2⟩ := rootElement_spec _ _ _ _ _ h2
      have hxr : Owner c2 xr xd0 := (k2.owner _ _).2 hxr1
      have k := k1.trans k2
      have w2 : WF c2 := k.wf w
      have hpx : ∀ ρ, ParentSol ρ c2 → ρ x = ρ xr := fun ρ hρ => hp1 ρ ((k2.par ρ).1 hρ)
      split
      · next e he => exact UnifyGood.of_soft (.inr (getElem_err he))
      · next e he _ => exact UnifyGood.of_soft (.inr (getElem_err he))
      · next xElem yElem hxe hye =>
        split
        · next xd yd hxd hyd =>
          have hxo : Owner c2 xr xd := ⟨xElem, getElem_ok.1 hxe, hxd⟩
          have hyo : Owner c2 yr yd := ⟨yElem, getElem_ok.1 hye, hyd⟩
          split
          · next heq =>
            subst heq
            have hrr := w2.inj _ _ _ hxo hyo
            refine ⟨w2, k.mono, fun ρ => ?_, fun ρ hρ => ?_⟩
            · constructor
              · intro s
                refine ⟨(k.sol ρ).1 s, ?_⟩
                rw [hpx ρ s.par, hp2 ρ s.par, hrr]
              · exact fun s => (k.sol ρ).2 s.1
            · rw [hpx ρ hρ, hp2 ρ hρ, hrr]
          · next hneq =>
            have hne : xr ≠ yr := by
              rintro rfl; exact hneq (Owner.unique hxo hyo)
            split
            · -- x has the smaller rank: y is kept
              refine UnifyGood.transport k (X := yr) (Y := xr) (fun ρ hρ => ?_)
                (link_bind_good ih w2 hyo hxo hne.symm)
              rw [hpx ρ hρ, hp2 ρ hρ]; exact eq_comm
            · split
              · -- equal ranks: x is kept, its rank bumped
                have kb := bumpRank_compress c2 xr
                refine UnifyGood.transport (k.trans kb) (X := xr) (Y := yr) (fun ρ hρ => ?_)
                  (link_bind_good ih (kb.wf w2) ((kb.owner _ _).2 hxo) ((kb.owner _ _).2 hyo) hne)
                have hρ2 := (kb.par ρ).1 hρ
                rw [hpx ρ hρ2, hp2 ρ hρ2]
              · refine UnifyGood.transport k (X := xr) (Y := yr) (fun ρ hρ => ?_)
                  (link_bind_good ih w2 hxo hyo hne)
                rw [hpx ρ hρ, hp2 ρ hρ]
        · exact UnifyGood.of_soft (.inr rfl)

/-! ### the arms of `bind` -/

/-- outcome of binding the two components `ty1`, `ty2` to the complete types `d1`, `d2` -/
def CompGood (c : Ctx) (ty1 ty2 : Nat) (d1 d2 : Ty) : M Ctx → Prop
  | .ok c' => WF c' ∧ Mono c c' ∧ (∀ ρ, SolSt ρ c' ↔ (SolSt ρ c ∧ ρ ty1 = d1 ∧ ρ ty2 = d2)) ∧
      (∀ x y, Owner c x y → Owner c' x y)
  | .error .bind => ∀ ρ, ¬ (SolSt ρ c ∧ ρ ty1 = d1 ∧ ρ ty2 = d2)
  | .error .occurs => False
  | .error _ => True

theorem CompGood.of_soft {c ty1 ty2 d1 d2} {err : Err} (h : err = .fuel ∨ err = .panic) :
    CompGood c ty1 ty2 d1 d2 (.error err) := by
  rcases h with rfl | rfl <;> trivial

theorem bindComponents_good {F : Nat} {bindF : Ctx → Nat → Bound → M Ctx}
    (ih : ∀ c e b new, WF c → Owner c e b → BindGood c e new (bindF c b new))
    {c : Ctx} (w : WF c) (ty1 ty2 : Nat) (d1 d2 : Ty) :
    CompGood c ty1 ty2 d1 d2 (bindComponents F bindF c ty1 ty2 d1 d2) := by
  unfold bindComponents
  split
  · next e he => exact CompGood.of_soft (rootRef_err he)
  · next c1 b1 h1 =>
    obtain ⟨k1, r1, ho1, hp1⟩ := rootRef_spec h1
    split
    · next e he => exact CompGood.of_soft (rootRef_err he)
    · next c2 b2 h2 =>
      obtain ⟨k2, r2, ho2, hp2⟩ := rootRef_spec h2
      have k := k1.trans k2
      have w2 := k.wf w
      have ho1' : Owner c2 r1 b1 := (k2.owner _ _).2 ho1
      have hq1 : ∀ ρ, ParentSol ρ c2 → ρ ty1 = ρ r1 := fun ρ hρ => hp1 ρ ((k2.par ρ).1 hρ)
      have g1 := ih c2 r1 b1 (.complete d1) w2 ho1'
      generalize bindF c2 b1 (.complete d1) = res1 at g1
      match res1, g1 with
      | .error .bind, g1 =>
        rintro ρ ⟨s, e1, _⟩
        have s2 := (k.sol ρ).2 s
        exact g1 ρ ⟨s2, by show ρ r1 = d1; rw [← hq1 ρ s2.par]; exact e1⟩
      | .error .occurs, g1 => exact g1
      | .error .fuel, _ => trivial
      | .error .panic, _ => trivial
      | .ok c3, ⟨w3, m3, hs3, hk3⟩ =>
        dsimp only
        have ho2' : Owner c3 r2 b2 := hk3 trivial _ _ ho2
        have g2 := ih c3 r2 b2 (.complete d2) w3 ho2'
        generalize bindF c3 b2 (.complete d2) = res2 at g2
        have key : ∀ ρ, (SolSt ρ c3 ∧ ρ r2 = d2) ↔ (SolSt ρ c ∧ ρ ty1 = d1 ∧ ρ ty2 = d2) := by
          intro ρ
          rw [hs3 ρ]
          constructor
          · rintro ⟨⟨s2, e1⟩, e2⟩
            exact ⟨(k.sol ρ).1 s2, (hq1 ρ s2.par).trans e1, (hp2 ρ s2.par).trans e2⟩
          · rintro ⟨s, e1, e2⟩
            have s2 := (k.sol ρ).2 s
            exact ⟨⟨s2, (hq1 ρ s2.par).symm.trans e1⟩, (hp2 ρ s2.par).symm.trans e2⟩
        match res2, g2 with
        | .error .bind, g2 => exact fun ρ hρ => g2 ρ ((key ρ).2 hρ)
        | .error .occurs, g2 => exact g2
        | .error .fuel, _ => trivial
        | .error .panic, _ => trivial
        | .ok c4, ⟨w4, m4, hs4, hk4⟩ =>
          refine ⟨w4, (k.mono.trans m3).trans m4, fun ρ => (hs4 ρ).trans (key ρ), fun x y ho => ?_⟩
          exact hk4 trivial _ _ (hk3 trivial _ _ ((k.owner _ _).2 ho))

theorem bindPairwise_good {F : Nat} {unifyF : Ctx → Nat → Nat → M Ctx}
    (hu : ∀ c x y, WF c → UnifyGood c x y (unifyF c x y))
    {c : Ctx} (w : WF c) {e b : Nat} (ho : Owner c e b) {B newB : Bound} {x1 x2 y1 y2 : Nat}
    {mk : Ty → Ty → Ty}
    (hB : c.slab[b]? = some B) (hBs : B = .sum x1 x2 ∨ B = .product x1 x2)
    (hBsat : ∀ ρ t, BoundSat ρ t B ↔ t = mk (ρ x1) (ρ x2))
    (hnew : ∀ ρ t, BoundSat ρ t newB ↔ t = mk (ρ y1) (ρ y2)) (hnc : ¬ newB.isComplete)
    (hinj : ∀ a a' b' b'', mk a a' = mk b' b'' ↔ (a = b' ∧ a' = b'')) :
    BindGood c e newB (bindPairwise F unifyF c b x1 x2 y1 y2 mk) := by
  have hBnc : ¬ B.isComplete := by rcases hBs with rfl | rfl <;> exact fun h => h
  unfold bindPairwise
  have u1 := hu c x1 y1 w
  generalize unifyF c x1 y1 = r1 at u1
  match r1, u1 with
  | .error .bind, u1 =>
    rintro ρ ⟨s, hb⟩
    have he := (hBsat ρ _).1 (s.bnd e b B ho hB)
    rw [(hnew ρ _).1 hb] at he
    exact u1 ρ ⟨s, ((hinj _ _ _ _).1 he).1.symm⟩
  | .error .occurs, u1 => exact u1
  | .error .fuel, _ => trivial
  | .error .panic, _ => trivial
  | .ok c1, ⟨w1, m1, hs1, hp1⟩ =>
    dsimp only
    have u2 := hu c1 x2 y2 w1
    generalize unifyF c1 x2 y2 = r2 at u2
    -- what two successful unifications mean
    have key : ∀ ρ, ((SolSt ρ c ∧ ρ x1 = ρ y1) ∧ ρ x2 = ρ y2) ↔ (SolSt ρ c ∧ BoundSat ρ (ρ e) newB) := by
      intro ρ
      constructor
      · rintro ⟨⟨s, e1⟩, e2⟩
        refine ⟨s, (hnew ρ _).2 ?_⟩
        rw [(hBsat ρ _).1 (s.bnd e b B ho hB), e1, e2]
      · rintro ⟨s, hb⟩
        have he := (hBsat ρ _).1 (s.bnd e b B ho hB)
        rw [(hnew ρ _).1 hb] at he
        have := (hinj _ _ _ _).1 he
        exact ⟨⟨s, this.1.symm⟩, this.2.symm⟩
    match r2, u2 with
    | .error .bind, u2 =>
      intro ρ hρ
      have := (key ρ).2 hρ
      exact u2 ρ ⟨(hs1 ρ).2 this.1, this.2⟩
    | .error .occurs, u2 => exact u2
    | .error .fuel, _ => trivial
    | .error .panic, _ => trivial
    | .ok c2, ⟨w2, m2, hs2, hp2⟩ =>
      dsimp only
      have hs12 : ∀ ρ, SolSt ρ c2 ↔ (SolSt ρ c ∧ BoundSat ρ (ρ e) newB) := by
        intro ρ; rw [hs2 ρ, hs1 ρ]; exact key ρ
      split
      · next err he => exact BindGood.of_soft (completePairData_err he)
      · next c3 d1 d2 h3 =>
        obtain ⟨k3, hc3⟩ := completePairData_spec h3
        obtain ⟨ca1, ca2⟩ := hc3 d1 d2 rfl
        have w3 := k3.wf w2
        have m3 : Mono c c3 := (m1.trans m2).trans k3.mono
        cases hr : reassignNonComplete c3 b (.complete (mk d1 d2)) with
        | error err => exact BindGood.of_soft (.inr (reassign_err hr))
        | ok c4 =>
          obtain ⟨hc4, B3, hB3, hB3nc⟩ := reassign_ok hr
          subst hc4
          -- the entry at `b` is still the one we started from
          have hB3' : c3.slab[b]? = some B := by
            rcases hBs with rfl | rfl
            · rcases m3.slabS b x1 x2 hB with h | ⟨d, h⟩
              · exact h
              · rw [h] at hB3; cases hB3; exact absurd trivial hB3nc
            · rcases m3.slabP b x1 x2 hB with h | ⟨d, h⟩
              · exact h
              · rw [h] at hB3; cases hB3; exact absurd trivial hB3nc
          have m4 : Mono c3 (setBound c3 b (.complete (mk d1 d2))) :=
            setBound_mono hB3' hBnc _ (.inr trivial)
          refine ⟨setBound_wf w3 _ _, m3.trans m4, fun ρ => ?_, fun h => absurd h hnc⟩
          rw [← hs12 ρ, ← k3.sol ρ]
          by_cases hoe : Owner c3 e b
          · rw [setBound_sol w3 hoe]
            constructor
            · rintro ⟨hp, hx, hb⟩
              refine ⟨hp, (boundSol_split w3 hoe hB3' ρ).2 ⟨hx, (hBsat ρ _).2 ?_⟩⟩
              -- components: x_i ~ y_i ~ root(y_i), which holds `Complete d_i` at another slot
              obtain ⟨q1, b1, hq1, hsl1, hpq1⟩ := ca1
              obtain ⟨q2, b2, hq2, hsl2, hpq2⟩ := ca2
              have hb1 : b1 ≠ b := by
                rintro rfl; rw [hB3'] at hsl1; cases hsl1; exact hBnc trivial
              have hb2 : b2 ≠ b := by
                rintro rfl; rw [hB3'] at hsl2; cases hsl2; exact hBnc trivial
              have e1 : ρ x1 = d1 := by
                rw [hp1 ρ (m2.par ρ ((k3.par ρ).1 hp)), hpq1 ρ hp]
                exact hx q1 b1 _ hq1 hb1 hsl1
              have e2 : ρ x2 = d2 := by
                rw [hp2 ρ ((k3.par ρ).1 hp), hpq2 ρ hp]
                exact hx q2 b2 _ hq2 hb2 hsl2
              rw [e1, e2]; exact hb
            · intro s
              refine ⟨s.par, ((boundSol_split w3 hoe hB3' ρ).1 s.bnd).1, ?_⟩
              show ρ e = mk d1 d2
              have he := (hBsat ρ _).1 (s.bnd e b B hoe hB3')
              have s2 := (k3.sol ρ).1 s
              rw [he, hp1 ρ (m2.par ρ s2.par), hp2 ρ s2.par, ca1.value s, ca2.value s]
          · have hno : ∀ e', ¬ Owner c3 e' b := by
              intro e' ho'
              have := w.inj _ _ _ ho (m3.owner _ _ ho')
              subst this; exact hoe ho'
            exact setBound_sol_orphan hno _ ρ
      · next c3 h3 =>
        obtain ⟨k3, _⟩ := completePairData_spec h3
        refine ⟨k3.wf w2, (m1.trans m2).trans k3.mono, fun ρ => ?_, fun h => absurd h hnc⟩
        rw [k3.sol ρ]; exact hs12 ρ

end UB
