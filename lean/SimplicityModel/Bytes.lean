/-
Spike: byte layer shared by C05 (`Frame::{peek_bit,write_bit}` on the machine's `Vec<u8>`) and
C13 (`BitIter::{next,read_u8}`): bit `i` of a byte buffer is bit `7 - i % 8` of byte `i / 8`.
-/
namespace Bytes

def getBit (data : List Nat) (i : Nat) : Bool := (data.getD (i / 8) 0).testBit (7 - i % 8)

/-- `Frame::write_bit`: `|= mask` or `&= !mask` with `mask = 1 << (7 - i % 8)` -/
def setBit (data : List Nat) (i : Nat) (b : Bool) : List Nat :=
  let x := data.getD (i / 8) 0
  let mask := 1 <<< (7 - i % 8)
  data.set (i / 8) (if b then x ||| mask else x &&& (255 ^^^ mask))

theorem testBit_mask (k k' : Nat) : (1 <<< k).testBit k' = decide (k = k') := by
  rw [Nat.one_shiftLeft, Nat.testBit_two_pow]

theorem testBit_255 (k : Nat) : (255 : Nat).testBit k = decide (k < 8) := by
  have : (255 : Nat) = 2^8 - 1 := by decide
  rw [this, Nat.testBit_two_pow_sub_one]

theorem getBit_setBit (data : List Nat) (i j : Nat) (b : Bool) (h : i / 8 < data.length) :
    getBit (setBit data i b) j = if j = i then b else getBit data j := by
  unfold getBit setBit
  simp only []
  by_cases hb : j / 8 = i / 8
  · rw [hb, List.getD_eq_getElem?_getD, List.getElem?_set_self h]
    simp only [Option.getD_some]
    by_cases hji : j = i
    · subst hji
      simp only [if_true]
      cases b with
      | true => simp [Nat.testBit_or, testBit_mask]
      | false =>
        simp only [Bool.false_eq_true, if_false, Nat.testBit_and, Nat.testBit_xor, testBit_mask,
          testBit_255]
        have : 7 - j % 8 < 8 := by omega
        simp [this]
    · rw [if_neg hji]
      have hne : 7 - i % 8 ≠ 7 - j % 8 := by omega
      cases b with
      | true =>
        simp only [if_true, Nat.testBit_or, testBit_mask, hne, decide_false, Bool.or_false]
      | false =>
        simp only [Bool.false_eq_true, if_false, Nat.testBit_and, Nat.testBit_xor, testBit_mask,
          testBit_255, hne, decide_false, Bool.xor_false]
        have : 7 - j % 8 < 8 := by omega
        simp only [this, decide_true, Bool.and_true]
  · have hji : j ≠ i := fun e => hb (by rw [e])
    rw [if_neg hji, List.getD_eq_getElem?_getD, List.getElem?_set_ne (Ne.symm hb),
      ← List.getD_eq_getElem?_getD]

/-- `BitIter::read_u8` with `r` bits of the cached byte already consumed (1 ≤ r ≤ 8):
`cached.checked_shl(r).unwrap_or(0) + (next >> (8 - r))` in `u8` arithmetic -/
def readU8 (cached next r : Nat) : Nat := (cached <<< r) % 256 + next >>> (8 - r)

/-- its bits are the last `8 - r` bits of the cached byte followed by the first `r` bits of the next -/
theorem readU8_testBit (cached next r k : Nat) (hc : cached < 256) (hn : next < 256) (hr1 : 1 ≤ r)
    (hr : r ≤ 8) (hk : k < 8) :
    (readU8 cached next r).testBit (7 - k) =
      if k + r < 8 then cached.testBit (7 - (k + r)) else next.testBit (7 - (k + r - 8)) := by
  unfold readU8
  have h1 : (cached <<< r) % 256 = 2 ^ r * (cached % 2 ^ (8 - r)) := by
    have h256 : (256 : Nat) = 2 ^ r * 2 ^ (8 - r) := by
      rw [← Nat.pow_add, show r + (8 - r) = 8 by omega]
    rw [Nat.shiftLeft_eq, Nat.mul_comm, h256, Nat.mul_mod_mul_left]
  have h2 : next >>> (8 - r) < 2 ^ r := by
    rw [Nat.shiftRight_eq_div_pow]
    apply Nat.div_lt_of_lt_mul
    rw [← Nat.pow_add, show 8 - r + r = 8 by omega]; exact hn
  rw [h1, Nat.testBit_two_pow_mul_add _ h2]
  by_cases hlt : 7 - k < r
  · have : ¬ k + r < 8 := by omega
    rw [if_pos hlt, if_neg this, Nat.testBit_shiftRight]
    congr 1; omega
  · have : k + r < 8 := by omega
    rw [if_neg hlt, if_pos this, Nat.testBit_mod_two_pow]
    have : 7 - k - r < 8 - r := by omega
    simp only [this, decide_true, Bool.true_and]
    congr 1; omega

#print axioms getBit_setBit
#print axioms readU8_testBit
end Bytes
