/-
C15 — the digest jets of the Elements environment.

`Env.lean` models the field getters; this file adds everything of the environment that is a SHA-256
digest over transaction data, in the same three layers:

* `marshalD : EnvArgs → CEnvD` — `marshal` plus the one further field `c_env.rs` hands to C, the
  transaction id (`tx.txid()` of the elements crate, modelled as the double SHA-256 of the
  serialisation without witnesses, `txidOf`).
* `cBuildD : CEnvD → TxEnvD` — what `env.c` precomputes and caches:
  `mallocTransaction` (the 20 digests of `elementsTransaction`, and per input the issuance entropy,
  asset id and token id of `copyInput`), `mallocTapEnv` (`tapLeafHash`, `tappathHash`, `tapEnvHash`),
  `build_txEnv` (`sigAllHash`); with the serialisers of `ops.c` (`sha256_confAsset`,
  `sha256_confNonce`, `sha256_confAmt`, `generateIssuanceEntropy`, `calculateAsset`,
  `calculateToken`, `make_tapleaf`).
* `jetD : DQuery → TxEnvD → Option (List Bool)` — the jets of `elementsJets.c` that return these
  digests: 25 without argument, `input_hash`, `input_utxo_hash`, `issuance_hash`,
  `issuance_entropy`, `issuance_asset`, `issuance_token` per input, `output_hash` per output.

Every SHA-256 context of `mallocTransaction` absorbs, input by input (output by output), one
*piece* of bytes and is then finalised: the digest is `sha256 (pieces.flatten)`.  `InPieces` /
`OutPieces` name these pieces; `txDigestsOf` is the one place that says which digest is the hash
of which pieces in which order (tied to env.c by the correspondence run and to an independent
recomputation in Rust by the oracle).  The C side takes the pieces from the copied `sigInput` /
`sigOutput` (`cInPieces`, `cOutPieces`); the specification takes them from the *view* of the
supplied data (`inView`, `outView`: the supplied fields with a NULL amount read as explicit zero and
a proof read as empty unless its amount/asset is confidential).

`specD : DQuery → EnvArgs → Option (List Bool)` is what each digest jet has to return, from the
supplied data alone; `Props/C15.lean` proves `jetD q (cBuildD (marshalD e)) = specD q e` and that
`sig_all_hash` determines the view.

`Sha256.hash` and the compression function are never unfolded by a theorem (only the length of a
digest is used, `Sha256Length.lean`).  A `sha256_midstate` is its 32 bytes, as in `Env.lean`.
-/
import SimplicityModel.Env

namespace Env

/-! ### the byte writers of `sha256.h` -/

/-- `sha256_u32be` -/
def be32 (x : UInt32) : Bytes :=
  let n := x.toNat
  [UInt8.ofNat (n / 16777216 % 256), UInt8.ofNat (n / 65536 % 256), UInt8.ofNat (n / 256 % 256),
   UInt8.ofNat (n % 256)]

/-- `sha256_u32le` -/
def le32 (x : UInt32) : Bytes :=
  let n := x.toNat
  [UInt8.ofNat (n % 256), UInt8.ofNat (n / 256 % 256), UInt8.ofNat (n / 65536 % 256),
   UInt8.ofNat (n / 16777216 % 256)]

/-- `sha256_u64be` of a `uint_fast64_t` -/
def beNat64 (n : Nat) : Bytes :=
  [UInt8.ofNat (n / 72057594037927936 % 256), UInt8.ofNat (n / 281474976710656 % 256),
   UInt8.ofNat (n / 1099511627776 % 256), UInt8.ofNat (n / 4294967296 % 256),
   UInt8.ofNat (n / 16777216 % 256), UInt8.ofNat (n / 65536 % 256),
   UInt8.ofNat (n / 256 % 256), UInt8.ofNat (n % 256)]

/-- `sha256_iv` followed by `sha256_compression` of one 64-byte block, as 32 bytes -/
def compressIV (block : Bytes) : Bytes :=
  Sha256.wordsToBytes (Sha256.compress Sha256.IV (ByteArray.mk block.toArray) 0)

/-! ### ops.c -/

/-- `sha256_confidential` -/
def shaConf (even odd : UInt8) (c : CConf) : Bytes :=
  match c.pfx with
  | .none => [0]
  | .explicit => 1 :: c.data
  | .evenY => even :: c.data
  | .oddY => odd :: c.data

/-- `sha256_confAsset` -/
def shaConfAsset (c : CConf) : Bytes := shaConf 0x0a 0x0b c
/-- `sha256_confNonce` -/
def shaConfNonce (c : CConf) : Bytes := shaConf 0x02 0x03 c

/-- `sha256_confAmt` (prefix NONE is `SIMPLICITY_UNREACHABLE`; never reached) -/
def shaConfAmt (a : CAmt) : Bytes :=
  match a.pfx with
  | .none => []
  | .explicit => 1 :: beNat64 a.explicit
  | .evenY => 8 :: a.confidential
  | .oddY => 9 :: a.confidential

/-- `generateIssuanceEntropy`: the double SHA-256 of the outpoint (index little-endian) and the
contract hash are the two halves of one block -/
def generateIssuanceEntropy (txid : Bytes) (ix : UInt32) (contract : Bytes) : Bytes :=
  compressIV (Sha256.hash (Sha256.hash (txid ++ le32 ix)) ++ contract)

/-- `calculateAsset` -/
def calculateAsset (entropy : Bytes) : Bytes := compressIV (entropy ++ List.replicate 32 0)

/-- `calculateToken`: `block[8] = confidential ? 0x02000000 : 0x01000000` -/
def calculateToken (entropy : Bytes) (confidential : Bool) : Bytes :=
  compressIV (entropy ++ (if confidential then 2 else 1) :: List.replicate 31 0)

def tapleafTag : Bytes := Sha256.hash "TapLeaf/elements".toUTF8.toList

/-- `make_tapleaf` for a 32-byte script -/
def makeTapleaf (version : UInt8) (cmr : Bytes) : Bytes :=
  Sha256.hash (tapleafTag ++ tapleafTag ++ [version, 32] ++ cmr)

/-! ### the pieces each SHA-256 context of `mallocTransaction` absorbs -/

/-- per input -/
structure InPieces where
  /-- `inputOutpointsHash`: pegin flag (and parent genesis hash), txid, index -/
  outpoint : Bytes
  /-- `inputAssetAmountsHash`: asset and amount of the spent output -/
  amt : Bytes
  /-- `inputScriptsHash`: hash of the spent script -/
  script : Bytes
  /-- `inputSequencesHash` -/
  seq : Bytes
  /-- `inputAnnexesHash`: flag (and annex hash) -/
  annex : Bytes
  /-- `inputScriptSigsHash` -/
  scriptSig : Bytes
  /-- `issuanceAssetAmountsHash` -/
  issAsset : Bytes
  /-- `issuanceTokenAmountsHash` -/
  issToken : Bytes
  /-- `issuanceRangeProofsHash` -/
  issProof : Bytes
  /-- `issuanceBlindingEntropyHash` -/
  issBlind : Bytes
  /-- entropy, asset id, token id cached by `copyInput` when there is an issuance -/
  ids : Option (Bytes × Bytes × Bytes)

/-- per output -/
structure OutPieces where
  /-- `outputAssetAmountsHash` -/
  amt : Bytes
  /-- `outputNoncesHash` -/
  nonce : Bytes
  /-- `outputScriptsHash` -/
  script : Bytes
  /-- `outputRangeProofsHash` -/
  range : Bytes
  /-- `outputSurjectionProofsHash` -/
  surj : Bytes

/-- the digests cached in `elementsTransaction` -/
structure TxDigests where
  outputAssetAmountsHash : Bytes
  outputNoncesHash : Bytes
  outputScriptsHash : Bytes
  outputRangeProofsHash : Bytes
  outputSurjectionProofsHash : Bytes
  outputsHash : Bytes
  inputOutpointsHash : Bytes
  inputAssetAmountsHash : Bytes
  inputScriptsHash : Bytes
  inputUTXOsHash : Bytes
  inputSequencesHash : Bytes
  inputAnnexesHash : Bytes
  inputScriptSigsHash : Bytes
  inputsHash : Bytes
  issuanceAssetAmountsHash : Bytes
  issuanceTokenAmountsHash : Bytes
  issuanceRangeProofsHash : Bytes
  issuanceBlindingEntropyHash : Bytes
  issuancesHash : Bytes
  txHash : Bytes
  txid : Bytes

/-- what is hashed into `txHash` -/
def txHashPre (version lockTime : UInt32) (inputsHash outputsHash issuancesHash
    outputSurjectionProofsHash inputUTXOsHash : Bytes) : Bytes :=
  be32 version ++ be32 lockTime ++ inputsHash ++ outputsHash ++ issuancesHash ++
    outputSurjectionProofsHash ++ inputUTXOsHash

/-- the body of `mallocTransaction` after the copies: which digest is the hash of which pieces -/
def txDigestsOf (ins : List InPieces) (outs : List OutPieces) (version lockTime : UInt32)
    (txid : Bytes) : TxDigests :=
  let h := Sha256.hash
  let inputOutpointsHash := h (ins.flatMap (·.outpoint))
  let inputAssetAmountsHash := h (ins.flatMap (·.amt))
  let inputScriptsHash := h (ins.flatMap (·.script))
  let inputSequencesHash := h (ins.flatMap (·.seq))
  let inputAnnexesHash := h (ins.flatMap (·.annex))
  let inputScriptSigsHash := h (ins.flatMap (·.scriptSig))
  let inputUTXOsHash := h (inputAssetAmountsHash ++ inputScriptsHash)
  let inputsHash := h (inputOutpointsHash ++ inputSequencesHash ++ inputAnnexesHash)
  let issuanceAssetAmountsHash := h (ins.flatMap (·.issAsset))
  let issuanceTokenAmountsHash := h (ins.flatMap (·.issToken))
  let issuanceRangeProofsHash := h (ins.flatMap (·.issProof))
  let issuanceBlindingEntropyHash := h (ins.flatMap (·.issBlind))
  let issuancesHash := h (issuanceAssetAmountsHash ++ issuanceTokenAmountsHash ++
    issuanceRangeProofsHash ++ issuanceBlindingEntropyHash)
  let outputAssetAmountsHash := h (outs.flatMap (·.amt))
  let outputNoncesHash := h (outs.flatMap (·.nonce))
  let outputScriptsHash := h (outs.flatMap (·.script))
  let outputRangeProofsHash := h (outs.flatMap (·.range))
  let outputSurjectionProofsHash := h (outs.flatMap (·.surj))
  let outputsHash := h (outputAssetAmountsHash ++ outputNoncesHash ++ outputScriptsHash ++
    outputRangeProofsHash)
  { outputAssetAmountsHash, outputNoncesHash, outputScriptsHash, outputRangeProofsHash,
    outputSurjectionProofsHash, outputsHash, inputOutpointsHash, inputAssetAmountsHash,
    inputScriptsHash, inputUTXOsHash, inputSequencesHash, inputAnnexesHash, inputScriptSigsHash,
    inputsHash, issuanceAssetAmountsHash, issuanceTokenAmountsHash, issuanceRangeProofsHash,
    issuanceBlindingEntropyHash, issuancesHash,
    txHash := h (txHashPre version lockTime inputsHash outputsHash issuancesHash
      outputSurjectionProofsHash inputUTXOsHash)
    txid }

/-- what `input_hash` hashes -/
def InPieces.inputHashPre (p : InPieces) : Bytes := p.outpoint ++ p.seq ++ p.annex
/-- what `input_utxo_hash` hashes -/
def InPieces.utxoHashPre (p : InPieces) : Bytes := p.amt ++ p.script
/-- what `issuance_hash` hashes -/
def InPieces.issuanceHashPre (p : InPieces) : Bytes := p.issAsset ++ p.issToken ++ p.issProof ++ p.issBlind
/-- what `output_hash` hashes -/
def OutPieces.outputHashPre (p : OutPieces) : Bytes := p.amt ++ p.nonce ++ p.script ++ p.range

/-- the digests cached in `elementsTapEnv` -/
structure TapDigests where
  tapLeafHash : Bytes
  tappathHash : Bytes
  tapEnvHash : Bytes

/-- the digest part of `mallocTapEnv` -/
def tapDigestsOf (leafVersion : UInt8) (scriptCMR : Bytes) (path : List Bytes) (internalKey : Bytes) :
    TapDigests :=
  let tapLeafHash := makeTapleaf leafVersion scriptCMR
  let tappathHash := Sha256.hash path.flatten
  { tapLeafHash, tappathHash, tapEnvHash := Sha256.hash (tapLeafHash ++ tappathHash ++ internalKey) }

/-- what `build_txEnv` hashes into `sigAllHash` -/
def sigAllPre (genesis txHash tapEnvHash : Bytes) (ix : UInt32) : Bytes :=
  genesis ++ genesis ++ txHash ++ tapEnvHash ++ be32 ix

/-! ### the C side: pieces of the copied inputs and outputs -/

def explicit0 : CAmt := { pfx := .explicit, explicit := 0, confidential := [] }

/-- `issuance.entropy` as `copyInput` leaves it (for an existing issuance) -/
def cIssEntropy (s : SigInput) : Bytes :=
  if s.issuance.type = .new then generateIssuanceEntropy s.prevTxid s.prevIx s.issuance.contractHash
  else s.issuance.entropy

/-- `issuance.assetId` -/
def cIssAssetId (s : SigInput) : Bytes := calculateAsset (cIssEntropy s)
/-- `issuance.tokenId` -/
def cIssTokenId (s : SigInput) : Bytes :=
  calculateToken (cIssEntropy s) s.issuance.assetAmt.pfx.isConfidential

/-- the loop body of `mallocTransaction` over the inputs -/
def cInPieces (s : SigInput) : InPieces :=
  let iss := s.issuance
  { outpoint := (if s.isPegin then 1 :: s.pegin else [0]) ++ s.prevTxid ++ be32 s.prevIx
    amt := shaConfAsset s.txo.asset ++ shaConfAmt s.txo.amt
    script := s.txo.scriptPubKey
    seq := be32 s.sequence
    annex := if s.hasAnnex then 1 :: s.annexHash else [0]
    scriptSig := s.scriptSigHash
    issAsset :=
      if iss.type = .none then [0, 0] else (1 :: cIssAssetId s) ++ shaConfAmt iss.assetAmt
    issToken :=
      if iss.type = .none then [0, 0]
      else (1 :: cIssTokenId s) ++ shaConfAmt (if iss.type = .new then iss.tokenAmt else explicit0)
    issProof := iss.assetRangeProofHash ++ iss.tokenRangeProofHash
    issBlind :=
      if iss.type = .none then [0]
      else if iss.type = .new then 1 :: (zeros32 ++ iss.contractHash)
      else 1 :: (iss.blindingNonce ++ iss.entropy)
    ids := if iss.type = .none then none else some (cIssEntropy s, cIssAssetId s, cIssTokenId s) }

/-- the loop body of `mallocTransaction` over the outputs -/
def cOutPieces (o : SigOutput) : OutPieces :=
  { amt := shaConfAsset o.asset ++ shaConfAmt o.amt
    nonce := shaConfNonce o.nonce
    script := o.scriptPubKey
    range := o.rangeProofHash
    surj := o.surjectionProofHash }

/-- what crosses the FFI: `CEnv` and `CRawTransaction.txid` -/
structure CEnvD where
  c : CEnv
  txid : Bytes

/-- the C environment with everything `env.c` caches -/
structure TxEnvD where
  env : TxEnv
  tx : TxDigests
  tap : TapDigests
  sigAllHash : Bytes

/-- the digest part of `mallocTransaction`, `mallocTapEnv` and `build_txEnv` on a built environment -/
def cDigests (v : TxEnv) (txid : Bytes) : TxEnvD :=
  let tx := txDigestsOf (v.tx.inputs.map cInPieces) (v.tx.outputs.map cOutPieces) v.tx.version
    v.tx.lockTime txid
  let tap := tapDigestsOf v.taproot.leafVersion v.taproot.scriptCMR v.taproot.path v.taproot.internalKey
  { env := v, tx, tap
    sigAllHash := Sha256.hash (sigAllPre v.genesisHash tx.txHash tap.tapEnvHash v.ix) }

def cBuildD (c : CEnvD) : TxEnvD := cDigests (cBuild c.c) c.txid

/-! ### elementsJets.c -/

/-- the digest jets without argument -/
inductive D0 where
  | outputAmountsHash | outputNoncesHash | outputScriptsHash | outputRangeProofsHash
  | outputSurjectionProofsHash | outputsHash
  | inputOutpointsHash | inputAmountsHash | inputScriptsHash | inputUtxosHash | inputSequencesHash
  | inputAnnexesHash | inputScriptSigsHash | inputsHash
  | issuanceAssetAmountsHash | issuanceTokenAmountsHash | issuanceRangeProofsHash
  | issuanceBlindingEntropyHash | issuancesHash
  | txHash | tapleafHash | tappathHash | tapEnvHash | sigAllHash | transactionId
deriving DecidableEq, Repr

/-- the digest jets with an input index -/
inductive DIn where
  | inputHash | inputUtxoHash | issuanceHash | issuanceEntropy | issuanceAsset | issuanceToken
deriving DecidableEq, Repr

inductive DQuery where
  | nullary (g : D0)
  | input (g : DIn) (i : UInt32)
  | outputHash (i : UInt32)

/-- the 32 bytes a digest jet without argument writes -/
def d0Bytes (g : D0) (tx : TxDigests) (tap : TapDigests) (sigAll : Bytes) : Bytes :=
  match g with
  | .outputAmountsHash => tx.outputAssetAmountsHash
  | .outputNoncesHash => tx.outputNoncesHash
  | .outputScriptsHash => tx.outputScriptsHash
  | .outputRangeProofsHash => tx.outputRangeProofsHash
  | .outputSurjectionProofsHash => tx.outputSurjectionProofsHash
  | .outputsHash => tx.outputsHash
  | .inputOutpointsHash => tx.inputOutpointsHash
  | .inputAmountsHash => tx.inputAssetAmountsHash
  | .inputScriptsHash => tx.inputScriptsHash
  | .inputUtxosHash => tx.inputUTXOsHash
  | .inputSequencesHash => tx.inputSequencesHash
  | .inputAnnexesHash => tx.inputAnnexesHash
  | .inputScriptSigsHash => tx.inputScriptSigsHash
  | .inputsHash => tx.inputsHash
  | .issuanceAssetAmountsHash => tx.issuanceAssetAmountsHash
  | .issuanceTokenAmountsHash => tx.issuanceTokenAmountsHash
  | .issuanceRangeProofsHash => tx.issuanceRangeProofsHash
  | .issuanceBlindingEntropyHash => tx.issuanceBlindingEntropyHash
  | .issuancesHash => tx.issuancesHash
  | .txHash => tx.txHash
  | .tapleafHash => tap.tapLeafHash
  | .tappathHash => tap.tappathHash
  | .tapEnvHash => tap.tapEnvHash
  | .sigAllHash => sigAll
  | .transactionId => tx.txid

/-- what a per-input digest jet writes for one input, from its pieces -/
def inDW (g : DIn) (p : InPieces) : List Bool :=
  match g with
  | .inputHash => hashBits p.inputHashPre
  | .inputUtxoHash => hashBits p.utxoHashPre
  | .issuanceHash => hashBits p.issuanceHashPre
  | .issuanceEntropy => optBits (p.ids.map fun t => bytesBits t.1)
  | .issuanceAsset => optBits (p.ids.map fun t => bytesBits t.2.1)
  | .issuanceToken => optBits (p.ids.map fun t => bytesBits t.2.2)

/-- the value a digest jet writes (compact bits); these jets never fail -/
def jetD (q : DQuery) (v : TxEnvD) : Option (List Bool) :=
  match q with
  | .nullary g => some (bytesBits (d0Bytes g v.tx v.tap v.sigAllHash))
  | .input g i => some (optBits ((v.env.tx.inputs[i.toNat]?).map fun s => inDW g (cInPieces s)))
  | .outputHash i =>
    some (optBits ((v.env.tx.outputs[i.toNat]?).map fun o => hashBits (cOutPieces o).outputHashPre))

/-! ### the specification: the view of the supplied data and its digests -/

/-- a NULL amount is read as the explicit amount zero -/
def Amount.norm : Amount → Amount
  | .null => .explicit 0
  | a => a

/-- a proof counts only when what it proves is confidential -/
def proofShown (confidential : Bool) (p : Bytes) : Bytes := if confidential then p else []

/-- what the environment shows of the issuance of an input -/
inductive IssView where
  | none
  /-- contract hash, asset amount, token amount, the two range proofs -/
  | new (contract : B32) (amount keys : Amount) (amountProof keysProof : Bytes)
  /-- blinding nonce, entropy, asset amount, its range proof (the token amount and its proof of a
  reissuance are not shown) -/
  | reissuance (nonce entropy : B32) (amount : Amount) (amountProof : Bytes)
deriving DecidableEq

def TxIn.issView (i : TxIn) : IssView :=
  match i.issKind with
  | .none => .none
  | .new =>
    .new i.assetEntropy i.amount.norm i.inflationKeys.norm
      (proofShown i.amount.isConfidential i.amountRangeproof)
      (proofShown i.inflationKeys.isConfidential i.inflationKeysRangeproof)
  | .reissuance =>
    .reissuance i.blindingNonce i.assetEntropy i.amount.norm
      (proofShown i.amount.isConfidential i.amountRangeproof)

/-- what the environment shows of an input and its spent output -/
structure InView where
  pegin : Option B32
  prevTxid : B32
  prevVout : UInt32
  sequence : UInt32
  annex : Option Bytes
  asset : Conf
  value : Amount
  scriptPubkey : Bytes
  scriptSig : Bytes
  iss : IssView
deriving DecidableEq

def inView (p : TxIn × Utxo) : InView :=
  { pegin := p.1.peginGenesis, prevTxid := p.1.prevTxid, prevVout := p.1.prevVout
    sequence := p.1.sequence, annex := getAnnex p.1.scriptWitness, asset := p.2.asset
    value := p.2.value.norm, scriptPubkey := p.2.scriptPubkey, scriptSig := p.1.scriptSig
    iss := p.1.issView }

/-- what the environment shows of an output -/
structure OutView where
  asset : Conf
  value : Amount
  nonce : Conf
  scriptPubkey : Bytes
  rangeproof : Bytes
  surjectionProof : Bytes
deriving DecidableEq

def outView (o : TxOut) : OutView :=
  { asset := o.asset, value := o.value.norm, nonce := o.nonce, scriptPubkey := o.scriptPubkey
    rangeproof := proofShown o.value.isConfidential o.rangeproof
    surjectionProof := proofShown o.asset.isConfidential o.surjectionProof }

/-- the serialisation of an amount in the digests (after `norm` there is no NULL) -/
def digAmount : Amount → Bytes
  | .null => 1 :: beNat64 0
  | .explicit v => 1 :: beNat64 v.toNat
  | .confidential odd x => (8 + parity odd) :: x.bytes

def IssView.entropy (prevTxid : B32) (prevVout : UInt32) : IssView → Bytes
  | .none => []
  | .new contract .. => generateIssuanceEntropy prevTxid.bytes prevVout contract.bytes
  | .reissuance _ entropy .. => entropy.bytes

def IssView.amount : IssView → Amount
  | .none => .null
  | .new _ a .. => a
  | .reissuance _ _ a _ => a

/-- the two range proofs as they enter `issuance_range_proofs_hash` -/
def IssView.proofs : IssView → Bytes × Bytes
  | .none => ([], [])
  | .new _ _ _ ap kp => (ap, kp)
  | .reissuance _ _ _ ap => (ap, [])

def InView.entropy (v : InView) : Bytes := v.iss.entropy v.prevTxid v.prevVout
def InView.assetId (v : InView) : Bytes := calculateAsset v.entropy
def InView.tokenId (v : InView) : Bytes := calculateToken v.entropy v.iss.amount.isConfidential

/-- an optional 32-byte string in a digest: the byte 0, or the byte 1 and the string -/
def optPiece : Option Bytes → Bytes
  | some g => 1 :: g
  | none => [0]

/-- the pieces of an input, from its view -/
def InView.pieces (v : InView) : InPieces :=
  { outpoint := optPiece (v.pegin.map (·.bytes)) ++ v.prevTxid.bytes ++ be32 v.prevVout
    amt := serializeConf 0x0a v.asset ++ digAmount v.value
    script := Sha256.hash v.scriptPubkey
    seq := be32 v.sequence
    annex := optPiece (v.annex.map Sha256.hash)
    scriptSig := Sha256.hash v.scriptSig
    issAsset :=
      match v.iss with
      | .none => [0, 0]
      | _ => (1 :: v.assetId) ++ digAmount v.iss.amount
    issToken :=
      match v.iss with
      | .none => [0, 0]
      | .new _ _ keys .. => (1 :: v.tokenId) ++ digAmount keys
      | .reissuance .. => (1 :: v.tokenId) ++ digAmount (.explicit 0)
    issProof := Sha256.hash v.iss.proofs.1 ++ Sha256.hash v.iss.proofs.2
    issBlind :=
      match v.iss with
      | .none => [0]
      | .new contract .. => 1 :: (zeros32 ++ contract.bytes)
      | .reissuance nonce entropy .. => 1 :: (nonce.bytes ++ entropy.bytes)
    ids :=
      match v.iss with
      | .none => none
      | _ => some (v.entropy, v.assetId, v.tokenId) }

/-- the pieces of an output, from its view -/
def OutView.pieces (v : OutView) : OutPieces :=
  { amt := serializeConf 0x0a v.asset ++ digAmount v.value
    nonce := serializeConf 0x02 v.nonce
    script := Sha256.hash v.scriptPubkey
    range := Sha256.hash v.rangeproof
    surj := Sha256.hash v.surjectionProof }

/-- Bitcoin's variable-length integer (lengths below 2^32) -/
def varint (n : Nat) : Bytes :=
  if n < 0xfd then [UInt8.ofNat n]
  else if n ≤ 0xffff then [0xfd, UInt8.ofNat (n % 256), UInt8.ofNat (n / 256 % 256)]
  else 0xfe :: le32 (UInt32.ofNat n)

/-- consensus serialisation of an input without its witness: the outpoint index carries the pegin
flag (bit 30) and the issuance flag (bit 31) -/
def TxIn.serialize (i : TxIn) : Bytes :=
  let flags : UInt32 := (if i.isPegin then 0x40000000 else 0) ||| (if i.hasIssuance then 0x80000000 else 0)
  i.prevTxid.bytes ++ le32 (i.prevVout ||| flags) ++ varint i.scriptSig.length ++ i.scriptSig ++
    le32 i.sequence ++
    (if i.hasIssuance then
      i.blindingNonce.bytes ++ i.assetEntropy.bytes ++ serializeAmount i.amount ++
        serializeAmount i.inflationKeys
     else [])

def TxOut.serialize (o : TxOut) : Bytes :=
  serializeConf 0x0a o.asset ++ serializeAmount o.value ++ serializeConf 0x02 o.nonce ++
    varint o.scriptPubkey.length ++ o.scriptPubkey

/-- `Transaction::txid` of the elements crate: double SHA-256 of version, the flag byte 0, inputs,
outputs, lock time -/
def txidOf (t : Tx) : Bytes :=
  Sha256.hash (Sha256.hash (le32 t.version ++ [0] ++ varint t.inputs.length ++
    t.inputs.flatMap TxIn.serialize ++ varint t.outputs.length ++ t.outputs.flatMap TxOut.serialize ++
    le32 t.lockTime))

/-- `new_tx` also hands the transaction id to C -/
def marshalD (e : EnvArgs) : CEnvD := { c := marshal e, txid := txidOf e.tx }

/-- the digests of the transaction, from the supplied data -/
def specTx (e : EnvArgs) : TxDigests :=
  txDigestsOf (e.shown.map fun p => (inView p).pieces) (e.tx.outputs.map fun o => (outView o).pieces)
    e.tx.version e.tx.lockTime (txidOf e.tx)

/-- the digests of the taproot data, from the supplied data -/
def specTap (e : EnvArgs) : TapDigests :=
  tapDigestsOf e.controlBlock.leafVersion e.scriptCmr.bytes (e.controlBlock.merkleBranch.map (·.bytes))
    e.controlBlock.internalKey.bytes

/-- `sig_all_hash`, from the supplied data -/
def specSigAll (e : EnvArgs) : Bytes :=
  Sha256.hash (sigAllPre e.genesisHash.bytes (specTx e).txHash (specTap e).tapEnvHash e.ix)

/-- what each digest jet has to return, from the supplied data alone -/
def specD (q : DQuery) (e : EnvArgs) : Option (List Bool) :=
  match q with
  | .nullary g => some (bytesBits (d0Bytes g (specTx e) (specTap e) (specSigAll e)))
  | .input g i => some (optBits ((e.shown[i.toNat]?).map fun p => inDW g (inView p).pieces))
  | .outputHash i =>
    some (optBits ((e.tx.outputs[i.toNat]?).map fun o => hashBits (outView o).pieces.outputHashPre))

/-! ### what `sig_all_hash` commits to -/

/-- everything the digest jets show of an environment (the transaction id apart) -/
structure EnvView where
  genesisHash : B32
  ix : UInt32
  version : UInt32
  lockTime : UInt32
  ins : List InView
  outs : List OutView
  leafVersion : UInt8
  scriptCmr : B32
  merkleBranch : List B32
  internalKey : B32
deriving DecidableEq

def envView (e : EnvArgs) : EnvView :=
  { genesisHash := e.genesisHash, ix := e.ix, version := e.tx.version, lockTime := e.tx.lockTime
    ins := e.shown.map inView, outs := e.tx.outputs.map outView
    leafVersion := e.controlBlock.leafVersion, scriptCmr := e.scriptCmr
    merkleBranch := e.controlBlock.merkleBranch, internalKey := e.controlBlock.internalKey }

/-- the script signatures are shown (`input_script_sigs_hash`, `input_script_sig_hash`) but are not
part of `inputs_hash`, `tx_hash` or `sig_all_hash` -/
def InView.signed (v : InView) : InView := { v with scriptSig := [] }
def EnvView.signed (v : EnvView) : EnvView := { v with ins := v.ins.map InView.signed }

/-- the byte strings hashed for one input on the way to `sig_all_hash` -/
def InView.hashed (v : InView) : List Bytes :=
  [v.scriptPubkey, v.iss.proofs.1, v.iss.proofs.2] ++ v.annex.toList

/-- the byte strings hashed for one output -/
def OutView.hashed (v : OutView) : List Bytes := [v.scriptPubkey, v.rangeproof, v.surjectionProof]

/-- the digests of the transaction as a function of the view (transaction id left empty) -/
def EnvView.tx (v : EnvView) : TxDigests :=
  txDigestsOf (v.ins.map InView.pieces) (v.outs.map OutView.pieces) v.version v.lockTime []

def EnvView.tap (v : EnvView) : TapDigests :=
  tapDigestsOf v.leafVersion v.scriptCmr.bytes (v.merkleBranch.map (·.bytes)) v.internalKey.bytes

def EnvView.sigAll (v : EnvView) : Bytes :=
  Sha256.hash (sigAllPre v.genesisHash.bytes v.tx.txHash v.tap.tapEnvHash v.ix)

/-- every digest jet (but `transaction_id`) as a function of the view -/
def viewD (q : DQuery) (v : EnvView) : Option (List Bool) :=
  match q with
  | .nullary g => some (bytesBits (d0Bytes g v.tx v.tap v.sigAll))
  | .input g i => some (optBits ((v.ins[i.toNat]?).map fun x => inDW g x.pieces))
  | .outputHash i => some (optBits ((v.outs[i.toNat]?).map fun o => hashBits o.pieces.outputHashPre))

/-- the pre-images of the combining digests of `txDigestsOf` -/
def inputsHashPreOf (ins : List InPieces) : Bytes :=
  let d := txDigestsOf ins [] 0 0 []
  d.inputOutpointsHash ++ d.inputSequencesHash ++ d.inputAnnexesHash
def utxosHashPreOf (ins : List InPieces) : Bytes :=
  let d := txDigestsOf ins [] 0 0 []
  d.inputAssetAmountsHash ++ d.inputScriptsHash
def issuancesHashPreOf (ins : List InPieces) : Bytes :=
  let d := txDigestsOf ins [] 0 0 []
  d.issuanceAssetAmountsHash ++ d.issuanceTokenAmountsHash ++ d.issuanceRangeProofsHash ++
    d.issuanceBlindingEntropyHash
def outputsHashPreOf (outs : List OutPieces) : Bytes :=
  let d := txDigestsOf [] outs 0 0 []
  d.outputAssetAmountsHash ++ d.outputNoncesHash ++ d.outputScriptsHash ++ d.outputRangeProofsHash
def txHashPreOf (ins : List InPieces) (outs : List OutPieces) (version lockTime : UInt32) : Bytes :=
  let d := txDigestsOf ins outs version lockTime []
  txHashPre version lockTime d.inputsHash d.outputsHash d.issuancesHash d.outputSurjectionProofsHash
    d.inputUTXOsHash

/-- the byte strings hashed by `txDigestsOf` on the way to `txHash` (all its pre-images but the one
of `inputScriptSigsHash`, which does not enter `txHash`) -/
inductive TxHashed (ins : List InPieces) (outs : List OutPieces) (version lockTime : UInt32) : Bytes → Prop
  | txHash : TxHashed ins outs version lockTime (txHashPreOf ins outs version lockTime)
  | inputsHash : TxHashed ins outs version lockTime (inputsHashPreOf ins)
  | utxosHash : TxHashed ins outs version lockTime (utxosHashPreOf ins)
  | issuancesHash : TxHashed ins outs version lockTime (issuancesHashPreOf ins)
  | outputsHash : TxHashed ins outs version lockTime (outputsHashPreOf outs)
  | outpoints : TxHashed ins outs version lockTime (ins.flatMap (·.outpoint))
  | sequences : TxHashed ins outs version lockTime (ins.flatMap (·.seq))
  | annexes : TxHashed ins outs version lockTime (ins.flatMap (·.annex))
  | amounts : TxHashed ins outs version lockTime (ins.flatMap (·.amt))
  | scripts : TxHashed ins outs version lockTime (ins.flatMap (·.script))
  | issAssets : TxHashed ins outs version lockTime (ins.flatMap (·.issAsset))
  | issTokens : TxHashed ins outs version lockTime (ins.flatMap (·.issToken))
  | issProofs : TxHashed ins outs version lockTime (ins.flatMap (·.issProof))
  | issBlinds : TxHashed ins outs version lockTime (ins.flatMap (·.issBlind))
  | outAmounts : TxHashed ins outs version lockTime (outs.flatMap (·.amt))
  | outNonces : TxHashed ins outs version lockTime (outs.flatMap (·.nonce))
  | outScripts : TxHashed ins outs version lockTime (outs.flatMap (·.script))
  | outRanges : TxHashed ins outs version lockTime (outs.flatMap (·.range))
  | outSurjs : TxHashed ins outs version lockTime (outs.flatMap (·.surj))

/-- `Hashed e x`: the byte string `x` is hashed when `sig_all_hash` is computed from the supplied
data `e` — finitely many strings: 4 at the top, 19 in the transaction digests, 3 or 4 per input, 3 per
output -/
inductive Hashed (e : EnvArgs) : Bytes → Prop
  | sigAll : Hashed e (sigAllPre e.genesisHash.bytes (specTx e).txHash (specTap e).tapEnvHash e.ix)
  | tapEnv : Hashed e ((specTap e).tapLeafHash ++ (specTap e).tappathHash ++ e.controlBlock.internalKey.bytes)
  | tapLeaf : Hashed e (tapleafTag ++ tapleafTag ++ [e.controlBlock.leafVersion, 32] ++ e.scriptCmr.bytes)
  | tapPath : Hashed e (e.controlBlock.merkleBranch.map (·.bytes)).flatten
  | tx (x : Bytes) : TxHashed (e.shown.map fun p => (inView p).pieces) (e.tx.outputs.map fun o => (outView o).pieces)
      e.tx.version e.tx.lockTime x → Hashed e x
  | input (p : TxIn × Utxo) (x : Bytes) : p ∈ e.shown → x ∈ (inView p).hashed → Hashed e x
  | output (o : TxOut) (x : Bytes) : o ∈ e.tx.outputs → x ∈ (outView o).hashed → Hashed e x

/-- SHA-256 has no collision between a string hashed for `e1` and a string hashed for `e2` -/
def NoCollision (e1 e2 : EnvArgs) : Prop :=
  ∀ x y, Hashed e1 x → Hashed e2 y → Sha256.hash x = Sha256.hash y → x = y

end Env
