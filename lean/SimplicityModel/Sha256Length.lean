/-
The one structural fact about `Sha256.hash` a C15 theorem uses: a digest has 32 bytes.  Nothing is
evaluated: the proof only follows the shape of the result (eight state words, four bytes each).
-/
import SimplicityModel.Sha256
namespace Sha256

theorem compress_size (h : Array UInt32) (m : ByteArray) (off : Nat) : (compress h m off).size = 8 := by
  unfold compress
  simp

theorem forIn_size (l : List Nat) (m : ByteArray) (s : Array UInt32) (hs : s.size = 8) :
    (forIn (m := Id) l s fun b __s => ForInStep.yield (compress __s m (64 * b))).size = 8 := by
  induction l generalizing s with
  | nil => exact hs
  | cons a t ih =>
    simp only [List.forIn_cons, bind]
    exact ih _ (compress_size _ _ _)

theorem hashWords_size (msg : ByteArray) : (hashWords msg).size = 8 := by
  unfold hashWords
  simp only [Id.run, bind, pure]
  rw [Std.Legacy.Range.forIn_eq_forIn_range']
  exact forIn_size _ _ _ rfl

theorem sum_four (l : List UInt32) : (List.map (fun (w : UInt32) =>
    [(w >>> 24).toUInt8, (w >>> 16).toUInt8, (w >>> 8).toUInt8, w.toUInt8].length) l).sum = 4 * l.length := by
  induction l with
  | nil => rfl
  | cons a t ih =>
    rw [List.map_cons, List.sum_cons, ih, List.length_cons]
    show 4 + 4 * t.length = 4 * (t.length + 1)
    omega

/-- the words of a state with eight words are 32 bytes -/
theorem wordsToBytes_length (w : Array UInt32) (h : w.size = 8) : (wordsToBytes w).length = 32 := by
  unfold wordsToBytes
  rw [List.length_flatMap, sum_four, Array.length_toList, h]

/-- a SHA-256 digest has 32 bytes -/
theorem hash_length (msg : List UInt8) : (hash msg).length = 32 :=
  wordsToBytes_length _ (hashWords_size _)

end Sha256
