/-
C16 — evaluation of the policy fragments: the constructor algebra of partial functions on values
(`semAlg`), with the eleven jets as parameters constrained by what they compute (`JetEnv`), and the
evaluation of a program built through the hiding wrapper (`evalH`: a hidden node fails, an
assertion fails on the hidden side) as a homomorphism into it.
-/
import SimplicityModel.PolicySatThm

namespace Pol

/-- denotation of a program: a partial function on values (`none` = the Bit Machine fails) -/
abbrev Sem := Val → Option Val

/-- the jets the fragments call, as parameters: `sem` is arbitrary except for the equations below,
which say what each jet computes on the inputs the fragments feed it.  Signature verification, the
SHA-256 context operations and the environment's lock height / distance stay abstract. -/
structure JetEnv where
  sem : Jet → Val → Option Val
  /-- `sig_all_hash` of the environment -/
  msg : Val
  /-- BIP-340 verification of a signature value for a key and `msg` -/
  verifyOk : Nat → Val → Bool
  lockHeight : Nat
  lockDistance : Nat
  ctx0 : Val
  add : Val → Val → Val
  fin : Val → Nat
  sigAllHash : sem .sigAllHash .unit = some msg
  bip0340 : ∀ k s, sem .bip0340Verify (.pair (.pair (.word 256 k) msg) s) =
    if verifyOk k s then some .unit else none
  checkLockHeight : ∀ n, sem .checkLockHeight (.word 32 n) = if n ≤ lockHeight then some .unit else none
  checkLockDistance : ∀ n, sem .checkLockDistance (.word 16 n) =
    if n ≤ lockDistance then some .unit else none
  sha256Init : sem .sha256Init .unit = some ctx0
  sha256Add32 : ∀ c w, sem .sha256Add32 (.pair c w) = some (add c w)
  sha256Finalize : ∀ c, sem .sha256Finalize c = some (.word 256 (fin c))
  eq256 : ∀ a b, sem .eq256 (.pair (.word 256 a) (.word 256 b)) = some (Val.bit (a == b))
  eq32 : ∀ a b, sem .eq32 (.pair (.word 32 a) (.word 32 b)) = some (Val.bit (a == b))
  verify : ∀ b, sem .verify (Val.bit b) = if b then some .unit else none
  add32 : ∀ a b, a < 2 ^ 32 → b < 2 ^ 32 → sem .add32 (.pair (.word 32 a) (.word 32 b)) =
    some (.pair (Val.bit (decide (2 ^ 32 ≤ a + b))) (.word 32 ((a + b) % 2 ^ 32)))

/-- the combinators on denotations (the Bit Machine's big-step semantics for the node kinds the
fragments use; an assertion fails on its hidden side) -/
def semAlg (E : JetEnv) (H : Type) : Alg Sem H where
  iden := fun v => some v
  unit := fun _ => some .unit
  witness := fun w _ => w
  drop := fun f v => match v with
    | .pair _ b => f b
    | _ => none
  comp := fun f g v => (f v).bind g
  pair := fun f g v => (f v).bind fun a => (g v).bind fun b => some (.pair a b)
  case := fun l r v => match v with
    | .pair (.inl a) c => l (.pair a c)
    | .pair (.inr b) c => r (.pair b c)
    | _ => none
  assertl := fun l _ v => match v with
    | .pair (.inl a) c => l (.pair a c)
    | _ => none
  assertr := fun _ r v => match v with
    | .pair (.inr b) c => r (.pair b c)
    | _ => none
  fail := fun _ _ => none
  word := fun w n _ => some (.word w n)
  jet := fun j => E.sem j

section
variable (E : JetEnv) {H : Type} (C : Alg H H) (r : Sem → H)

/-- running a program built through the hiding wrapper: a "hidden" result cannot be run -/
def evalH : Hid Sem H → Sem
  | .node f => f
  | .hidden _ => fun _ => none

theorem bind_none' {α β : Type} (o : Option α) : (o.bind fun _ => (none : Option β)) = none := by
  cases o <;> rfl

/-- evaluation commutes with every constructor of the hiding wrapper -/
theorem evalH_hom : Hom (hidAlg (semAlg E H) C r) (semAlg E H) evalH where
  iden := rfl
  unit := rfl
  witness := fun _ => rfl
  drop := fun x => by
    cases x with
    | node f => rfl
    | hidden h => funext v; cases v <;> rfl
  comp := fun x y => by
    cases x <;> cases y <;> funext v <;> simp [hidAlg, semAlg, evalH, bind_none']
  pair := fun x y => by
    cases x <;> cases y <;> funext v <;> simp [hidAlg, semAlg, evalH, bind_none']
  case := fun x y => by
    cases x <;> cases y <;> funext v <;> simp only [hidAlg, semAlg, evalH]
    · rename_i f h
      cases v with
      | pair a c => cases a <;> rfl
      | _ => rfl
    · rename_i h f
      cases v with
      | pair a c => cases a <;> rfl
      | _ => rfl
    · cases v with
      | pair a c => cases a <;> rfl
      | _ => rfl
  fail := fun _ => rfl
  word := fun _ _ => rfl
  jet := fun _ => rfl

theorem evalH_okIf (c : Bool) (x : Hid Sem H) :
    evalH (Hid.okIf r c x) = if c then evalH x else fun _ => none := by
  cases c <;> cases x <;> rfl

theorem evalH_node_of_some {x : Hid Sem H} {v w : Val} (h : evalH x v = some w) : x.isNode = true := by
  cases x with
  | node f => rfl
  | hidden _ => simp [evalH] at h
end

/-! ### what the fragments compute -/

section frag
variable (E : JetEnv) {H : Type}
local notation "S" => semAlg E H

theorem sem_comp (f g : Sem) (v : Val) : (S).comp f g v = (f v).bind g := rfl
theorem sem_pair (f g : Sem) (v : Val) :
    (S).pair f g v = (f v).bind fun a => (g v).bind fun b => some (.pair a b) := rfl
theorem sem_word (w n : Nat) (v : Val) : (S).word w n v = some (.word w n) := rfl
theorem sem_jet (j : Jet) : (S).jet j = E.sem j := rfl

theorem eval_selector (b : Bool) :
    selector S (some (Val.bit b)) .unit = some (.pair (Val.bit b) .unit) := rfl

/-- `or`: the selector bit chooses the side that is run -/
theorem eval_orF (fl fr : Sem) (b : Bool) :
    orF S fl fr (some (Val.bit b)) .unit = if b then fr .unit else fl .unit := by
  cases b <;> rfl

theorem eval_andF (fl fr : Sem) (h1 : fl .unit = some .unit) (h2 : fr .unit = some .unit) :
    andF S fl fr .unit = some .unit := by
  simp [andF, semAlg, h1, h2]

/-- a summand contributes 1 when selected (and then runs the child), 0 otherwise (without running it) -/
theorem eval_summand (f : Sem) (b : Bool) (h : b = true → f .unit = some .unit) :
    summand S f (some (Val.bit b)) .unit = some (.word 32 (if b then 1 else 0)) := by
  cases b with
  | false => rfl
  | true =>
    have := h rfl
    simp [summand, selector, semAlg, Val.bit, this]

theorem eval_addF (acc s : Sem) (m c : Nat) (hm : acc .unit = some (.word 32 m))
    (hs : s .unit = some (.word 32 c)) (hlt : m + c < 2 ^ 32) :
    addF S acc s .unit = some (.word 32 (m + c)) := by
  have h1 : m < 2 ^ 32 := by omega
  have h2 : c < 2 ^ 32 := by omega
  simp [addF, semAlg, hm, hs, E.add32 m c h1 h2, Nat.mod_eq_of_lt hlt]

def bitsOf (bs : List Bool) : List (Option Val) := bs.map fun b => some (Val.bit b)

theorem eval_sumF : ∀ (fs : List Sem) (bs : List Bool) (m : Nat) (acc : Sem),
    acc .unit = some (.word 32 m) →
    (∀ p ∈ fs.zip bs, p.2 = true → p.1 .unit = some .unit) →
    fs.length = bs.length → m + bs.count true < 2 ^ 32 →
    sumF S acc fs (bitsOf bs) .unit = some (.word 32 (m + bs.count true))
  | [], [], m, acc, hm, _, _, _ => by simpa [sumF, bitsOf] using hm
  | [], _ :: _, _, _, _, _, hl, _ => by simp at hl
  | _ :: _, [], _, _, _, _, hl, _ => by simp at hl
  | f :: fs, b :: bs, m, acc, hm, hz, hl, hlt => by
    simp only [bitsOf, List.map, sumF]
    have hb : b = true → f .unit = some .unit := fun hb => hz (f, b) (by simp) hb
    have hc : List.count true (b :: bs) = (if b then 1 else 0) + bs.count true := by
      cases b <;> simp [List.count_cons] <;> omega
    rw [hc] at hlt ⊢
    have := eval_sumF fs bs (m + (if b then 1 else 0)) (addF S acc (summand S f (some (Val.bit b))))
      (eval_addF E acc _ m _ hm (eval_summand E f b hb) (by omega))
      (fun p hp => hz p (by simp only [List.zip_cons_cons, List.mem_cons]; exact .inr hp))
      (by simpa using hl) (by omega)
    simpa [bitsOf, Nat.add_assoc] using this

/-- the threshold fragment succeeds when exactly `k` summands are selected and every selected child
runs (`n < 2^32`: the 32-bit sum does not wrap) -/
theorem eval_thresholdF (k : Nat) (fs : List Sem) (bs : List Bool)
    (hz : ∀ p ∈ fs.zip bs, p.2 = true → p.1 .unit = some .unit)
    (hl : fs.length = bs.length) (hn : 1 ≤ fs.length) (hsmall : fs.length < 2 ^ 32)
    (hk : bs.count true = k) :
    thresholdF S k fs (bitsOf bs) .unit = some .unit := by
  match fs, bs, hl, hn with
  | f :: fs, b :: bs, hl, _ =>
    have hb : b = true → f .unit = some .unit := fun hb => hz (f, b) (by simp) hb
    have hc : List.count true (b :: bs) = (if b then 1 else 0) + bs.count true := by
      cases b <;> simp [List.count_cons] <;> omega
    have hle : (b :: bs).count true ≤ (b :: bs).length := List.count_le_length
    have hsum := eval_sumF (H := H) E fs bs (if b then 1 else 0) (summand S f (some (Val.bit b)))
      (eval_summand E f b hb)
      (fun p hp => hz p (by simp only [List.zip_cons_cons, List.mem_cons]; exact .inr hp))
      (by simpa using hl) (by rw [← hc]; simp only [List.length_cons] at hsmall hle hl; omega)
    rw [← hc, hk] at hsum
    simp only [bitsOf, List.map, thresholdF, threshVerify, verifyBexp] at hsum ⊢
    simp [sem_comp, sem_pair, sem_word, sem_jet, hsum, E.eq32, E.verify]
end frag

end Pol
