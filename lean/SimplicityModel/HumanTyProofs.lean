/-
C17 — the printed form of a type parses back to the type (token level).
-/
import SimplicityModel.HumanTy
namespace HT
open BM4 (Ty)

/-- the depth that the parser records for the printed form of a type (atoms — `1`, `2`, `2^N` —
count 1, `?` adds 1, `+`/`*` 1 + max) -/
def synDepth : Ty → Nat
  | .one => 1
  | .sum a b =>
    if a = .one ∧ b = .one then 1
    else if a = .one then synDepth b + 1
    else 1 + max (synDepth a) (synDepth b)
  | .prod a b =>
    match wordIdx (.prod a b) with
    | some _ => 1
    | none => 1 + max (synDepth a) (synDepth b)

/-- recursion fuel that suffices for the printed form (technical) -/
def need (t : Ty) : Nat := 2 * (tyToks false t).length + 1

/-- `k` times `1 + ·` -/
def optN : Nat → Ty → Ty
  | 0, t => t
  | k + 1, t => optN k (.sum .one t)

def NoQ (rest : List Tok) : Prop := ∀ r, rest ≠ .question :: r
def NoOp (rest : List Tok) : Prop := ∀ r, rest ≠ .question :: r ∧ rest ≠ .plus :: r ∧ rest ≠ .star :: r

theorem isWord_eq (t : Ty) : ∀ n, Prog.isWord t = some n → t = Prog.wordTy n := by
  fun_induction Prog.isWord t with
  | case1 => intro n h; simp only [Option.some.injEq] at h; subst h; rfl
  | case2 a b n hb ha iha ihb =>
    intro k h
    simp only [Option.some.injEq] at h; subst h
    rw [iha n ha, ihb n hb]; rfl
  | case3 => intro n h; cases h
  | case4 => intro n h; cases h
  | case5 => intro n h; cases h

theorem isWord_wordTy : ∀ n, Prog.isWord (Prog.wordTy n) = some n
  | 0 => rfl
  | n + 1 => by simp [Prog.wordTy, Prog.isWord, isWord_wordTy n]

theorem questions_rep : ∀ (k : Nat) (t : Ty) (d : Nat) (rest : List Tok), d + k ≤ maxDepth → NoQ rest →
    questions t d (List.replicate k .question ++ rest) = some (optN k t, d + k, rest)
  | 0, t, d, rest, _, hr => by
    simp only [List.replicate, List.nil_append, optN, Nat.add_zero]
    cases rest with
    | nil => rfl
    | cons x r =>
      cases x <;> first | rfl | exact absurd rfl (hr r)
  | k + 1, t, d, rest, hk, hr => by
    have h1 : ¬ (d + 1 > maxDepth) := by omega
    simp only [List.replicate_succ, List.cons_append, questions, h1, if_false]
    rw [questions_rep k _ (d + 1) rest (by omega) hr]
    simp only [optN]
    have : d + 1 + k = d + (k + 1) := by omega
    rw [this]

theorem twoExp_word : ∀ n, n ≤ 31 → 1 ≤ n → twoExpTy (decText (2 ^ n)) = some (Prog.wordTy n) := by decide

/-- the loop of `parse_type` stops at a token that is not an operator -/
theorem parseOps_stop (n b : Nat) (lhs : Ty) (d : Nat) (rest : List Tok) (h : NoOp rest) :
    parseOps (n + 1) b lhs d rest = some (lhs, d, rest) := by
  cases rest with
  | nil => simp [parseOps]
  | cons x r =>
    cases x <;> first
      | exact absurd rfl (h r).1
      | exact absurd rfl (h r).2.1
      | exact absurd rfl (h r).2.2
      | simp [parseOps]

/-- **the printed form of a type parses back to it** (as an atom, i.e. in the nested form with
parentheses, followed by any number of `?`) -/
theorem parseAtom_print (t : Ty) : ∀ (n b k : Nat) (rest : List Tok),
    need t ≤ n → synDepth t ≤ b → synDepth t + k ≤ maxDepth → NoQ rest →
    parseAtom n b (tyToks false t ++ (List.replicate k .question ++ rest)) =
      some (optN k t, synDepth t + k, rest) := by
  induction t with
  | one =>
    intro n b k rest hn hb hk hr
    obtain ⟨n', rfl⟩ : ∃ n', n = n' + 1 := ⟨n - 1, by simp only [need] at hn; omega⟩
    obtain ⟨b', rfl⟩ : ∃ b', b = b' + 1 := ⟨b - 1, by simp only [synDepth] at hb; omega⟩
    simp only [tyToks, List.cons_append, List.nil_append, parseAtom, synDepth] at hk ⊢
    exact questions_rep k .one 1 rest hk hr
  | sum a c iha ihc =>
    intro n b k rest hn hb hk hr
    simp only [need] at hn
    by_cases h1 : a = .one ∧ c = .one
    · obtain ⟨rfl, rfl⟩ := h1
      obtain ⟨n', rfl⟩ : ∃ n', n = n' + 1 := ⟨n - 1, by omega⟩
      have hd : synDepth (.sum .one .one) = 1 := by simp [synDepth]
      rw [hd] at hb hk ⊢
      obtain ⟨b', rfl⟩ : ∃ b', b = b' + 1 := ⟨b - 1, by omega⟩
      simp only [tyToks, and_self, if_true, List.cons_append, List.nil_append, parseAtom]
      exact questions_rep k _ 1 rest hk hr
    · by_cases h2 : a = .one
      · subst h2
        have hc : c ≠ .one := fun h => h1 ⟨rfl, h⟩
        have hd : synDepth (.sum .one c) = synDepth c + 1 := by simp [synDepth, hc]
        have ht : tyToks false (.sum .one c) = tyToks false c ++ [.question] := by simp [tyToks, hc]
        rw [hd] at hb hk ⊢
        rw [ht] at hn ⊢
        simp only [List.length_append, List.length_cons, List.length_nil] at hn
        have := ihc n b (k + 1) rest (by simp only [need]; omega) (by omega) (by omega) hr
        simp only [List.replicate_succ, List.append_assoc, List.cons_append, List.nil_append] at this ⊢
        rw [this]
        simp only [optN]
        have : synDepth c + (k + 1) = synDepth c + 1 + k := by omega
        rw [this]
      · have hd : synDepth (.sum a c) = 1 + max (synDepth a) (synDepth c) := by simp [synDepth, h1, h2]
        have ht : tyToks false (.sum a c) = .lparen :: (tyToks false a ++ [.plus] ++ tyToks false c) ++ [.rparen] := by
          simp [tyToks, h1, h2, paren]
        rw [hd] at hb hk ⊢
        rw [ht] at hn ⊢
        simp only [List.length_append, List.length_cons, List.length_nil] at hn
        obtain ⟨n3, rfl⟩ : ∃ n4, n = (n4 + 1) + 3 := ⟨n - 4, by omega⟩
        obtain ⟨b', rfl⟩ : ∃ b', b = b' + 1 := ⟨b - 1, by omega⟩
        have e1 := iha (n3 + 1 + 1) b' 0 (.plus :: (tyToks false c ++ (.rparen :: (List.replicate k .question ++ rest))))
          (by simp only [need]; omega) (by omega) (by omega) (by intro r h; cases h)
        have e2 := ihc (n3 + 1) b' 0 (.rparen :: (List.replicate k .question ++ rest))
          (by simp only [need]; omega) (by omega) (by omega) (by intro r h; cases h)
        simp only [List.replicate, List.nil_append, optN, Nat.add_zero] at e1 e2
        have hdep : ¬ (1 + max (synDepth a) (synDepth c) > maxDepth) := by omega
        simp only [List.cons_append, List.append_assoc, List.nil_append, parseAtom, parseTy, e1, parseOps, e2,
          hdep, if_false]
        exact questions_rep k _ _ rest hk hr
  | prod a c iha ihc =>
    intro n b k rest hn hb hk hr
    simp only [need] at hn
    cases hw : wordIdx (.prod a c) with
    | some m =>
      have hd : synDepth (.prod a c) = 1 := by simp [synDepth, hw]
      have ht : tyToks false (.prod a c) = [.twoExp (decText (2 ^ m))] := by simp [tyToks, hw]
      have hm : m ≤ 31 ∧ 1 ≤ m ∧ Ty.prod a c = Prog.wordTy m := by
        unfold wordIdx at hw
        cases hi : Prog.isWord (.prod a c) with
        | none => rw [hi] at hw; cases hw
        | some j =>
          rw [hi] at hw
          simp only [] at hw
          split at hw
          · simp only [Option.some.injEq] at hw; subst hw
            have := isWord_eq _ _ hi
            refine ⟨by assumption, ?_, this⟩
            cases j with
            | zero => cases this
            | succ j => omega
          · cases hw
      rw [hd] at hb hk ⊢
      rw [ht] at hn ⊢
      obtain ⟨n', rfl⟩ : ∃ n', n = n' + 1 := ⟨n - 1, by omega⟩
      obtain ⟨b', rfl⟩ : ∃ b', b = b' + 1 := ⟨b - 1, by omega⟩
      simp only [List.cons_append, List.nil_append, parseAtom, twoExp_word m hm.1 hm.2.1]
      rw [hm.2.2]
      exact questions_rep k _ 1 rest hk hr
    | none =>
      have hd : synDepth (.prod a c) = 1 + max (synDepth a) (synDepth c) := by simp [synDepth, hw]
      have ht : tyToks false (.prod a c) = .lparen :: (tyToks false a ++ [.star] ++ tyToks false c) ++ [.rparen] := by
        simp [tyToks, hw, paren]
      rw [hd] at hb hk ⊢
      rw [ht] at hn ⊢
      simp only [List.length_append, List.length_cons, List.length_nil] at hn
      obtain ⟨n3, rfl⟩ : ∃ n4, n = (n4 + 1) + 3 := ⟨n - 4, by omega⟩
      obtain ⟨b', rfl⟩ : ∃ b', b = b' + 1 := ⟨b - 1, by omega⟩
      have e1 := iha (n3 + 1 + 1) b' 0 (.star :: (tyToks false c ++ (.rparen :: (List.replicate k .question ++ rest))))
        (by simp only [need]; omega) (by omega) (by omega) (by intro r h; cases h)
      have e2 := ihc (n3 + 1) b' 0 (.rparen :: (List.replicate k .question ++ rest))
        (by simp only [need]; omega) (by omega) (by omega) (by intro r h; cases h)
      simp only [List.replicate, List.nil_append, optN, Nat.add_zero] at e1 e2
      have hdep : ¬ (1 + max (synDepth a) (synDepth c) > maxDepth) := by omega
      simp only [List.cons_append, List.append_assoc, List.nil_append, parseAtom, parseTy, e1, parseOps, e2,
        hdep, if_false]
      exact questions_rep k _ _ rest hk hr

end HT

namespace HT
open BM4 (Ty)

theorem synDepth_pos (t : Ty) : 1 ≤ synDepth t := by
  cases t with
  | one => simp [synDepth]
  | sum a b =>
    simp only [synDepth]
    split
    · omega
    · split <;> omega
  | prod a b => simp only [synDepth]; split <;> omega

/-- the three shapes of a printed type -/
theorem ty_shape (t : Ty) :
    (tyToks true t = tyToks false t) ∨
    (∃ a c op, tyToks true t = tyToks false a ++ op :: tyToks false c ∧ (op = .plus ∧ t = .sum a c ∨ op = .star ∧ t = .prod a c) ∧
      synDepth t = 1 + max (synDepth a) (synDepth c)) := by
  cases t with
  | one => exact .inl rfl
  | sum a c =>
    by_cases h1 : a = .one ∧ c = .one
    · left; simp [tyToks, h1]
    · by_cases h2 : a = .one
      · left; subst h2
        have hc : c ≠ .one := fun h => h1 ⟨rfl, h⟩
        simp [tyToks, hc]
      · right
        refine ⟨a, c, .plus, ?_, .inl ⟨rfl, rfl⟩, ?_⟩
        · simp [tyToks, h2, paren]
        · simp [synDepth, h2]
  | prod a c =>
    cases hw : wordIdx (.prod a c) with
    | some m => left; simp [tyToks, hw]
    | none =>
      right
      refine ⟨a, c, .star, ?_, .inr ⟨rfl, rfl⟩, ?_⟩
      · simp [tyToks, hw, paren]
      · simp [synDepth, hw]

/-- **type_print_parse, token level**: the tokens of the printed form of a type, at the top of an
arrow (no parentheses at the root), followed by anything that does not continue a type, parse back
to the type — for every type whose printed form is within the parser's nesting limit -/
theorem parseType_print (t : Ty) (rest : List Tok) (hd : synDepth t ≤ maxDepth) (hr : NoOp rest) :
    parseType (tyToks true t ++ rest) = some (t, rest) := by
  have hq : NoQ rest := fun r => (hr r).1
  unfold parseType
  rcases ty_shape t with h | ⟨a, c, op, h, hop, hdep⟩
  · rw [h]
    obtain ⟨f, hf⟩ : ∃ f, 2 * (tyToks false t ++ rest).length + 4 = f + 1 + 1 := ⟨_, rfl⟩
    rw [hf]
    have e := parseAtom_print t (f + 1) maxDepth 0 rest
      (by simp only [need]; simp only [List.length_append] at hf; omega) hd (by omega) hq
    simp only [List.replicate, List.nil_append, optN, Nat.add_zero] at e
    simp only [parseTy, e, parseOps_stop f maxDepth t _ rest hr, Option.map_some]
  · rw [h]
    obtain ⟨f, hf⟩ : ∃ f, 2 * (tyToks false a ++ op :: tyToks false c ++ rest).length + 4 = f + 1 + 1 + 1 := ⟨_, rfl⟩
    rw [hf]
    simp only [List.length_append, List.length_cons] at hf
    have hda : synDepth a ≤ maxDepth := by omega
    have hdc : synDepth c ≤ maxDepth := by omega
    have e1 := parseAtom_print a (f + 1 + 1) maxDepth 0 (op :: (tyToks false c ++ rest))
      (by simp only [need]; omega) hda (by omega)
      (by intro r hh; rcases hop with ⟨rfl, _⟩ | ⟨rfl, _⟩ <;> cases hh)
    have e2 := parseAtom_print c (f + 1) maxDepth 0 rest (by simp only [need]; omega) hdc (by omega) hq
    simp only [List.replicate, List.nil_append, optN, Nat.add_zero] at e1 e2
    have hdep' : ¬ (1 + max (synDepth a) (synDepth c) > maxDepth) := by omega
    rcases hop with ⟨rfl, rfl⟩ | ⟨rfl, rfl⟩
    · simp only [List.append_assoc, List.cons_append, parseTy, e1, parseOps, e2, hdep', if_false,
        parseOps_stop f maxDepth _ _ rest hr, Option.map_some]
    · simp only [List.append_assoc, List.cons_append, parseTy, e1, parseOps, e2, hdep', if_false,
        parseOps_stop f maxDepth _ _ rest hr, Option.map_some]

end HT
