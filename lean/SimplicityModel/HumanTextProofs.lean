/-
C17 — the rendered text parses back: spellings, types at the character level, expressions,
statements, statement lists.
-/
import SimplicityModel.HumanText
import SimplicityModel.HumanLexProofs
import SimplicityModel.HumanTyProofs
namespace HT
open BM4 (Ty)

/-! ### spellings are injective: the decoders invert them -/

theorem hexVal_hexChar : ∀ n, n < 16 → hexVal (hexChar n) = n := by decide

theorem hexChar_lower : ∀ n, n < 16 → isHexLower (hexChar n) = true := by decide

theorem hexVals_hexText (ns : List Nat) (h : ∀ n ∈ ns, n < 16) : hexVals (hexText ns) = ns := by
  induction ns with
  | nil => rfl
  | cons a r ih =>
    simp only [hexText, hexVals, List.map_cons, List.cons.injEq] at ih ⊢
    exact ⟨hexVal_hexChar a (h a (by simp)), ih fun n hn => h n (by simp [hn])⟩

theorem hexText_lower (ns : List Nat) (h : ∀ n ∈ ns, n < 16) : (hexText ns).all isHexLower = true := by
  simp only [hexText, List.all_map, List.all_eq_true]
  exact fun n hn => hexChar_lower n (h n hn)

theorem hexLower_any {c : Char} (h : isHexLower c = true) : isHexAny c = true := by
  simp [isHexAny, h]

theorem bitVals_bitsText (bs : List Bool) : bitVals (bitsText bs) = bs := by
  induction bs with
  | nil => rfl
  | cons b r ih =>
    simp only [bitsText, bitVals, List.map_cons, List.cons.injEq] at ih ⊢
    exact ⟨by cases b <;> decide, ih⟩

theorem bitsText_bin (bs : List Bool) : (bitsText bs).all isBinChar = true := by
  simp only [bitsText, List.all_map, List.all_eq_true]
  intro b _; cases b <;> decide

theorem nibble_bits : ∀ a b c d : Bool,
    bitsOfNibble (8 * b2n a + 4 * b2n b + 2 * b2n c + b2n d) = [a, b, c, d] := by decide

theorem nibble_lt : ∀ a b c d : Bool, 8 * b2n a + 4 * b2n b + 2 * b2n c + b2n d < 16 := by decide

/-- bits → hex digits → bits, when the length is a multiple of four -/
theorem bits_nibbles : ∀ (k : Nat) (bs : List Bool), bs.length = 4 * k →
    bitsOfNibbles (nibblesOfBits bs) = bs ∧ (∀ n ∈ nibblesOfBits bs, n < 16) ∧ (nibblesOfBits bs).length = k
  | 0, bs, h => by
    have : bs = [] := List.eq_nil_of_length_eq_zero (by omega)
    subst this; simp [nibblesOfBits, bitsOfNibbles]
  | k + 1, bs, h => by
    match bs, h with
    | a :: b :: c :: d :: r, h =>
      have hr : r.length = 4 * k := by simp only [List.length_cons] at h; omega
      obtain ⟨i1, i2, i3⟩ := bits_nibbles k r hr
      refine ⟨?_, ?_, ?_⟩
      · simp only [nibblesOfBits, bitsOfNibbles, List.flatMap_cons, nibble_bits] at i1 ⊢
        simp [i1]
      · intro n hn
        simp only [nibblesOfBits, List.mem_cons] at hn
        rcases hn with rfl | hn
        · exact nibble_lt a b c d
        · exact i2 n hn
      · simp [nibblesOfBits, i3]
    | [], h => simp at h
    | [_], h => simp at h; omega
    | [_, _], h => simp at h; omega
    | [_, _, _], h => simp at h; omega

/-! ### printed types, character level -/

theorem twoExp_ok : ∀ n, n ≤ 31 → 1 ≤ n → (Tok.twoExp (decText (2 ^ n))).ok = true := by decide

theorem sep_cons {c : Char} {r : List Char} (h : isDelim c = true) : Sep (c :: r) := .inr ⟨c, r, rfl, h⟩

theorem wordIdx_some {a c : Ty} {m : Nat} (hw : wordIdx (.prod a c) = some m) : m ≤ 31 ∧ 1 ≤ m := by
  unfold wordIdx at hw
  cases hi : Prog.isWord (.prod a c) with
  | none => rw [hi] at hw; cases hw
  | some j =>
    rw [hi] at hw
    simp only [] at hw
    split at hw
    · simp only [Option.some.injEq] at hw; subst hw
      have := isWord_eq _ _ hi
      refine ⟨by assumption, ?_⟩
      cases j with
      | zero => cases this
      | succ j => omega
    · cases hw

/-- **the characters of a printed type lex to its tokens** -/
theorem lex_tyChars (t : Ty) : ∀ (top : Bool) (rest : List Char), Sep rest →
    lex (tyChars top t ++ rest) = (lex rest).map (tyToks top t ++ ·) := by
  induction t with
  | one =>
    intro top rest _
    simp only [tyChars, tyToks]
    exact lex_cons .one rest rfl (.inl rfl)
  | sum a c iha ihc =>
    intro top rest hs
    by_cases h1 : a = .one ∧ c = .one
    · simp only [tyChars, tyToks, h1, and_self, if_true]
      exact lex_cons .two rest rfl (.inr hs)
    · by_cases h2 : a = .one
      · subst h2
        have hc : c ≠ .one := fun h => h1 ⟨rfl, h⟩
        simp only [tyChars, tyToks, hc, and_false, if_false, if_true, List.append_assoc, List.cons_append,
          List.nil_append]
        rw [ihc false _ (sep_cons (c := '?') (by decide))]
        have := lex_cons .question rest rfl (.inl rfl)
        simp only [Tok.text, List.cons_append, List.nil_append] at this
        rw [this, Option.map_map]
        congr 1
      · have e1 : tyChars top (.sum a c) = parenC top (tyChars false a ++ [' ', '+', ' '] ++ tyChars false c) := by
          simp [tyChars, h2]
        have e2 : tyToks top (.sum a c) = paren top (tyToks false a ++ [.plus] ++ tyToks false c) := by
          simp [tyToks, h2]
        rw [e1, e2]
        have inner : ∀ rest', Sep rest' → lex (tyChars false a ++ [' ', '+', ' '] ++ tyChars false c ++ rest') =
            (lex rest').map ((tyToks false a ++ [.plus] ++ tyToks false c) ++ ·) := by
          intro rest' hs'
          simp only [List.append_assoc, List.cons_append, List.nil_append]
          rw [iha false _ (sep_cons (c := ' ') (by decide)), lex_ws ' ' _ (by decide)]
          have := lex_cons .plus (' ' :: (tyChars false c ++ rest')) rfl (.inl rfl)
          simp only [Tok.text, List.cons_append, List.nil_append] at this
          rw [this, lex_ws ' ' _ (by decide), ihc false _ hs', Option.map_map, Option.map_map]
          congr 1
        cases top with
        | true => simp only [parenC, paren, if_true]; exact inner rest hs
        | false =>
          simp only [parenC, paren, Bool.false_eq_true, if_false, List.cons_append, List.append_assoc,
            List.nil_append]
          have l1 := lex_cons .lparen (tyChars false a ++ ([' ', '+', ' '] ++ (tyChars false c ++ (')' :: rest)))) rfl (.inl rfl)
          simp only [Tok.text, List.cons_append, List.nil_append] at l1
          rw [l1]
          have := inner (')' :: rest) (sep_cons (by decide))
          simp only [List.append_assoc, List.cons_append, List.nil_append] at this
          rw [this]
          have l2 := lex_cons .rparen rest rfl (.inl rfl)
          simp only [Tok.text, List.cons_append, List.nil_append] at l2
          rw [l2, Option.map_map, Option.map_map]
          congr 1
  | prod a c iha ihc =>
    intro top rest hs
    cases hw : wordIdx (.prod a c) with
    | some m =>
      obtain ⟨hm1, hm2⟩ := wordIdx_some hw
      simp only [tyChars, tyToks, hw, List.cons_append, List.nil_append]
      have := lex_cons (.twoExp (decText (2 ^ m))) rest (twoExp_ok m hm1 hm2) (.inr hs)
      simp only [Tok.text, List.cons_append] at this
      exact this
    | none =>
      have e1 : tyChars top (.prod a c) = parenC top (tyChars false a ++ [' ', '*', ' '] ++ tyChars false c) := by
        simp [tyChars, hw]
      have e2 : tyToks top (.prod a c) = paren top (tyToks false a ++ [.star] ++ tyToks false c) := by
        simp [tyToks, hw]
      rw [e1, e2]
      have inner : ∀ rest', Sep rest' → lex (tyChars false a ++ [' ', '*', ' '] ++ tyChars false c ++ rest') =
          (lex rest').map ((tyToks false a ++ [.star] ++ tyToks false c) ++ ·) := by
        intro rest' hs'
        simp only [List.append_assoc, List.cons_append, List.nil_append]
        rw [iha false _ (sep_cons (c := ' ') (by decide)), lex_ws ' ' _ (by decide)]
        have := lex_cons .star (' ' :: (tyChars false c ++ rest')) rfl (.inl rfl)
        simp only [Tok.text, List.cons_append, List.nil_append] at this
        rw [this, lex_ws ' ' _ (by decide), ihc false _ hs', Option.map_map, Option.map_map]
        congr 1
      cases top with
      | true => simp only [parenC, paren, if_true]; exact inner rest hs
      | false =>
        simp only [parenC, paren, Bool.false_eq_true, if_false, List.cons_append, List.append_assoc,
          List.nil_append]
        have l1 := lex_cons .lparen (tyChars false a ++ ([' ', '*', ' '] ++ (tyChars false c ++ (')' :: rest)))) rfl (.inl rfl)
        simp only [Tok.text, List.cons_append, List.nil_append] at l1
        rw [l1]
        have := inner (')' :: rest) (sep_cons (by decide))
        simp only [List.append_assoc, List.cons_append, List.nil_append] at this
        rw [this]
        have l2 := lex_cons .rparen rest rfl (.inl rfl)
        simp only [Tok.text, List.cons_append, List.nil_append] at l2
        rw [l2, Option.map_map, Option.map_map]
        congr 1


/-! ### expressions -/

/-- tokens separated by single spaces -/
def spacedAux : Tok → List Tok → List Char
  | t, [] => t.text
  | t, u :: ts => t.text ++ ' ' :: spacedAux u ts

def spaced : List Tok → List Char
  | [] => []
  | t :: ts => spacedAux t ts

theorem lex_spacedAux : ∀ (ts : List Tok) (t : Tok) (rest : List Char), t.ok = true → (∀ u ∈ ts, u.ok = true) →
    Sep rest → lex (spacedAux t ts ++ rest) = (lex rest).map (t :: ts ++ ·)
  | [], t, rest, ht, _, hs => by
    simp only [spacedAux]
    exact lex_cons t rest ht (.inr hs)
  | u :: ts, t, rest, ht, hok, hs => by
    simp only [spacedAux, List.append_assoc, List.cons_append]
    rw [lex_cons t _ ht (.inr (sep_cons (c := ' ') (by decide))), lex_ws ' ' _ (by decide)]
    rw [lex_spacedAux ts u rest (hok u (by simp)) (fun x hx => hok x (by simp [hx])) hs, Option.map_map]
    congr 1

theorem lex_spaced (ts : List Tok) (rest : List Char) (hne : ts ≠ []) (hok : ∀ t ∈ ts, t.ok = true)
    (hs : Sep rest) : lex (spaced ts ++ rest) = (lex rest).map (ts ++ ·) := by
  cases ts with
  | nil => exact absurd rfl hne
  | cons t ts =>
    exact lex_spacedAux ts t rest (hok t (by simp)) (fun u hu => hok u (by simp [hu])) hs

/-- the names and payloads of an expression are spelled in the token alphabets -/
def Expr.wf : Expr → Prop
  | .iden | .unit | .witness => True
  | .injl c | .injr c | .take c | .drop c => symOK c = true
  | .comp a b | .case a b | .pair a b => symOK a = true ∧ symOK b = true
  | .assertl a h => symOK a = true ∧ h.length = 64 ∧ ∀ n ∈ h, n < 16
  | .assertr h b => symOK b = true ∧ h.length = 64 ∧ ∀ n ∈ h, n < 16
  | .disconnect a hole => symOK a = true ∧ symOK hole = true
  | .fail e => e.length = 128 ∧ ∀ n ∈ e, n < 16
  | .jet n => (!n.isEmpty && n.all isJetChar) = true
  | .word n bits => bits.length = 2 ^ n ∧ n ≤ 31

theorem hexText_any (ns : List Nat) (h : ∀ n ∈ ns, n < 16) : (hexText ns).all isHexAny = true := by
  have := hexText_lower ns h
  simp only [List.all_eq_true] at this ⊢
  exact fun c hc => hexLower_any (this c hc)

theorem cmr_ok (h : List Nat) (hl : h.length = 64) (hh : ∀ n ∈ h, n < 16) : (Tok.cmr (hexText h)).ok = true := by
  simp only [Tok.ok, hexText, List.length_map, hl, beq_self_eq_true, Bool.true_and]
  exact hexText_any h hh

theorem two_pow_pos (n : Nat) : 0 < 2 ^ n := Nat.two_pow_pos n

theorem wordTok_text (n : Nat) (bits : List Bool) : (wordTok n bits).text = wordChars n bits := by
  unfold wordTok wordChars; split <;> rfl

theorem wordTok_ok (n : Nat) (bits : List Bool) (hl : bits.length = 2 ^ n) : (wordTok n bits).ok = true := by
  have hp := two_pow_pos n
  unfold wordTok
  split
  · rename_i h3
    obtain ⟨k, hk⟩ : ∃ k, 2 ^ n = 4 * k := ⟨2 ^ (n - 2), by
      have : n = (n - 2) + 2 := by omega
      rw [this, Nat.pow_add]; simp; omega⟩
    obtain ⟨_, i2, i3⟩ := bits_nibbles k bits (by omega)
    simp only [Tok.ok, Bool.and_eq_true, Bool.not_eq_true', List.isEmpty_eq_false_iff]
    refine ⟨?_, hexText_lower _ i2⟩
    intro h
    have : (hexText (nibblesOfBits bits)).length = k := by simp [hexText, i3]
    rw [h] at this; simp at this; omega
  · simp only [Tok.ok, Bool.and_eq_true, Bool.not_eq_true', List.isEmpty_eq_false_iff]
    refine ⟨?_, bitsText_bin bits⟩
    intro h
    have : (bitsText bits).length = 2 ^ n := by simp [bitsText, hl]
    rw [h] at this; simp at this; omega

theorem fail_ok (e : List Nat) (hl : e.length = 128) (hh : ∀ n ∈ e, n < 16) : (Tok.hex (hexText e)).ok = true := by
  simp only [Tok.ok, Bool.and_eq_true, Bool.not_eq_true', List.isEmpty_eq_false_iff]
  refine ⟨?_, hexText_lower e hh⟩
  intro h
  have : (hexText e).length = 128 := by simp [hexText, hl]
  rw [h] at this; simp at this

theorem kw_ok (k : Kw) : (Tok.kw k).ok = true := rfl

/-- **the characters of a rendered expression lex to its tokens** -/
theorem lex_exprChars (e : Expr) (rest : List Char) (hw : e.wf) (hs : Sep rest) :
    lex (exprChars e ++ rest) = (lex rest).map (exprToks e ++ ·) := by
  have sp : ∀ ts : List Tok, ts ≠ [] → (∀ t ∈ ts, t.ok = true) →
      lex (spaced ts ++ rest) = (lex rest).map (ts ++ ·) := fun ts h1 h2 => lex_spaced ts rest h1 h2 hs
  cases e with
  | iden => exact sp [.kw .iden] (by simp) (by simp [kw_ok])
  | unit => exact sp [.kw .unit] (by simp) (by simp [kw_ok])
  | witness => exact sp [.kw .witness] (by simp) (by simp [kw_ok])
  | injl c => exact sp [.kw .injl, .sym c] (by simp) (by simpa [kw_ok, Tok.ok, Expr.wf] using hw)
  | injr c => exact sp [.kw .injr, .sym c] (by simp) (by simpa [kw_ok, Tok.ok, Expr.wf] using hw)
  | take c => exact sp [.kw .take, .sym c] (by simp) (by simpa [kw_ok, Tok.ok, Expr.wf] using hw)
  | drop c => exact sp [.kw .drop, .sym c] (by simp) (by simpa [kw_ok, Tok.ok, Expr.wf] using hw)
  | comp a b => exact sp [.kw .comp, .sym a, .sym b] (by simp) (by simpa [kw_ok, Tok.ok, Expr.wf] using hw)
  | case a b => exact sp [.kw .case, .sym a, .sym b] (by simp) (by simpa [kw_ok, Tok.ok, Expr.wf] using hw)
  | pair a b => exact sp [.kw .pair, .sym a, .sym b] (by simp) (by simpa [kw_ok, Tok.ok, Expr.wf] using hw)
  | assertl a h =>
    obtain ⟨h1, h2, h3⟩ := hw
    have := sp [.kw .assertl, .sym a, .cmr (hexText h)] (by simp) (by
      intro t ht; simp only [List.mem_cons, List.mem_nil_iff, or_false] at ht
      rcases ht with rfl | rfl | rfl
      · rfl
      · exact h1
      · exact cmr_ok h h2 h3)
    exact this
  | assertr h b =>
    obtain ⟨h1, h2, h3⟩ := hw
    have := sp [.kw .assertr, .cmr (hexText h), .sym b] (by simp) (by
      intro t ht; simp only [List.mem_cons, List.mem_nil_iff, or_false] at ht
      rcases ht with rfl | rfl | rfl
      · rfl
      · exact cmr_ok h h2 h3
      · exact h1)
    exact this
  | disconnect a hole =>
    obtain ⟨h1, h2⟩ := hw
    simp only [exprChars, exprToks, List.append_assoc, List.cons_append, List.nil_append]
    have l1 := lex_spaced [.kw .disconnect, .sym a] (' ' :: '?' :: (hole ++ rest)) (by simp)
      (by intro t ht; simp only [List.mem_cons, List.mem_nil_iff, or_false] at ht
          rcases ht with rfl | rfl
          · rfl
          · exact h1) (sep_cons (by decide))
    simp only [spaced, spacedAux, Tok.text, Kw.text, List.cons_append, List.nil_append] at l1
    have l2 := lex_cons .question (hole ++ rest) rfl (.inl rfl)
    simp only [Tok.text, List.cons_append, List.nil_append] at l2
    have l3 := lex_cons (.sym hole) rest h2 (.inr hs)
    simp only [Tok.text] at l3
    simp only [Kw.text, List.cons_append, List.nil_append]
    rw [l1, lex_ws ' ' _ (by decide), l2, l3, Option.map_map, Option.map_map]
    congr 1
  | fail e =>
    obtain ⟨h1, h2⟩ := hw
    exact sp [.kw .fail, .hex (hexText e)] (by simp) (by
      intro t ht; simp only [List.mem_cons, List.mem_nil_iff, or_false] at ht
      rcases ht with rfl | rfl
      · rfl
      · exact fail_ok e h1 h2)
  | jet n =>
    have : (Tok.jet n).ok = true := hw
    exact sp [.jet n] (by simp) (by simpa using this)
  | word n bits =>
    obtain ⟨h1, _⟩ := hw
    have := sp [.kw .const, wordTok n bits] (by simp) (by
      intro t ht; simp only [List.mem_cons, List.mem_nil_iff, or_false] at ht
      rcases ht with rfl | rfl
      · rfl
      · exact wordTok_ok n bits h1)
    simp only [spaced, spacedAux, wordTok_text] at this
    exact this


/-! ### statements, character level -/

/-- **the characters of a rendered statement lex to its tokens** -/
theorem lex_stmtChars (s : Stmt) (rest : List Char) (hn : symOK s.name = true) (hw : s.expr.wf) (hs : Sep rest) :
    lex (stmtChars s ++ rest) = (lex rest).map (stmtToks s ++ ·) := by
  have sp : ∀ r, Sep (' ' :: r) := fun r => sep_cons (by decide)
  simp only [stmtChars, stmtToks, List.append_assoc, List.cons_append]
  have l1 := lex_cons (.sym s.name) (' ' :: ':' :: '=' :: ' ' :: (exprChars s.expr ++ ' ' :: ':' :: ' ' :: (tyChars true s.src ++
    ' ' :: '-' :: '>' :: ' ' :: (tyChars true s.tgt ++ rest)))) hn (.inr (sp _))
  simp only [Tok.text] at l1
  rw [l1, lex_ws ' ' _ (by decide)]
  have l2 := lex_cons .assign (' ' :: (exprChars s.expr ++ ' ' :: ':' :: ' ' :: (tyChars true s.src ++
    ' ' :: '-' :: '>' :: ' ' :: (tyChars true s.tgt ++ rest)))) rfl (.inl rfl)
  simp only [Tok.text, List.cons_append, List.nil_append] at l2
  rw [l2, lex_ws ' ' _ (by decide), lex_exprChars s.expr _ hw (sp _), lex_ws ' ' _ (by decide)]
  have l3 := lex_cons .colon (' ' :: (tyChars true s.src ++ ' ' :: '-' :: '>' :: ' ' :: (tyChars true s.tgt ++ rest))) rfl
    (.inr (sp _))
  simp only [Tok.text, List.cons_append, List.nil_append] at l3
  rw [l3, lex_ws ' ' _ (by decide), lex_tyChars s.src true _ (sp _), lex_ws ' ' _ (by decide)]
  have l4 := lex_cons .arrow (' ' :: (tyChars true s.tgt ++ rest)) rfl (.inl rfl)
  simp only [Tok.text, List.cons_append, List.nil_append] at l4
  rw [l4, lex_ws ' ' _ (by decide), lex_tyChars s.tgt true rest hs]
  simp only [Option.map_map]
  congr 1

/-- what the lexer needs of a statement -/
def Stmt.wf (s : Stmt) : Prop := symOK s.name = true ∧ s.expr.wf

/-- **the rendered text lexes to the tokens of its statements** -/
theorem lex_textChars : ∀ (ss : List Stmt), (∀ s ∈ ss, s.wf) → lex (textChars ss) = some (textToks ss)
  | [], _ => lex_nil
  | s :: ss, h => by
    simp only [textChars, textToks]
    have hs := h s (by simp)
    rw [lex_stmtChars s _ hs.1 hs.2 (sep_cons (c := '\n') (by decide)), lex_ws '\n' _ (by decide),
      lex_textChars ss (fun x hx => h x (by simp [hx]))]
    rfl

/-! ### statements, token level -/

theorem nibbles_bits : ∀ (ns : List Nat), (∀ n ∈ ns, n < 16) → nibblesOfBits (bitsOfNibbles ns) = ns
  | [], _ => rfl
  | n :: ns, h => by
    have hn := h n (by simp)
    have ih := nibbles_bits ns (fun x hx => h x (by simp [hx]))
    simp only [bitsOfNibbles, List.flatMap_cons, bitsOfNibble, List.cons_append, List.nil_append, nibblesOfBits] at ih ⊢
    rw [ih]
    congr 1
    have : ∀ n, n < 16 → 8 * b2n (n / 8 % 2 == 1) + 4 * b2n (n / 4 % 2 == 1) + 2 * b2n (n / 2 % 2 == 1) + b2n (n % 2 == 1) = n := by
      decide
    exact this n hn

theorem bitsOfNibbles_length (ns : List Nat) : (bitsOfNibbles ns).length = 4 * ns.length := by
  induction ns with
  | nil => rfl
  | cons n ns ih => simp only [bitsOfNibbles, List.flatMap_cons, List.length_append, bitsOfNibble, List.length_cons,
      List.length_nil] at ih ⊢; omega

/-- the payload conditions under which the parser's decoders invert the spellings -/
def Expr.payloadOk (isJet : List Char → Bool) : Expr → Prop
  | .assertl _ h | .assertr h _ => ∀ n ∈ h, n < 16
  | .fail e => e.length = 128 ∧ ∀ n ∈ e, n < 16
  | .jet n => isJet n = true
  | .word n bits => bits.length = 2 ^ n ∧ n ≤ 31
  | _ => True

theorem word_roundtrip (n : Nat) (bits : List Bool) (hl : bits.length = 2 ^ n) (hn : n ≤ 31) :
    wordOfLiteral (wordTok n bits) = some (.word n bits) := by
  have hpow : isPow2 (2 ^ n) = true := by
    have := two_pow_pos n
    simp [isPow2, Nat.log2_two_pow]
  have hle : 2 ^ n ≤ 2 ^ 31 := Nat.pow_le_pow_right (by decide) hn
  unfold wordTok
  split
  · rename_i h3
    obtain ⟨k, hk⟩ : ∃ k, 2 ^ n = 4 * k := ⟨2 ^ (n - 2), by
      have : n = (n - 2) + 2 := by omega
      rw [this, Nat.pow_add]; simp; omega⟩
    obtain ⟨i1, i2, _⟩ := bits_nibbles k bits (by omega)
    simp only [wordOfLiteral, literalBits, hexVals_hexText _ i2, i1, hl, hpow, Bool.true_and, decide_eq_true_eq, hle,
      if_true, Nat.log2_two_pow]
  · simp only [wordOfLiteral, literalBits, bitVals_bitsText, hl, hpow, Bool.true_and, decide_eq_true_eq, hle,
      if_true, Nat.log2_two_pow]

theorem fail_roundtrip (e : List Nat) (hl : e.length = 128) (hh : ∀ n ∈ e, n < 16) :
    failOfLiteral (.hex (hexText e)) = some (.fail e) := by
  have h1 : (bitsOfNibbles e).length = 512 := by rw [bitsOfNibbles_length, hl]
  simp only [failOfLiteral, literalBits, hexVals_hexText e hh, h1, Nat.sub_self, List.replicate, List.append_nil,
    nibbles_bits e hh]
  rfl

/-- **the tokens of a rendered expression parse back to it** -/
theorem parseExpr_toks (isJet : List Char → Bool) (e : Expr) (rest : List Tok) (hp : e.payloadOk isJet) :
    parseExpr isJet (exprToks e ++ rest) = some (e, rest) := by
  cases e with
  | assertl a h => simp only [exprToks, List.cons_append, List.nil_append, parseExpr, hexVals_hexText h hp]
  | assertr h b => simp only [exprToks, List.cons_append, List.nil_append, parseExpr, hexVals_hexText h hp]
  | fail e =>
    simp only [exprToks, List.cons_append, List.nil_append, parseExpr, fail_roundtrip e hp.1 hp.2, Option.map_some]
  | jet n =>
    have : isJet n = true := hp
    simp only [exprToks, List.cons_append, List.nil_append, parseExpr, this, if_true]
  | word n bits =>
    simp only [exprToks, List.cons_append, List.nil_append, parseExpr, word_roundtrip n bits hp.1 hp.2, Option.map_some]
  | _ => simp only [exprToks, List.cons_append, List.nil_append, parseExpr]

/-- what may follow a statement: nothing or the name of the next one -/
def StmtEnd (rest : List Tok) : Prop := rest = [] ∨ ∃ n r, rest = .sym n :: r

theorem stmtEnd_noOp {rest : List Tok} (h : StmtEnd rest) : NoOp rest := by
  intro r
  rcases h with rfl | ⟨n, q, rfl⟩
  · exact ⟨by simp, by simp, by simp⟩
  · exact ⟨by simp, by simp, by simp⟩

/-- **the tokens of a rendered statement parse back to it** -/
theorem parseStmt_toks (isJet : List Char → Bool) (s : Stmt) (rest : List Tok) (hp : s.expr.payloadOk isJet)
    (h1 : synDepth s.src ≤ maxDepth) (h2 : synDepth s.tgt ≤ maxDepth) (hr : StmtEnd rest) :
    parseStmt isJet (stmtToks s ++ rest) = some (s, rest) := by
  simp only [stmtToks, List.cons_append, List.append_assoc, parseStmt]
  rw [parseExpr_toks isJet s.expr _ hp]
  simp only []
  rw [parseType_print s.src _ h1 (by intro r; exact ⟨by simp, by simp, by simp⟩)]
  simp only []
  rw [parseType_print s.tgt rest h2 (stmtEnd_noOp hr)]


/-! ### statement lists -/

theorem textToks_end (ss : List Stmt) : StmtEnd (textToks ss) := by
  cases ss with
  | nil => exact .inl rfl
  | cons s ss => exact .inr ⟨s.name, _, by simp only [textToks, stmtToks, List.cons_append]; rfl⟩

/-- the conditions on one statement: names and payloads in the token alphabets, the jet known,
both types within the parser's nesting limit -/
def Stmt.good (isJet : List Char → Bool) (s : Stmt) : Prop :=
  s.wf ∧ s.expr.payloadOk isJet ∧ synDepth s.src ≤ maxDepth ∧ synDepth s.tgt ≤ maxDepth

theorem parseStmts_toks (isJet : List Char → Bool) : ∀ (ss : List Stmt), (∀ s ∈ ss, s.good isJet) →
    ∀ f, (textToks ss).length + 1 ≤ f → parseStmts isJet f (textToks ss) = some ss
  | [], _, f, hf => by
    obtain ⟨f', rfl⟩ : ∃ f', f = f' + 1 := ⟨f - 1, by omega⟩
    simp [textToks, parseStmts]
  | s :: ss, h, f, hf => by
    obtain ⟨f', rfl⟩ : ∃ f', f = f' + 1 := ⟨f - 1, by omega⟩
    obtain ⟨_, hp, h1, h2⟩ := h s (by simp)
    have hps := parseStmt_toks isJet s (textToks ss) hp h1 h2 (textToks_end ss)
    have hlen : (textToks ss).length + 1 ≤ f' := by
      simp only [textToks, stmtToks, List.length_append, List.length_cons] at hf; omega
    have ih := parseStmts_toks isJet ss (fun x hx => h x (by simp [hx])) f' hlen
    simp only [textToks]
    simp only [stmtToks, List.cons_append] at hps ⊢
    rw [parseStmts]
    · rw [hps]; simp only [ih, Option.map_some]
    · intro hh; cases hh

/-- **parse_render**: parsing the rendering of a statement list gives back the statement list -/
theorem parseRendered_textChars (isJet : List Char → Bool) (ss : List Stmt) (h : ∀ s ∈ ss, s.good isJet) :
    parseRendered isJet (textChars ss) = some ss := by
  unfold parseRendered
  rw [lex_textChars ss (fun s hs => (h s hs).1)]
  exact parseStmts_toks isJet ss h _ (Nat.le_refl _)


end HT
