import SimplicityModel.IterTie
set_option linter.unusedSectionVars false
set_option linter.unusedVariables false
/-
C18 — the class table of the identity-hash policy is *checked*, not trusted: `certB nodes tbl`
verifies (quadratically) that a node has a class iff it has a signature (own tag + classes of the
children) and that two nodes have the same class iff they have the same signature.  `cert_sound`:
every table that passes induces exactly the sharing classes of the structural key `shape`.  The
driver refuses a `hash` operation whose table (computed by `classify`) does not pass.
-/
namespace PO

/-- `sigOf` over a class function -/
def sigF (cls : Nat → Option Nat) (tag : Option Nat) (s : Sh) : Option Sig :=
  match tag, s with
  | none, _ => none
  | some t, .leaf => some (t, none, none)
  | some t, .un j => match cls j with
    | some a => some (t, some a, none)
    | none => none
  | some t, .bin j k => match cls j, cls k with
    | some a, some b => some (t, some a, some b)
    | _, _ => none

theorem sigOf_eq_sigF (tbl : Array (Option Nat)) (tag : Option Nat) (s : Sh) :
    sigOf tbl tag s = sigF (fun i => tbl.getD i none) tag s := by
  cases tag <;> cases s <;> rfl

/-- the structure of node `i` in terms of the structures of its children -/
def shapeStep (tag : Option Nat) (S : Nat → Option Shp) (s : Sh) : Option Shp :=
  match s with
  | .leaf => tag.map Shp.leaf
  | .un j => match tag, S j with
    | some a, some x => some (.un a x)
    | _, _ => none
  | .bin j k => match tag, S j, S k with
    | some a, some x, some y => some (.bin a x y)
    | _, _, _ => none

def backOK (i : Nat) : Sh → Prop
  | .leaf => True
  | .un j => j < i
  | .bin j k => j < i ∧ k < i

section Abstract
variable (n : Nat) (sh : Nat → Sh) (tag : Nat → Option Nat) (cls : Nat → Option Nat) (S : Nat → Option Shp)
  (hback : ∀ i, i < n → backOK i (sh i))
  (hS : ∀ i, i < n → S i = shapeStep (tag i) S (sh i))
  (hA : ∀ i, i < n → (cls i).isSome = (sigF cls (tag i) (sh i)).isSome)
  (hB : ∀ i j, j < i → i < n → ∀ a b, cls i = some a → cls j = some b →
    (a = b ↔ sigF cls (tag i) (sh i) = sigF cls (tag j) (sh j)))

include hback hS hA in
theorem cls_none_iff : ∀ i, i < n → (cls i = none ↔ S i = none) := by
  intro i
  induction i using Nat.strongRecOn with
  | _ i ih =>
    intro hi
    have h1 : cls i = none ↔ sigF cls (tag i) (sh i) = none := by
      have := hA i hi
      cases hc : cls i <;> cases hs : sigF cls (tag i) (sh i) <;> rw [hc, hs] at this <;> simp_all
    rw [h1, hS i hi]
    have hb := hback i hi
    cases hsh : sh i with
    | leaf => cases tag i <;> simp [sigF, shapeStep]
    | un j =>
      rw [hsh] at hb
      have := ih j hb (by simp only [backOK] at hb; omega)
      cases ht : tag i with
      | none => simp [sigF, shapeStep]
      | some t =>
        cases hcj : cls j with
        | none => have := this.1 hcj; simp [sigF, shapeStep, hcj, this]
        | some c =>
          cases hsj : S j with
          | none => have := this.2 hsj; rw [hcj] at this; cases this
          | some x => simp [sigF, shapeStep, hcj, hsj]
    | bin j k =>
      rw [hsh] at hb
      simp only [backOK] at hb
      have hj := ih j hb.1 (by omega)
      have hk := ih k hb.2 (by omega)
      cases ht : tag i with
      | none => simp [sigF, shapeStep]
      | some t =>
        cases hcj : cls j with
        | none => have := hj.1 hcj; simp [sigF, shapeStep, hcj, this]
        | some c =>
          cases hsj : S j with
          | none => have := hj.2 hsj; rw [hcj] at this; cases this
          | some x =>
            cases hck : cls k with
            | none => have := hk.1 hck; simp [sigF, shapeStep, hcj, hsj, hck, this]
            | some d =>
              cases hsk : S k with
              | none => have := hk.2 hsk; rw [hck] at this; cases this
              | some y => simp [sigF, shapeStep, hcj, hsj, hck, hsk]

/-- what a node with a class looks like -/
inductive Info (i : Nat) (sgi : Option Sig) (Si : Option Shp) : Prop
  | leaf (t : Nat) : sgi = some (t, none, none) → Si = some (.leaf t) → Info i sgi Si
  | un (t j c : Nat) (x : Shp) : j < i → cls j = some c → S j = some x →
      sgi = some (t, some c, none) → Si = some (.un t x) → Info i sgi Si
  | bin (t j k c d : Nat) (x y : Shp) : j < i → k < i → cls j = some c → cls k = some d →
      S j = some x → S k = some y → sgi = some (t, some c, some d) → Si = some (.bin t x y) → Info i sgi Si

include hback hS hA in
theorem node_info (i : Nat) (hi : i < n) (a : Nat) (hc : cls i = some a) :
    Info cls S i (sigF cls (tag i) (sh i)) (S i) := by
  have hnone := cls_none_iff n sh tag cls S hback hS hA
  have hsome : (sigF cls (tag i) (sh i)).isSome := by
    have := hA i hi; rw [hc] at this; simpa using this.symm
  have hb := hback i hi
  rw [hS i hi]
  cases hsh : sh i with
  | leaf =>
    rw [hsh] at hsome
    cases ht : tag i with
    | none => rw [ht] at hsome; simp [sigF] at hsome
    | some t => exact .leaf t rfl rfl
  | un j =>
    rw [hsh] at hsome hb
    simp only [backOK] at hb
    cases ht : tag i with
    | none => rw [ht] at hsome; simp [sigF] at hsome
    | some t =>
      rw [ht] at hsome
      cases hcj : cls j with
      | none => simp [sigF, hcj] at hsome
      | some c =>
        cases hsj : S j with
        | none => have := (hnone j (by omega)).2 hsj; rw [hcj] at this; cases this
        | some x => exact .un t j c x hb hcj hsj (by simp [sigF, hcj]) (by simp [shapeStep, hsj])
  | bin j k =>
    rw [hsh] at hsome hb
    simp only [backOK] at hb
    cases ht : tag i with
    | none => rw [ht] at hsome; simp [sigF] at hsome
    | some t =>
      rw [ht] at hsome
      cases hcj : cls j with
      | none => simp [sigF, hcj] at hsome
      | some c =>
        cases hck : cls k with
        | none => simp [sigF, hcj, hck] at hsome
        | some d =>
          cases hsj : S j with
          | none => have := (hnone j (by omega)).2 hsj; rw [hcj] at this; cases this
          | some x =>
            cases hsk : S k with
            | none => have := (hnone k (by omega)).2 hsk; rw [hck] at this; cases this
            | some y =>
              exact .bin t j k c d x y hb.1 hb.2 hcj hck hsj hsk (by simp [sigF, hcj, hck])
                (by simp [shapeStep, hsj, hsk])

include hback hS hA hB in
theorem cls_eq_iff : ∀ (m i j : Nat), i + j = m → i < n → j < n → ∀ a b, cls i = some a → cls j = some b →
    (a = b ↔ S i = S j) := by
  intro m
  induction m using Nat.strongRecOn with
  | _ m ih =>
    intro i j hm hi hj a b ha hb
    by_cases hij : i = j
    · subst hij
      rw [ha] at hb; cases hb
      simp
    -- same class ↔ same signature
    have hsig : a = b ↔ sigF cls (tag i) (sh i) = sigF cls (tag j) (sh j) := by
      rcases Nat.lt_or_gt_of_ne hij with h | h
      · have := hB j i h hj b a hb ha
        constructor
        · intro e; exact (this.1 e.symm).symm
        · intro e; exact (this.2 e.symm).symm
      · exact hB i j h hi a b ha hb
    rw [hsig]
    have ii := node_info n sh tag cls S hback hS hA i hi a ha
    have ij := node_info n sh tag cls S hback hS hA j hj b hb
    -- same signature ↔ same structure, children by induction
    have kid : ∀ i' j' c c' x x', i' < i → j' < j → cls i' = some c → cls j' = some c' →
        S i' = some x → S j' = some x' → (c = c' ↔ x = x') := by
      intro i' j' c c' x x' h1 h2 hc hc' hx hx'
      have := ih (i' + j') (by omega) i' j' rfl (by omega) (by omega) c c' hc hc'
      rw [this, hx, hx']; simp
    cases ii with
    | leaf t hs hS1 =>
      cases ij with
      | leaf t' hs' hS2 => rw [hs, hs', hS1, hS2]; simp
      | un t' j' c' x' _ _ _ hs' hS2 => rw [hs, hs', hS1, hS2]; simp
      | bin t' j' k' c' d' x' y' _ _ _ _ _ _ hs' hS2 => rw [hs, hs', hS1, hS2]; simp
    | un t i1 c x h1 hc hx hs hS1 =>
      cases ij with
      | leaf t' hs' hS2 => rw [hs, hs', hS1, hS2]; simp
      | un t' j1 c' x' h1' hc' hx' hs' hS2 =>
        rw [hs, hs', hS1, hS2]
        have := kid i1 j1 c c' x x' h1 h1' hc hc' hx hx'
        simp [this]
      | bin t' j' k' c' d' x' y' _ _ _ _ _ _ hs' hS2 => rw [hs, hs', hS1, hS2]; simp
    | bin t i1 i2 c d x y h1 h2 hc hd hx hy hs hS1 =>
      cases ij with
      | leaf t' hs' hS2 => rw [hs, hs', hS1, hS2]; simp
      | un t' j' c' x' _ _ _ hs' hS2 => rw [hs, hs', hS1, hS2]; simp
      | bin t' j1 j2 c' d' x' y' h1' h2' hc' hd' hx' hy' hs' hS2 =>
        rw [hs, hs', hS1, hS2]
        have e1 := kid i1 j1 c c' x x' h1 h1' hc hc' hx hx'
        have e2 := kid i2 j2 d d' y y' h2 h2' hd hd' hy hy'
        simp [e1, e2]

include hback hS hA hB in
/-- the class table and the structures induce the same sharing classes -/
theorem classes_eq_shapes (i j : Nat) (hi : i < n) (hj : j < n) :
    (∃ k, cls i = some k ∧ cls j = some k) ↔ (∃ s, S i = some s ∧ S j = some s) := by
  have hnone := cls_none_iff n sh tag cls S hback hS hA
  constructor
  · rintro ⟨k, h1, h2⟩
    have := (cls_eq_iff n sh tag cls S hback hS hA hB (i + j) i j rfl hi hj k k h1 h2).1 rfl
    cases hs : S i with
    | none => have := (hnone i hi).2 hs; rw [h1] at this; cases this
    | some s => exact ⟨s, rfl, by rw [← this, hs]⟩
  · rintro ⟨s, h1, h2⟩
    cases hc : cls i with
    | none => have := (hnone i hi).1 hc; rw [h1] at this; cases this
    | some a =>
      cases hc' : cls j with
      | none => have := (hnone j hj).1 hc'; rw [h2] at this; cases this
      | some b =>
        have := (cls_eq_iff n sh tag cls S hback hS hA hB (i + j) i j rfl hi hj a b hc hc').2 (by rw [h1, h2])
        exact ⟨a, rfl, by rw [this]⟩

end Abstract

/-! ### the check on a node list -/

def tagOf (nodes : List (Option Nat × Sh)) : Nat → Option Nat := fun i => (nodes[i]?).bind (·.1)
def shOf (nodes : List (Option Nat × Sh)) : Nat → Sh := fun i => ((nodes[i]?).map (·.2)).getD .leaf

/-- does the class table `tbl` classify the nodes by (tag, classes of the children)? -/
def certB (nodes : List (Option Nat × Sh)) (tbl : Array (Option Nat)) : Bool :=
  let sigs : Array (Option Sig) := (nodes.map fun x => sigOf tbl x.1 x.2).toArray
  (List.range nodes.length).all fun i =>
    ((tbl.getD i none).isSome == (sigs.getD i none).isSome) &&
    (List.range i).all fun j =>
      match tbl.getD i none, tbl.getD j none with
      | some a, some b => (decide (a = b)) == (decide (sigs.getD i none = sigs.getD j none))
      | _, _ => true

theorem sigs_getD (nodes : List (Option Nat × Sh)) (tbl : Array (Option Nat)) (i : Nat) (hi : i < nodes.length) :
    ((nodes.map fun x => sigOf tbl x.1 x.2).toArray).getD i none =
      sigF (fun i => tbl.getD i none) (tagOf nodes i) (shOf nodes i) := by
  have hn : nodes[i]? = some nodes[i] := List.getElem?_eq_getElem hi
  simp only [Array.getD_eq_getD_getElem?, List.getElem?_toArray, List.getElem?_map, hn, Option.map_some,
    Option.getD_some, sigOf_eq_sigF, tagOf, shOf, Option.bind_some]

theorem cert_sound (nodes : List (Option Nat × Sh)) (tbl : Array (Option Nat))
    (hw : wellIdxB (nodes.map (·.2)) = true) (hc : certB nodes tbl = true)
    (i j : Nat) (hi : i < nodes.length) (hj : j < nodes.length) :
    (∃ k, keyOf tbl (U (nodes.map (·.2)) i) = some k ∧ keyOf tbl (U (nodes.map (·.2)) j) = some k) ↔
    (∃ s, shape (tagOf nodes) (U (nodes.map (·.2)) i) = some s ∧
          shape (tagOf nodes) (U (nodes.map (·.2)) j) = some s) := by
  have hW := wellIdx_of_B _ hw
  have hns : ∀ i, i < nodes.length → (nodes.map (·.2))[i]? = some (shOf nodes i) := by
    intro i hi
    simp [shOf, List.getElem?_eq_getElem hi]
  simp only [keyOf, U_id]
  apply classes_eq_shapes nodes.length (shOf nodes) (tagOf nodes) (fun i => tbl.getD i none)
    (fun i => shape (tagOf nodes) (U (nodes.map (·.2)) i)) ?_ ?_ ?_ ?_ i j hi hj
  · intro i hi
    have := hW i
    cases hs : shOf nodes i with
    | leaf => trivial
    | un j => exact this.1 j (by rw [hns i hi, hs])
    | bin j k => exact this.2 j k (by rw [hns i hi, hs])
  · intro i hi
    rw [U_eq _ hW, hns i hi]
    cases shOf nodes i <;> rfl
  · intro i hi
    unfold certB at hc
    simp only [List.all_eq_true, List.mem_range, Bool.and_eq_true, beq_iff_eq] at hc
    have := (hc i hi).1
    rw [sigs_getD nodes tbl i hi] at this
    exact this
  · intro i j hji hi a b ha hb
    unfold certB at hc
    simp only [List.all_eq_true, List.mem_range, Bool.and_eq_true, beq_iff_eq] at hc
    have := (hc i hi).2 j hji
    rw [ha, hb] at this
    simp only [sigs_getD nodes tbl i hi, sigs_getD nodes tbl j (by omega)] at this
    exact decide_eq_decide.1 (beq_iff_eq.1 this)

/-- ids below a handle of the list are at most the handle's -/
theorem desc_U_le (ns : List Sh) (hw : WellIdx ns) {p d : T} (hd : Desc p d) :
    p = U ns p.id → d.id ≤ p.id := by
  induction hd with
  | refl t => exact fun _ => Nat.le_refl _
  | @left p c d hl hcd ih =>
    intro hp
    have hc : c = U ns c.id := desc_U ns hw (.left hl (.refl c)) hp
    have := ih hc
    rw [hp, U_eq ns hw] at hl
    cases hn : ns[p.id]? with
    | none => simp [hn, T.left] at hl
    | some s =>
      cases s with
      | leaf => simp [hn, T.left] at hl
      | un j =>
        simp [hn, T.left] at hl
        have hj := (hw p.id).1 j hn
        have : c.id = j := by rw [← hl, U_id]
        omega
      | bin j k =>
        simp [hn, T.left] at hl
        have hj := (hw p.id).2 j k hn
        have : c.id = j := by rw [← hl, U_id]
        omega
  | @right p c d hl hcd ih =>
    intro hp
    have hc : c = U ns c.id := desc_U ns hw (.right hl (.refl c)) hp
    have := ih hc
    rw [hp, U_eq ns hw] at hl
    cases hn : ns[p.id]? with
    | none => simp [hn, T.right] at hl
    | some s =>
      cases s with
      | leaf => simp [hn, T.right] at hl
      | un j => simp [hn, T.right] at hl
      | bin j k =>
        simp [hn, T.right] at hl
        have hj := (hw p.id).2 j k hn
        have : c.id = k := by rw [← hl, U_id]
        omega

/-- the walk under a checked class table is the walk under the structural key -/
theorem cert_visit (nodes : List (Option Nat × Sh)) (tbl : Array (Option Nat))
    (hw : wellIdxB (nodes.map (·.2)) = true) (hc : certB nodes tbl = true) (r : Nat) (hr : r < nodes.length) :
    (visit (keyOf tbl) (U (nodes.map (·.2)) r) (fun _ => none) 0).1 =
    (visit (shape (tagOf nodes)) (U (nodes.map (·.2)) r) (fun _ => none) 0).1 := by
  have hW := wellIdx_of_B _ hw
  apply visit_same_classes
  intro a c ha hc'
  have ea := desc_U _ hW ha (by rw [U_id])
  have ec := desc_U _ hW hc' (by rw [U_id])
  have ba := desc_U_le _ hW ha (by rw [U_id])
  have bc := desc_U_le _ hW hc' (by rw [U_id])
  rw [U_id] at ba bc
  rw [ea, ec]
  exact cert_sound nodes tbl hw hc a.id c.id (by omega) (by omega)

end PO
