/-
C20 — the *logic* of thread independence, for the global state this code base has.

What is process-global or thread-global in `rust-simplicity` (checked against the source by
`tools/c20_globals.py` on every run):

* `types::variable::NEXT_ID`, an atomic counter: every `new_name(prefix)` takes the next value.  Names
  are stored in `Bound::Free(name)` of the caller's own inference context and are only ever
  *displayed* (`Incomplete`, type errors); no code compares them.                     → `G.next`
* `types::Context` = `Arc<Mutex<slab of Bound>>` behind a ghost-cell brand: one slab per context; a
  context is reachable only from the nodes/types built in it.                         → `G.ctxs`
* `types::precomputed::{TWO_TWO_N, BUFFER8_TWO_N_PLUS_ONE, CTX8}`: thread-local, lazily filled
  tables of a pure function of the index (`2^(2^n)` …).                               → `G.tls`
* commit/redeem nodes, `Final` types, `Value`s: immutable after construction, shared through `Arc`;
  C side: constant tables only.                                                       → `Env.shared`

The model: a step is tagged with the thread that performs it and the context it works in; it draws
`Op.names` names from the global counter, reads and writes *that* context and the *performing
thread's* table, and may read the immutable environment.  `Owned`: every context is used by one
thread (the hypothesis of the property's quantifier: "each thread owns its inference contexts").

What this file proves (all about `run`, which `Driver/C20.lean` executes):
`step_commute`, `interleaving_eq_sequential` (+ `_namefree`), `memo_table_pure` and companions.
What it cannot say anything about is listed in `Props/C20.lean`.
-/
import SimplicityModel.Machine4

namespace ConcModel
open BM4 (Ty)

/-! ## one inference context: a slab of bounds -/

/-- `types::Bound`; `sum`/`prod` point at other slab entries -/
inductive Bound
  | free (name : Nat)
  | complete (t : Ty)
  | sum (l r : Nat)
  | prod (l r : Nat)
deriving DecidableEq, Repr

abbrev Slab := List Bound

/-- what an out-of-range index reads as (never happens on well-formed histories) -/
def dflt : Bound := .complete .one

/-- read a slab entry -/
def getB (s : Slab) (i : Nat) : Bound := (s[i]?).getD dflt

/-- `types::Incomplete`: a bound as it is displayed, variable names included -/
inductive Shown
  | var (n : Nat)
  | fin (t : Ty)
  | sum (a b : Shown)
  | prod (a b : Shown)
  | cut
deriving DecidableEq, Repr

def Bound.ren (ρ : Nat → Nat) : Bound → Bound
  | .free n => .free (ρ n)
  | .complete t => .complete t
  | .sum l r => .sum l r
  | .prod l r => .prod l r

@[simp] theorem Bound.ren_free (ρ : Nat → Nat) (n : Nat) : (Bound.free n).ren ρ = .free (ρ n) := rfl
@[simp] theorem Bound.ren_complete (ρ : Nat → Nat) (t : Ty) : (Bound.complete t).ren ρ = .complete t := rfl
@[simp] theorem Bound.ren_sum (ρ : Nat → Nat) (l r : Nat) : (Bound.sum l r).ren ρ = .sum l r := rfl
@[simp] theorem Bound.ren_prod (ρ : Nat → Nat) (l r : Nat) : (Bound.prod l r).ren ρ = .prod l r := rfl

def Shown.ren (ρ : Nat → Nat) : Shown → Shown
  | .var n => .var (ρ n)
  | .fin t => .fin t
  | .sum a b => .sum (a.ren ρ) (b.ren ρ)
  | .prod a b => .prod (a.ren ρ) (b.ren ρ)
  | .cut => .cut

def Shown.names : Shown → List Nat
  | .var n => [n]
  | .fin _ => []
  | .sum a b => a.names ++ b.names
  | .prod a b => a.names ++ b.names
  | .cut => []

/-- `Incomplete::from_bound_ref` (fuel = slab length; the histories of the driver are acyclic) -/
def showB (s : Slab) : Nat → Nat → Shown
  | 0, _ => .cut
  | f+1, i =>
    match getB s i with
    | .free n => .var n
    | .complete t => .fin t
    | .sum l r => .sum (showB s f l) (showB s f r)
    | .prod l r => .prod (showB s f l) (showB s f r)

/-- `ContextInner::bind(existing, Bound::Complete(t))`: a free variable is replaced, a complete type
is compared, a sum/product is descended into (left first; the first failure is reported with the
slab index and the complete type it was to be bound to; what was bound before stays bound) -/
def bindTy : Ty → Slab → Nat → Slab × Option (Nat × Ty)
  | t, s, i =>
    match getB s i, t with
    | .free _, t => (s.set i (.complete t), none)
    | .complete t', t => if t' = t then (s, none) else (s, some (i, t))
    | .sum l r, .sum a b =>
      match bindTy a s l with
      | (s1, none) => bindTy b s1 r
      | (s1, some e) => (s1, some e)
    | .prod l r, .prod a b =>
      match bindTy a s l with
      | (s1, none) => bindTy b s1 r
      | (s1, some e) => (s1, some e)
    | .sum _ _, t => (s, some (i, t))
    | .prod _ _, t => (s, some (i, t))

/-- `Type::finalize`: free variables become the unit type, every visited entry is overwritten with
its complete type -/
def finB : Nat → Slab → Nat → Slab × Ty
  | 0, s, _ => (s, .one)
  | f+1, s, i =>
    match getB s i with
    | .free _ => (s.set i (.complete .one), .one)
    | .complete t => (s, t)
    | .sum l r =>
      let r1 := finB f s l
      let r2 := finB f r1.1 r
      (r2.1.set i (.complete (.sum r1.2 r2.2)), .sum r1.2 r2.2)
    | .prod l r =>
      let r1 := finB f s l
      let r2 := finB f r1.1 r
      (r2.1.set i (.complete (.prod r1.2 r2.2)), .prod r1.2 r2.2)

/-! ## operations -/

inductive Op
  /-- `Type::free(ctx, new_name(..))`: the only operation that stores a name -/
  | fresh
  /-- `Type::sum(ctx, a, b)` -/
  | mkSum (a b : Nat)
  /-- `Type::product(ctx, a, b)` -/
  | mkProd (a b : Nat)
  /-- `ctx.unify(h, Type::complete(ctx, t))` -/
  | bindC (h : Nat) (t : Ty)
  /-- `h.to_incomplete()` -/
  | display (h : Nat)
  /-- `h.finalize()` -/
  | finalize (h : Nat)
  /-- `Final::two_two_n(n)`: lookup in the performing thread's lazily filled table -/
  | memo (n : Nat)
  /-- read of an immutable shared object -/
  | readShared (k : Nat)
  /-- a whole library operation (decode, inference of a program, execution, pruning, …) working in
  contexts it creates and drops itself: it draws `names` names and its result `digest` is a function
  of immutable inputs only -/
  | whole (names : Nat) (digest : Nat)
deriving Repr

/-- how many names the operation takes from the global counter -/
def Op.names : Op → Nat
  | .fresh => 1
  | .whole k _ => k
  | _ => 0

inductive Res
  | handle (k : Nat)
  | ok
  | err (existing : Shown) (new : Ty)
  | shown (s : Shown)
  | ty (t : Ty)
  | val (v : Nat)
  | bad
deriving DecidableEq, Repr

def Res.ren (ρ : Nat → Nat) : Res → Res
  | .err e t => .err (e.ren ρ) t
  | .shown s => .shown (s.ren ρ)
  | .handle k => .handle k
  | .ok => .ok
  | .ty t => .ty t
  | .val v => .val v
  | .bad => .bad

def Res.names : Res → List Nat
  | .err e _ => e.names
  | .shown s => s.names
  | _ => []

/-- a thread's memo table -/
abbrev Tbl := Nat → Option Nat

/-- immutable environment: the shared objects and the pure function that the tables memoise -/
structure Env where
  shared : Nat → Nat
  f : Nat → Nat

/-- lazily filled lookup -/
def lookup (f : Nat → Nat) (tb : Tbl) (n : Nat) : Tbl × Nat :=
  match tb n with
  | some v => (tb, v)
  | none => (fun m => if m = n then some (f n) else tb m, f n)

structure Out where
  slab : Slab
  tbl : Tbl
  res : Res

/-- `alloc_sum` / `alloc_product`: complete when both children are -/
def mk2 (s : Slab) (a b : Nat) (c : Ty → Ty → Ty) (k : Nat → Nat → Bound) : Slab × Res :=
  if a < s.length ∧ b < s.length then
    match getB s a, getB s b with
    | .complete ta, .complete tb => (s ++ [.complete (c ta tb)], .handle s.length)
    | _, _ => (s ++ [k a b], .handle s.length)
  else (s, .bad)

/-- one operation of a thread in one of its contexts; `n` is the value of the name counter -/
def act (E : Env) (op : Op) (n : Nat) (s : Slab) (tb : Tbl) : Out :=
  match op with
  | .fresh => ⟨s ++ [.free n], tb, .handle s.length⟩
  | .mkSum a b => ⟨(mk2 s a b .sum .sum).1, tb, (mk2 s a b .sum .sum).2⟩
  | .mkProd a b => ⟨(mk2 s a b .prod .prod).1, tb, (mk2 s a b .prod .prod).2⟩
  | .bindC h t =>
    if h < s.length then
      match (bindTy t s h).2 with
      | none => ⟨(bindTy t s h).1, tb, .ok⟩
      | some e => ⟨(bindTy t s h).1, tb, .err (showB (bindTy t s h).1 (s.length + 1) e.1) e.2⟩
    else ⟨s, tb, .bad⟩
  | .display h => if h < s.length then ⟨s, tb, .shown (showB s (s.length + 1) h)⟩ else ⟨s, tb, .bad⟩
  | .finalize h =>
    if h < s.length then ⟨(finB (s.length + 1) s h).1, tb, .ty (finB (s.length + 1) s h).2⟩ else ⟨s, tb, .bad⟩
  | .memo k => ⟨s, (lookup E.f tb k).1, .val (lookup E.f tb k).2⟩
  | .readShared k => ⟨s, tb, .val (E.shared k)⟩
  | .whole _ d => ⟨s, tb, .val d⟩

/-! ## the global state and interleaved runs -/

structure G where
  /-- `NEXT_ID` -/
  next : Nat
  /-- the slab of every inference context -/
  ctxs : Nat → Slab
  /-- the memo table of every thread -/
  tls : Nat → Tbl

def G.init : G := ⟨0, fun _ => [], fun _ _ => none⟩

structure Step where
  tid : Nat
  ctx : Nat
  op : Op
deriving Repr

def upd {α : Type} (f : Nat → α) (k : Nat) (v : α) : Nat → α := fun j => if j = k then v else f j

def step (E : Env) (g : G) (st : Step) : G × Res :=
  let o := act E st.op g.next (g.ctxs st.ctx) (g.tls st.tid)
  (⟨g.next + st.op.names, upd g.ctxs st.ctx o.slab, upd g.tls st.tid o.tbl⟩, o.res)

/-- run a history; the results are tagged with the performing thread -/
def run (E : Env) : G → List Step → G × List (Nat × Res)
  | g, [] => (g, [])
  | g, st :: rest =>
    ((run E (step E g st).1 rest).1, (st.tid, (step E g st).2) :: (run E (step E g st).1 rest).2)

/-- the steps of thread `t` -/
def proj (t : Nat) (tr : List Step) : List Step := tr.filter (fun st => st.tid = t)

/-- the results of thread `t` -/
def resultsOf (t : Nat) (rs : List (Nat × Res)) : List Res := (rs.filter (fun p => p.1 = t)).map (·.2)

/-- ownership: every context is used by the thread `owner` assigns it to -/
def Owned (owner : Nat → Nat) (tr : List Step) : Prop := ∀ st, st ∈ tr → owner st.ctx = st.tid

/-- every name stored in the slab is below `n` -/
def Below (s : Slab) (n : Nat) : Prop := ∀ a, Bound.free a ∈ s → a < n

end ConcModel
