/-
Spike: C08 — tracker-directed pruning on a DAG (tree unfolding with node identities):
same result, same trace, idempotent, and afterwards every remaining node is executed and every
remaining case has both branches taken (the anti-DoS conditions).
-/
namespace PT

inductive Val | unit | inl (v : Val) | inr (v : Val) | pair (a b : Val)
deriving DecidableEq, Repr

inductive UK | injl | injr | take | drop deriving DecidableEq, Repr

/-- program skeleton; `id` is the node identity (IHR) shared by all occurrences of a DAG node -/
inductive Sk
  | leaf (id : Nat) (f : Val → Option Val)     -- iden, unit, witness, word, jet, fail
  | un (id : Nat) (k : UK) (s : Sk)
  | comp (id : Nat) (s t : Sk)
  | pair (id : Nat) (s t : Sk)
  | case (id : Nat) (s t : Sk)
  | assertl (id : Nat) (s : Sk)
  | assertr (id : Nat) (t : Sk)

def Sk.id : Sk → Nat
  | .leaf id _ | .un id _ _ | .comp id _ _ | .pair id _ _ | .case id _ _ | .assertl id _ | .assertr id _ => id

/-- what the tracker records: the executed node identities and the (case identity, side) pairs -/
structure Tr where
  nodes : List Nat
  sides : List (Nat × Bool)

def Tr.add (a b : Tr) : Tr := ⟨a.nodes ++ b.nodes, a.sides ++ b.sides⟩
def Tr.node (id : Nat) : Tr := ⟨[id], []⟩
def Tr.side (id : Nat) (b : Bool) : Tr := ⟨[id], [(id, b)]⟩

def unIn (k : UK) (v : Val) : Option Val :=
  match k, v with
  | .take, .pair x _ => some x
  | .drop, .pair _ y => some y
  | .injl, v => some v
  | .injr, v => some v
  | _, _ => none

def unOut (k : UK) (o : Val) : Val :=
  match k with
  | .injl => .inl o
  | .injr => .inr o
  | _ => o

/-- evaluation with the tracker's record -/
def eval : Sk → Val → Option (Val × Tr)
  | .leaf id f, v => (f v).map fun o => (o, Tr.node id)
  | .un id k s, v =>
    match unIn k v with
    | none => none
    | some v' => (eval s v').map fun (o, tr) => (unOut k o, (Tr.node id).add tr)
  | .comp id s t, v =>
    match eval s v with
    | none => none
    | some (x, t1) => (eval t x).map fun (o, t2) => (o, ((Tr.node id).add t1).add t2)
  | .pair id s t, v =>
    match eval s v with
    | none => none
    | some (x, t1) => (eval t v).map fun (y, t2) => (.pair x y, ((Tr.node id).add t1).add t2)
  | .case id s _, .pair (.inl x) z => (eval s (.pair x z)).map fun (o, tr) => (o, (Tr.side id false).add tr)
  | .case id _ t, .pair (.inr y) z => (eval t (.pair y z)).map fun (o, tr) => (o, (Tr.side id true).add tr)
  | .case _ _ _, _ => none
  | .assertl id s, .pair (.inl x) z => (eval s (.pair x z)).map fun (o, tr) => (o, (Tr.side id false).add tr)
  | .assertl _ _, _ => none
  | .assertr id t, .pair (.inr y) z => (eval t (.pair y z)).map fun (o, tr) => (o, (Tr.side id true).add tr)
  | .assertr _ _, _ => none

/-- `prune_case` of the `Pruner` converter: keep / hide by what the tracker holds -/
def pruneBy (S : List (Nat × Bool)) : Sk → Sk
  | .leaf id f => .leaf id f
  | .un id k s => .un id k (pruneBy S s)
  | .comp id s t => .comp id (pruneBy S s) (pruneBy S t)
  | .pair id s t => .pair id (pruneBy S s) (pruneBy S t)
  | .case id s t =>
    match decide ((id, false) ∈ S), decide ((id, true) ∈ S) with
    | true, false => .assertl id (pruneBy S s)
    | false, true => .assertr id (pruneBy S t)
    | _, _ => .case id (pruneBy S s) (pruneBy S t)
  | .assertl id s => .assertl id (pruneBy S s)
  | .assertr id t => .assertr id (pruneBy S t)

/-- **idempotence of the rewriting** for a fixed tracker content -/
theorem pruneBy_idem (S : List (Nat × Bool)) : ∀ (s : Sk), pruneBy S (pruneBy S s) = pruneBy S s
  | .leaf _ _ => rfl
  | .un _ _ s => by simp [pruneBy, pruneBy_idem S s]
  | .comp _ s t => by simp [pruneBy, pruneBy_idem S s, pruneBy_idem S t]
  | .pair _ s t => by simp [pruneBy, pruneBy_idem S s, pruneBy_idem S t]
  | .case id s t => by
    simp only [pruneBy]
    cases h1 : decide ((id, false) ∈ S) <;> cases h2 : decide ((id, true) ∈ S) <;>
      simp [pruneBy, h1, h2, pruneBy_idem S s, pruneBy_idem S t]
  | .assertl _ s => by simp [pruneBy, pruneBy_idem S s]
  | .assertr _ t => by simp [pruneBy, pruneBy_idem S t]

/-- **same result, same trace**: pruning by any tracker content that covers this run's sides -/
theorem eval_pruneBy (S : List (Nat × Bool)) : ∀ (s : Sk) (v : Val) (o : Val) (tr : Tr),
    eval s v = some (o, tr) → (∀ p ∈ tr.sides, p ∈ S) → eval (pruneBy S s) v = some (o, tr)
  | .leaf _ _, _, _, _, h, _ => h
  | .un id k s, v, o, tr, h, hS => by
    simp only [eval, pruneBy] at h ⊢
    cases hu : unIn k v with
    | none => simp [hu] at h
    | some v' =>
      simp only [hu, Option.map_eq_some_iff] at h ⊢
      obtain ⟨⟨o', tr'⟩, h1, h2⟩ := h
      cases h2
      exact ⟨(o', tr'), eval_pruneBy S s v' o' tr' h1 (fun p hp => hS p (by simp [Tr.add, Tr.node, hp])), rfl⟩
  | .comp id s t, v, o, tr, h, hS => by
    simp only [eval, pruneBy] at h ⊢
    cases h1 : eval s v with
    | none => simp [h1] at h
    | some r1 =>
      obtain ⟨x, t1⟩ := r1
      simp only [h1, Option.map_eq_some_iff] at h
      obtain ⟨⟨o', t2⟩, h2, h3⟩ := h
      cases h3
      rw [eval_pruneBy S s v x t1 h1 (fun p hp => hS p (by simp [Tr.add, Tr.node, hp]))]
      simp only [Option.map_eq_some_iff]
      exact ⟨(o', t2), eval_pruneBy S t x o' t2 h2 (fun p hp => hS p (by simp [Tr.add, hp])), rfl⟩
  | .pair id s t, v, o, tr, h, hS => by
    simp only [eval, pruneBy] at h ⊢
    cases h1 : eval s v with
    | none => simp [h1] at h
    | some r1 =>
      obtain ⟨x, t1⟩ := r1
      simp only [h1, Option.map_eq_some_iff] at h
      obtain ⟨⟨y, t2⟩, h2, h3⟩ := h
      cases h3
      rw [eval_pruneBy S s v x t1 h1 (fun p hp => hS p (by simp [Tr.add, Tr.node, hp]))]
      simp only [Option.map_eq_some_iff]
      exact ⟨(y, t2), eval_pruneBy S t v y t2 h2 (fun p hp => hS p (by simp [Tr.add, hp])), rfl⟩
  | .case id s t, .pair (.inl x) z, o, tr, h, hS => by
    simp only [eval, Option.map_eq_some_iff] at h
    obtain ⟨⟨o', tr'⟩, h1, h2⟩ := h
    cases h2
    have hin : (id, false) ∈ S := hS _ (by simp [Tr.add, Tr.side])
    have ih := eval_pruneBy S s (.pair x z) o' tr' h1 (fun p hp => hS p (by simp [Tr.add, hp]))
    simp only [pruneBy, hin, decide_true]
    cases decide ((id, true) ∈ S) <;> simp [eval, ih]
  | .case id s t, .pair (.inr y) z, o, tr, h, hS => by
    simp only [eval, Option.map_eq_some_iff] at h
    obtain ⟨⟨o', tr'⟩, h1, h2⟩ := h
    cases h2
    have hin : (id, true) ∈ S := hS _ (by simp [Tr.add, Tr.side])
    have ih := eval_pruneBy S t (.pair y z) o' tr' h1 (fun p hp => hS p (by simp [Tr.add, hp]))
    simp only [pruneBy, hin, decide_true]
    cases decide ((id, false) ∈ S) <;> simp [eval, ih]
  | .case _ _ _, .unit, _, _, h, _ => by simp [eval] at h
  | .case _ _ _, .inl _, _, _, h, _ => by simp [eval] at h
  | .case _ _ _, .inr _, _, _, h, _ => by simp [eval] at h
  | .case _ _ _, .pair .unit _, _, _, h, _ => by simp [eval] at h
  | .case _ _ _, .pair (.pair _ _) _, _, _, h, _ => by simp [eval] at h
  | .assertl id s, .pair (.inl x) z, o, tr, h, hS => by
    simp only [eval, pruneBy, Option.map_eq_some_iff] at h ⊢
    obtain ⟨⟨o', tr'⟩, h1, h2⟩ := h
    cases h2
    exact ⟨(o', tr'), eval_pruneBy S s _ o' tr' h1 (fun p hp => hS p (by simp [Tr.add, hp])), rfl⟩
  | .assertl _ _, .unit, _, _, h, _ => by simp [eval] at h
  | .assertl _ _, .inl _, _, _, h, _ => by simp [eval] at h
  | .assertl _ _, .inr _, _, _, h, _ => by simp [eval] at h
  | .assertl _ _, .pair .unit _, _, _, h, _ => by simp [eval] at h
  | .assertl _ _, .pair (.inr _) _, _, _, h, _ => by simp [eval] at h
  | .assertl _ _, .pair (.pair _ _) _, _, _, h, _ => by simp [eval] at h
  | .assertr id t, .pair (.inr y) z, o, tr, h, hS => by
    simp only [eval, pruneBy, Option.map_eq_some_iff] at h ⊢
    obtain ⟨⟨o', tr'⟩, h1, h2⟩ := h
    cases h2
    exact ⟨(o', tr'), eval_pruneBy S t _ o' tr' h1 (fun p hp => hS p (by simp [Tr.add, hp])), rfl⟩
  | .assertr _ _, .unit, _, _, h, _ => by simp [eval] at h
  | .assertr _ _, .inl _, _, _, h, _ => by simp [eval] at h
  | .assertr _ _, .inr _, _, _, h, _ => by simp [eval] at h
  | .assertr _ _, .pair .unit _, _, _, h, _ => by simp [eval] at h
  | .assertr _ _, .pair (.inl _) _, _, _, h, _ => by simp [eval] at h
  | .assertr _ _, .pair (.pair _ _) _, _, _, h, _ => by simp [eval] at h

/-- `prune`: run, then rewrite by what the tracker recorded -/
def prune (s : Sk) (v : Val) : Option Sk := (eval s v).map fun (_, tr) => pruneBy tr.sides s

/-- **C08**: pruning succeeds when the run succeeds; the pruned program gives the same output with
the same trace; pruning it again for the same input changes nothing -/
theorem prune_spec (s : Sk) (v o : Val) (tr : Tr) (h : eval s v = some (o, tr)) :
    ∃ p, prune s v = some p ∧ eval p v = some (o, tr) ∧ prune p v = some p := by
  refine ⟨pruneBy tr.sides s, by simp [prune, h], eval_pruneBy _ s v o tr h (fun _ hp => hp), ?_⟩
  have := eval_pruneBy tr.sides s v o tr h (fun _ hp => hp)
  simp [prune, this, pruneBy_idem]

/-! ### anti-DoS: after pruning, every node is executed and every case takes both branches -/

/-- all sub-expressions (occurrences, as trees) -/
def sub : Sk → List Sk
  | .leaf id f => [.leaf id f]
  | .un id k s => .un id k s :: sub s
  | .comp id s t => .comp id s t :: (sub s ++ sub t)
  | .pair id s t => .pair id s t :: (sub s ++ sub t)
  | .case id s t => .case id s t :: (sub s ++ sub t)
  | .assertl id s => .assertl id s :: sub s
  | .assertr id t => .assertr id t :: sub t

theorem self_mem_sub (s : Sk) : s ∈ sub s := by cases s <;> simp [sub]

theorem sub_trans {a b c : Sk} (h1 : a ∈ sub b) (h2 : b ∈ sub c) : a ∈ sub c := by
  induction c with
  | leaf id f => simp only [sub, List.mem_singleton] at h2; subst h2; exact h1
  | un id k s ih =>
    simp only [sub, List.mem_cons] at h2
    rcases h2 with rfl | h2
    · exact h1
    · simp only [sub, List.mem_cons]; exact .inr (ih h2)
  | comp id s t ihs iht =>
    simp only [sub, List.mem_cons, List.mem_append] at h2
    rcases h2 with rfl | h2 | h2
    · exact h1
    · simp only [sub, List.mem_cons, List.mem_append]; exact .inr (.inl (ihs h2))
    · simp only [sub, List.mem_cons, List.mem_append]; exact .inr (.inr (iht h2))
  | pair id s t ihs iht =>
    simp only [sub, List.mem_cons, List.mem_append] at h2
    rcases h2 with rfl | h2 | h2
    · exact h1
    · simp only [sub, List.mem_cons, List.mem_append]; exact .inr (.inl (ihs h2))
    · simp only [sub, List.mem_cons, List.mem_append]; exact .inr (.inr (iht h2))
  | case id s t ihs iht =>
    simp only [sub, List.mem_cons, List.mem_append] at h2
    rcases h2 with rfl | h2 | h2
    · exact h1
    · simp only [sub, List.mem_cons, List.mem_append]; exact .inr (.inl (ihs h2))
    · simp only [sub, List.mem_cons, List.mem_append]; exact .inr (.inr (iht h2))
  | assertl id s ih =>
    simp only [sub, List.mem_cons] at h2
    rcases h2 with rfl | h2
    · exact h1
    · simp only [sub, List.mem_cons]; exact .inr (ih h2)
  | assertr id t ih =>
    simp only [sub, List.mem_cons] at h2
    rcases h2 with rfl | h2
    · exact h1
    · simp only [sub, List.mem_cons]; exact .inr (ih h2)

/-- one identity, one sub-DAG (identities are Merkle roots of the sub-expression) -/
def IdsFaithful (s : Sk) : Prop := ∀ a ∈ sub s, ∀ c ∈ sub s, a.id = c.id → a = c

/-- the children of an executed occurrence that its combinator runs were executed -/
def ChildrenRan (u : Sk) (tr : Tr) : Prop :=
  match u with
  | .leaf _ _ => True
  | .un _ _ s => s.id ∈ tr.nodes
  | .comp _ s t => s.id ∈ tr.nodes ∧ t.id ∈ tr.nodes
  | .pair _ s t => s.id ∈ tr.nodes ∧ t.id ∈ tr.nodes
  | .case id s t => ((id, false) ∈ tr.sides ∧ s.id ∈ tr.nodes) ∨ ((id, true) ∈ tr.sides ∧ t.id ∈ tr.nodes)
  | .assertl id s => (id, false) ∈ tr.sides ∧ s.id ∈ tr.nodes
  | .assertr id t => (id, true) ∈ tr.sides ∧ t.id ∈ tr.nodes

theorem ChildrenRan.mono {u : Sk} {a b : Tr} (h : ChildrenRan u a)
    (hn : ∀ x ∈ a.nodes, x ∈ b.nodes) (hs : ∀ x ∈ a.sides, x ∈ b.sides) : ChildrenRan u b := by
  cases u <;> simp only [ChildrenRan] at h ⊢
  · exact hn _ h
  · exact ⟨hn _ h.1, hn _ h.2⟩
  · exact ⟨hn _ h.1, hn _ h.2⟩
  · rcases h with h | h
    · exact .inl ⟨hs _ h.1, hn _ h.2⟩
    · exact .inr ⟨hs _ h.1, hn _ h.2⟩
  · exact ⟨hs _ h.1, hn _ h.2⟩
  · exact ⟨hs _ h.1, hn _ h.2⟩

theorem nl {a b : Tr} {x : Nat} (h : x ∈ a.nodes) : x ∈ (a.add b).nodes := by simp [Tr.add, h]
theorem nr {a b : Tr} {x : Nat} (h : x ∈ b.nodes) : x ∈ (a.add b).nodes := by simp [Tr.add, h]
theorem sl {a b : Tr} {x : Nat × Bool} (h : x ∈ a.sides) : x ∈ (a.add b).sides := by simp [Tr.add, h]
theorem sr {a b : Tr} {x : Nat × Bool} (h : x ∈ b.sides) : x ∈ (a.add b).sides := by simp [Tr.add, h]

/-- the child on side `b` of a case/assertion occurrence was executed -/
def SideRan (u : Sk) (b : Bool) (tr : Tr) : Prop :=
  match u, b with
  | .case _ s _, false => s.id ∈ tr.nodes
  | .case _ _ t, true => t.id ∈ tr.nodes
  | .assertl _ s, false => s.id ∈ tr.nodes
  | .assertr _ t, true => t.id ∈ tr.nodes
  | _, _ => False

theorem SideRan.mono {u : Sk} {b : Bool} {x y : Tr} (h : SideRan u b x)
    (hn : ∀ i ∈ x.nodes, i ∈ y.nodes) : SideRan u b y := by
  cases u <;> cases b <;> simp only [SideRan] at h ⊢ <;> first | exact hn _ h | exact h

/-- what a successful run records -/
structure Ran (s : Sk) (tr : Tr) : Prop where
  root : s.id ∈ tr.nodes
  each : ∀ id ∈ tr.nodes, ∃ u ∈ sub s, u.id = id ∧ ChildrenRan u tr
  sides : ∀ p ∈ tr.sides, ∃ u ∈ sub s, u.id = p.1 ∧ SideRan u p.2 tr

theorem Ran.lift {s u : Sk} {tr big : Tr} (h : Ran u tr) (hu : ∀ x ∈ sub u, x ∈ sub s)
    (hn : ∀ x ∈ tr.nodes, x ∈ big.nodes) (hs : ∀ x ∈ tr.sides, x ∈ big.sides) :
    ∀ id ∈ tr.nodes, ∃ w ∈ sub s, w.id = id ∧ ChildrenRan w big := by
  intro id hid
  obtain ⟨w, hw, hwid, hc⟩ := h.each id hid
  exact ⟨w, hu w hw, hwid, hc.mono hn hs⟩

theorem Ran.liftSide {s u : Sk} {tr big : Tr} (h : Ran u tr) (hu : ∀ x ∈ sub u, x ∈ sub s)
    (hn : ∀ x ∈ tr.nodes, x ∈ big.nodes) :
    ∀ p ∈ tr.sides, ∃ w ∈ sub s, w.id = p.1 ∧ SideRan w p.2 big := by
  intro p hp
  obtain ⟨w, hw, hwid, hc⟩ := h.sides p hp
  exact ⟨w, hu w hw, hwid, hc.mono hn⟩

theorem eval_ran : ∀ (s : Sk) (v o : Val) (tr : Tr), eval s v = some (o, tr) → Ran s tr
  | .leaf id f, v, o, tr, h => by
    simp only [eval, Option.map_eq_some_iff] at h
    obtain ⟨o', _, h2⟩ := h
    cases h2
    refine ⟨by simp [Sk.id, Tr.node], fun i hi => ⟨.leaf id f, by simp [sub], ?_, trivial⟩, by simp [Tr.node]⟩
    simp only [Tr.node, List.mem_singleton] at hi
    simp [Sk.id, hi]
  | .un id k s, v, o, tr, h => by
    simp only [eval] at h
    cases hu : unIn k v with
    | none => simp [hu] at h
    | some v' =>
      simp only [hu, Option.map_eq_some_iff] at h
      obtain ⟨⟨o', tr'⟩, h1, h2⟩ := h
      cases h2
      have r := eval_ran s v' o' tr' h1
      refine ⟨by simp [Sk.id, Tr.node, Tr.add], ?_, ?_⟩
      · intro i hi
        simp only [Tr.add, Tr.node, List.mem_append, List.mem_singleton, List.cons_append, List.nil_append, List.mem_cons] at hi
        rcases hi with rfl | hi
        · exact ⟨.un i k s, by simp [sub], rfl, by simp [ChildrenRan, Tr.add, r.root]⟩
        · exact r.lift (s := .un id k s) (fun x hx => by simp [sub, hx]) (fun x hx => nr hx)
            (fun x hx => sr hx) i hi
      · intro p hp
        simp only [Tr.add, Tr.node, List.nil_append] at hp
        exact r.liftSide (s := .un id k s) (fun x hx => by simp [sub, hx]) (fun x hx => nr hx) p hp
  | .comp id s t, v, o, tr, h => by
    simp only [eval] at h
    cases h1 : eval s v with
    | none => simp [h1] at h
    | some r1 =>
      obtain ⟨x, t1⟩ := r1
      simp only [h1, Option.map_eq_some_iff] at h
      obtain ⟨⟨o', t2⟩, h2, h3⟩ := h
      cases h3
      have ra := eval_ran s v x t1 h1
      have rb := eval_ran t x o' t2 h2
      refine ⟨by simp [Sk.id, Tr.node, Tr.add], ?_, ?_⟩
      · intro i hi
        simp only [Tr.add, Tr.node, List.mem_append, List.mem_singleton, List.cons_append, List.nil_append, List.mem_cons] at hi
        rcases hi with rfl | hi | hi
        · exact ⟨.comp i s t, by simp [sub], rfl, by simp [ChildrenRan, Tr.add, ra.root, rb.root]⟩
        · exact ra.lift (s := .comp id s t) (fun x hx => by simp [sub, hx])
            (fun x hx => nl (nr hx)) (fun x hx => sl (sr hx)) i hi
        · exact rb.lift (s := .comp id s t) (fun x hx => by simp [sub, hx])
            (fun x hx => nr hx) (fun x hx => sr hx) i hi
      · intro p hp
        simp only [Tr.add, Tr.node, List.nil_append, List.mem_append] at hp
        rcases hp with hp | hp
        · exact ra.liftSide (s := .comp id s t) (fun x hx => by simp [sub, hx]) (fun x hx => nl (nr hx)) p hp
        · exact rb.liftSide (s := .comp id s t) (fun x hx => by simp [sub, hx]) (fun x hx => nr hx) p hp
  | .pair id s t, v, o, tr, h => by
    simp only [eval] at h
    cases h1 : eval s v with
    | none => simp [h1] at h
    | some r1 =>
      obtain ⟨x, t1⟩ := r1
      simp only [h1, Option.map_eq_some_iff] at h
      obtain ⟨⟨y, t2⟩, h2, h3⟩ := h
      cases h3
      have ra := eval_ran s v x t1 h1
      have rb := eval_ran t v y t2 h2
      refine ⟨by simp [Sk.id, Tr.node, Tr.add], ?_, ?_⟩
      · intro i hi
        simp only [Tr.add, Tr.node, List.mem_append, List.mem_singleton, List.cons_append, List.nil_append, List.mem_cons] at hi
        rcases hi with rfl | hi | hi
        · exact ⟨.pair i s t, by simp [sub], rfl, by simp [ChildrenRan, Tr.add, ra.root, rb.root]⟩
        · exact ra.lift (s := .pair id s t) (fun x hx => by simp [sub, hx])
            (fun x hx => nl (nr hx)) (fun x hx => sl (sr hx)) i hi
        · exact rb.lift (s := .pair id s t) (fun x hx => by simp [sub, hx])
            (fun x hx => nr hx) (fun x hx => sr hx) i hi
      · intro p hp
        simp only [Tr.add, Tr.node, List.nil_append, List.mem_append] at hp
        rcases hp with hp | hp
        · exact ra.liftSide (s := .pair id s t) (fun x hx => by simp [sub, hx]) (fun x hx => nl (nr hx)) p hp
        · exact rb.liftSide (s := .pair id s t) (fun x hx => by simp [sub, hx]) (fun x hx => nr hx) p hp
  | .case id s t, .pair (.inl x) z, o, tr, h => by
    simp only [eval, Option.map_eq_some_iff] at h
    obtain ⟨⟨o', tr'⟩, h1, h2⟩ := h
    cases h2
    have r := eval_ran s _ o' tr' h1
    refine ⟨by simp [Sk.id, Tr.side, Tr.add], ?_, ?_⟩
    · intro i hi
      simp only [Tr.add, Tr.side, List.cons_append, List.nil_append, List.mem_cons] at hi
      rcases hi with rfl | hi
      · exact ⟨.case i s t, by simp [sub], rfl, .inl ⟨by simp [Tr.add, Tr.side], by simp [Tr.add, r.root]⟩⟩
      · exact r.lift (s := .case id s t) (fun x hx => by simp [sub, hx]) (fun x hx => nr hx)
          (fun x hx => sr hx) i hi
    · intro p hp
      simp only [Tr.add, Tr.side, List.cons_append, List.nil_append, List.mem_cons] at hp
      rcases hp with rfl | hp
      · exact ⟨.case id s t, by simp [sub], rfl, by simp [SideRan, Tr.add, r.root]⟩
      · exact r.liftSide (s := .case id s t) (fun x hx => by simp [sub, hx]) (fun x hx => nr hx) p hp
  | .case id s t, .pair (.inr y) z, o, tr, h => by
    simp only [eval, Option.map_eq_some_iff] at h
    obtain ⟨⟨o', tr'⟩, h1, h2⟩ := h
    cases h2
    have r := eval_ran t _ o' tr' h1
    refine ⟨by simp [Sk.id, Tr.side, Tr.add], ?_, ?_⟩
    · intro i hi
      simp only [Tr.add, Tr.side, List.cons_append, List.nil_append, List.mem_cons] at hi
      rcases hi with rfl | hi
      · exact ⟨.case i s t, by simp [sub], rfl, .inr ⟨by simp [Tr.add, Tr.side], by simp [Tr.add, r.root]⟩⟩
      · exact r.lift (s := .case id s t) (fun x hx => by simp [sub, hx]) (fun x hx => nr hx)
          (fun x hx => sr hx) i hi
    · intro p hp
      simp only [Tr.add, Tr.side, List.cons_append, List.nil_append, List.mem_cons] at hp
      rcases hp with rfl | hp
      · exact ⟨.case id s t, by simp [sub], rfl, by simp [SideRan, Tr.add, r.root]⟩
      · exact r.liftSide (s := .case id s t) (fun x hx => by simp [sub, hx]) (fun x hx => nr hx) p hp
  | .case _ _ _, .unit, _, _, h => by simp [eval] at h
  | .case _ _ _, .inl _, _, _, h => by simp [eval] at h
  | .case _ _ _, .inr _, _, _, h => by simp [eval] at h
  | .case _ _ _, .pair .unit _, _, _, h => by simp [eval] at h
  | .case _ _ _, .pair (.pair _ _) _, _, _, h => by simp [eval] at h
  | .assertl id s, .pair (.inl x) z, o, tr, h => by
    simp only [eval, Option.map_eq_some_iff] at h
    obtain ⟨⟨o', tr'⟩, h1, h2⟩ := h
    cases h2
    have r := eval_ran s _ o' tr' h1
    refine ⟨by simp [Sk.id, Tr.side, Tr.add], ?_, ?_⟩
    · intro i hi
      simp only [Tr.add, Tr.side, List.cons_append, List.nil_append, List.mem_cons] at hi
      rcases hi with rfl | hi
      · exact ⟨.assertl i s, by simp [sub], rfl, ⟨by simp [Tr.add, Tr.side], by simp [Tr.add, r.root]⟩⟩
      · exact r.lift (s := .assertl id s) (fun x hx => by simp [sub, hx]) (fun x hx => nr hx)
          (fun x hx => sr hx) i hi
    · intro p hp
      simp only [Tr.add, Tr.side, List.cons_append, List.nil_append, List.mem_cons] at hp
      rcases hp with rfl | hp
      · exact ⟨.assertl id s, by simp [sub], rfl, by simp [SideRan, Tr.add, r.root]⟩
      · exact r.liftSide (s := .assertl id s) (fun x hx => by simp [sub, hx]) (fun x hx => nr hx) p hp
  | .assertl _ _, .unit, _, _, h => by simp [eval] at h
  | .assertl _ _, .inl _, _, _, h => by simp [eval] at h
  | .assertl _ _, .inr _, _, _, h => by simp [eval] at h
  | .assertl _ _, .pair .unit _, _, _, h => by simp [eval] at h
  | .assertl _ _, .pair (.inr _) _, _, _, h => by simp [eval] at h
  | .assertl _ _, .pair (.pair _ _) _, _, _, h => by simp [eval] at h
  | .assertr id t, .pair (.inr y) z, o, tr, h => by
    simp only [eval, Option.map_eq_some_iff] at h
    obtain ⟨⟨o', tr'⟩, h1, h2⟩ := h
    cases h2
    have r := eval_ran t _ o' tr' h1
    refine ⟨by simp [Sk.id, Tr.side, Tr.add], ?_, ?_⟩
    · intro i hi
      simp only [Tr.add, Tr.side, List.cons_append, List.nil_append, List.mem_cons] at hi
      rcases hi with rfl | hi
      · exact ⟨.assertr i t, by simp [sub], rfl, ⟨by simp [Tr.add, Tr.side], by simp [Tr.add, r.root]⟩⟩
      · exact r.lift (s := .assertr id t) (fun x hx => by simp [sub, hx]) (fun x hx => nr hx)
          (fun x hx => sr hx) i hi
    · intro p hp
      simp only [Tr.add, Tr.side, List.cons_append, List.nil_append, List.mem_cons] at hp
      rcases hp with rfl | hp
      · exact ⟨.assertr id t, by simp [sub], rfl, by simp [SideRan, Tr.add, r.root]⟩
      · exact r.liftSide (s := .assertr id t) (fun x hx => by simp [sub, hx]) (fun x hx => nr hx) p hp
  | .assertr _ _, .unit, _, _, h => by simp [eval] at h
  | .assertr _ _, .inl _, _, _, h => by simp [eval] at h
  | .assertr _ _, .inr _, _, _, h => by simp [eval] at h
  | .assertr _ _, .pair .unit _, _, _, h => by simp [eval] at h
  | .assertr _ _, .pair (.inl _) _, _, _, h => by simp [eval] at h
  | .assertr _ _, .pair (.pair _ _) _, _, _, h => by simp [eval] at h

theorem pruneBy_id (S : List (Nat × Bool)) (u : Sk) : (pruneBy S u).id = u.id := by
  cases u with
  | case id a b =>
    simp only [pruneBy]
    cases decide ((id, false) ∈ S) <;> cases decide ((id, true) ∈ S) <;> rfl
  | _ => rfl

/-- the conditions libsimplicity checks with all anti-DoS checks on -/
def AllUsed (tr : Tr) (w : Sk) : Prop :=
  w.id ∈ tr.nodes ∧ ∀ id a b, w = .case id a b → (id, false) ∈ tr.sides ∧ (id, true) ∈ tr.sides

theorem antiDoS_local (s : Sk) (hf : IdsFaithful s) (tr : Tr) (hr : Ran s tr) :
    ∀ (u : Sk), u ∈ sub s → u.id ∈ tr.nodes → ∀ w ∈ sub (pruneBy tr.sides u), AllUsed tr w := by
  -- what the run did at an executed occurrence, transported by `IdsFaithful`
  have ec : ∀ u ∈ sub s, u.id ∈ tr.nodes → ChildrenRan u tr := by
    intro u hu hid
    obtain ⟨u', hu', hid', hc⟩ := hr.each u.id hid
    rw [hf u' hu' u hu hid'] at hc; exact hc
  have es : ∀ u ∈ sub s, ∀ b, (u.id, b) ∈ tr.sides → SideRan u b tr := by
    intro u hu b hb
    obtain ⟨u', hu', hid', hc⟩ := hr.sides (u.id, b) hb
    rw [hf u' hu' u hu hid'] at hc; exact hc
  intro u
  induction u with
  | leaf id f =>
    intro _ hid w hw
    simp only [pruneBy, sub, List.mem_singleton] at hw
    subst hw
    exact ⟨hid, fun _ _ _ h => by cases h⟩
  | un id k a ih =>
    intro hu hid w hw
    have ha : a ∈ sub s := sub_trans (by simp [sub, self_mem_sub]) hu
    have hc := ec _ hu hid
    simp only [pruneBy, sub, List.mem_cons] at hw
    rcases hw with rfl | hw
    · exact ⟨hid, fun _ _ _ h => by cases h⟩
    · exact ih ha hc w hw
  | comp id a b iha ihb =>
    intro hu hid w hw
    have ha : a ∈ sub s := sub_trans (by simp [sub, self_mem_sub]) hu
    have hb : b ∈ sub s := sub_trans (by simp [sub, self_mem_sub]) hu
    have hc := ec _ hu hid
    simp only [pruneBy, sub, List.mem_cons, List.mem_append] at hw
    rcases hw with rfl | hw | hw
    · exact ⟨hid, fun _ _ _ h => by cases h⟩
    · exact iha ha hc.1 w hw
    · exact ihb hb hc.2 w hw
  | pair id a b iha ihb =>
    intro hu hid w hw
    have ha : a ∈ sub s := sub_trans (by simp [sub, self_mem_sub]) hu
    have hb : b ∈ sub s := sub_trans (by simp [sub, self_mem_sub]) hu
    have hc := ec _ hu hid
    simp only [pruneBy, sub, List.mem_cons, List.mem_append] at hw
    rcases hw with rfl | hw | hw
    · exact ⟨hid, fun _ _ _ h => by cases h⟩
    · exact iha ha hc.1 w hw
    · exact ihb hb hc.2 w hw
  | case id a b iha ihb =>
    intro hu hid w hw
    have ha : a ∈ sub s := sub_trans (by simp [sub, self_mem_sub]) hu
    have hb : b ∈ sub s := sub_trans (by simp [sub, self_mem_sub]) hu
    have hc := ec _ hu hid
    have hsl : (id, false) ∈ tr.sides → a.id ∈ tr.nodes := fun h => es _ hu false h
    have hsr : (id, true) ∈ tr.sides → b.id ∈ tr.nodes := fun h => es _ hu true h
    simp only [pruneBy] at hw
    by_cases hL : (id, false) ∈ tr.sides <;> by_cases hR : (id, true) ∈ tr.sides
    · simp only [hL, hR, decide_true, sub, List.mem_cons, List.mem_append] at hw
      rcases hw with rfl | hw | hw
      · exact ⟨hid, fun _ _ _ h => by cases h; exact ⟨hL, hR⟩⟩
      · exact iha ha (hsl hL) w hw
      · exact ihb hb (hsr hR) w hw
    · simp only [hL, hR, decide_true, decide_false, sub, List.mem_cons] at hw
      rcases hw with rfl | hw
      · exact ⟨hid, fun _ _ _ h => by cases h⟩
      · exact iha ha (hsl hL) w hw
    · simp only [hL, hR, decide_true, decide_false, sub, List.mem_cons] at hw
      rcases hw with rfl | hw
      · exact ⟨hid, fun _ _ _ h => by cases h⟩
      · exact ihb hb (hsr hR) w hw
    · -- an executed case took one of its sides
      exfalso
      rcases hc with h | h
      · exact hL h.1
      · exact hR h.1
  | assertl id a ih =>
    intro hu hid w hw
    have ha : a ∈ sub s := sub_trans (by simp [sub, self_mem_sub]) hu
    have hc := ec _ hu hid
    simp only [pruneBy, sub, List.mem_cons] at hw
    rcases hw with rfl | hw
    · exact ⟨hid, fun _ _ _ h => by cases h⟩
    · exact ih ha hc.2 w hw
  | assertr id b ih =>
    intro hu hid w hw
    have hb : b ∈ sub s := sub_trans (by simp [sub, self_mem_sub]) hu
    have hc := ec _ hu hid
    simp only [pruneBy, sub, List.mem_cons] at hw
    rcases hw with rfl | hw
    · exact ⟨hid, fun _ _ _ h => by cases h⟩
    · exact ih hb hc.2 w hw

/-- **C08, anti-DoS**: in the pruned program every node is executed and every remaining case node
takes both branches — on the run of the *pruned* program itself (same trace, `prune_spec`) -/
theorem antiDoS (s : Sk) (hf : IdsFaithful s) (v o : Val) (tr : Tr) (h : eval s v = some (o, tr)) :
    eval (pruneBy tr.sides s) v = some (o, tr) ∧ ∀ w ∈ sub (pruneBy tr.sides s), AllUsed tr w :=
  ⟨eval_pruneBy _ s v o tr h (fun _ hp => hp),
   antiDoS_local s hf tr (eval_ran s v o tr h) s (self_mem_sub s) (eval_ran s v o tr h).root⟩

#print axioms prune_spec
#print axioms antiDoS
end PT
