/-
Spike: model of `PostOrderIter::next` (src/dag.rs) and its refinement to a
recursive specification.  A DAG handle is a tree `T` whose nodes carry a
pointer identity; sharing policies are `key : T → Option K`.
-/
namespace PO

inductive T where
  | leaf (id : Nat)
  | un (id : Nat) (l : T)
  | bin (id : Nat) (l r : T)
deriving Repr, DecidableEq

def T.left : T → Option T
  | .leaf _ => none
  | .un _ l => some l
  | .bin _ l _ => some l

def T.right : T → Option T
  | .leaf _ => none
  | .un _ _ => none
  | .bin _ _ r => some r

inductive Prev | root | parentLeft | siblingLeft | parentRight
deriving Repr, DecidableEq

structure Item where
  elem : T
  processed : Bool
  lidx : Option Nat
  ridx : Option Nat
  prev : Prev
deriving Repr

structure Out where
  node : T
  index : Nat
  lidx : Option Nat
  ridx : Option Nat
deriving Repr, DecidableEq

variable {K : Type} [DecidableEq K]

/-- tracker state: which keys were recorded at which index -/
abbrev Seen (K : Type) := K → Option Nat

structure St (K : Type) where
  index : Nat
  stack : List Item      -- head = top of the Rust `Vec`
  seen : Seen K

def seenBefore (key : T → Option K) (seen : Seen K) (t : T) : Option Nat :=
  (key t).bind seen

/-- `SharingTracker::record` -/
def record (key : T → Option K) (seen : Seen K) (t : T) (idx : Nat) : Option Nat × Seen K :=
  match key t with
  | none => (none, seen)
  | some k =>
    match seen k with
    | some i => (some i, seen)
    | none => (none, fun k' => if k' = k then some idx else seen k')

inductive Child | none | rep (idx : Nat) | new (t : T)

def childStatus (key : T → Option K) (seen : Seen K) : Option T → Child
  | .none => .none
  | .some c => match seenBefore key seen c with
    | some i => .rep i
    | none => .new c

def unprocessed (t : T) (p : Prev) : Item := ⟨t, false, none, none, p⟩

/-- back-patching of the parent's child index through `Previous` -/
def patch (p : Prev) (ci : Nat) (stack : List Item) : List Item :=
  match p, stack with
  | .root, s => s
  | .parentLeft, par :: s => { par with lidx := some ci } :: s
  | .parentRight, par :: s => { par with ridx := some ci } :: s
  | .siblingLeft, sib :: par :: s => sib :: { par with lidx := some ci } :: s
  | _, s => s   -- the Rust code would panic (index out of range / assert)

@[simp] theorem patch_root (ci : Nat) (s : List Item) : patch .root ci s = s := by
  cases s <;> rfl
@[simp] theorem patch_parentLeft (ci : Nat) (par : Item) (s : List Item) :
    patch .parentLeft ci (par :: s) = { par with lidx := some ci } :: s := rfl
@[simp] theorem patch_parentRight (ci : Nat) (par : Item) (s : List Item) :
    patch .parentRight ci (par :: s) = { par with ridx := some ci } :: s := rfl
@[simp] theorem patch_siblingLeft (ci : Nat) (sib par : Item) (s : List Item) :
    patch .siblingLeft ci (sib :: par :: s) = sib :: { par with lidx := some ci } :: s := rfl

/-- one iteration of the `loop` body of `PostOrderIter::next`; `none` = stack empty -/
def step (key : T → Option K) (s : St K) : Option (St K × Option Out) :=
  match s.stack with
  | [] => none
  | cur :: rest =>
    if !cur.processed then
      let cur := { cur with processed := true }
      match childStatus key s.seen cur.elem.left, childStatus key s.seen cur.elem.right with
      | .none, _ => some ({ s with stack := cur :: rest }, none)
      | .rep i, .none => some ({ s with stack := { cur with lidx := some i } :: rest }, none)
      | .new c, .none => some ({ s with stack := unprocessed c .parentLeft :: cur :: rest }, none)
      | .rep li, .rep ri =>
        some ({ s with stack := { cur with lidx := some li, ridx := some ri } :: rest }, none)
      | .new c, .rep i =>
        some ({ s with stack := unprocessed c .parentLeft :: { cur with ridx := some i } :: rest }, none)
      | .rep i, .new c =>
        some ({ s with stack := unprocessed c .parentRight :: { cur with lidx := some i } :: rest }, none)
      | .new l, .new r =>
        some ({ s with stack := unprocessed l .siblingLeft :: unprocessed r .parentRight :: cur :: rest }, none)
    else
      let (already, seen') := record key s.seen cur.elem s.index
      let ci := already.getD s.index
      let stack' := patch cur.prev ci rest
      match already with
      | some _ => some ({ s with stack := stack', seen := seen' }, none)
      | none =>
        some ({ index := s.index + 1, stack := stack', seen := seen' },
              some ⟨cur.elem, ci, cur.lidx, cur.ridx⟩)

/-- reflexive-transitive closure of `step`, collecting outputs -/
inductive Steps (key : T → Option K) : St K → List Out → St K → Prop
  | refl (s) : Steps key s [] s
  | cons {s s' s'' o outs} : step key s = some (s', o) → Steps key s' outs s'' →
      Steps key s (o.toList ++ outs) s''

theorem Steps.trans {key : T → Option K} {a b c : St K} {o1 o2 : List Out}
    (h1 : Steps key a o1 b) (h2 : Steps key b o2 c) : Steps key a (o1 ++ o2) c := by
  induction h1 with
  | refl => simpa using h2
  | cons hs _ ih => rw [List.append_assoc]; exact Steps.cons hs (ih h2)

theorem Steps.one {key : T → Option K} {s s' : St K} {o}
    (h : step key s = some (s', o)) : Steps key s o.toList s' := by
  have := Steps.cons h (Steps.refl s')
  simpa using this

/-- recursive specification: result = (outputs, seen', index', index of this node's class) -/
def visit (key : T → Option K) : T → Seen K → Nat → List Out × Seen K × Nat × Nat
  | .leaf id, seen, idx => fin (.leaf id) none none [] seen idx
  | .un id l, seen, idx =>
    match seenBefore key seen l with
    | some i => fin (.un id l) (some i) none [] seen idx
    | none =>
      let a := visit key l seen idx
      fin (.un id l) (some a.2.2.2) none a.1 a.2.1 a.2.2.1
  | .bin id l r, seen, idx =>
    -- both children statuses are looked up before descending, as in the code
    match seenBefore key seen l, seenBefore key seen r with
    | some li, some ri => fin (.bin id l r) (some li) (some ri) [] seen idx
    | some li, none =>
      let b := visit key r seen idx
      fin (.bin id l r) (some li) (some b.2.2.2) b.1 b.2.1 b.2.2.1
    | none, some ri =>
      let a := visit key l seen idx
      fin (.bin id l r) (some a.2.2.2) (some ri) a.1 a.2.1 a.2.2.1
    | none, none =>
      let a := visit key l seen idx
      let b := visit key r a.2.1 a.2.2.1
      fin (.bin id l r) (some a.2.2.2) (some b.2.2.2) (a.1 ++ b.1) b.2.1 b.2.2.1
where
  fin (t : T) (li ri : Option Nat) (outs : List Out) (seen : Seen K) (idx : Nat) :
      List Out × Seen K × Nat × Nat :=
    match record key seen t idx with
    | (some i, seen') => (outs, seen', idx, i)
    | (none, seen') => (outs ++ [⟨t, idx, li, ri⟩], seen', idx + 1, idx)


section Sim
variable (key : T → Option K)

theorem fin_outs (t : T) (li ri : Option Nat) (outs : List Out) (seen : Seen K) (idx : Nat) :
    visit.fin key t li ri outs seen idx =
      (outs ++ (visit.fin key t li ri [] seen idx).1,
       (visit.fin key t li ri [] seen idx).2.1,
       (visit.fin key t li ri [] seen idx).2.2.1,
       (visit.fin key t li ri [] seen idx).2.2.2) := by
  unfold visit.fin
  cases h : record key seen t idx with
  | mk a seen' => cases a <;> simp

/-- a processed item on top of the stack is recorded, patched into its parent and (maybe) yielded -/
theorem fin_steps (t : T) (li ri : Option Nat) (p : Prev) (rest : List Item) (seen : Seen K) (idx : Nat) :
    Steps key ⟨idx, ⟨t, true, li, ri, p⟩ :: rest, seen⟩
      (visit.fin key t li ri [] seen idx).1
      ⟨(visit.fin key t li ri [] seen idx).2.2.1,
       patch p (visit.fin key t li ri [] seen idx).2.2.2 rest,
       (visit.fin key t li ri [] seen idx).2.1⟩ := by
  have hstep : step key ⟨idx, ⟨t, true, li, ri, p⟩ :: rest, seen⟩ =
      some (match record key seen t idx with
        | (some i, seen') => (⟨idx, patch p i rest, seen'⟩, none)
        | (none, seen') => (⟨idx + 1, patch p idx rest, seen'⟩, some ⟨t, idx, li, ri⟩)) := by
    simp only [step, Bool.not_true, Bool.false_eq_true, if_false]
    cases h : record key seen t idx with
    | mk a seen' => cases a <;> simp [Option.getD]
  unfold visit.fin
  cases h : record key seen t idx with
  | mk a seen' =>
    rw [h] at hstep
    cases a with
    | none => simpa using Steps.one hstep
    | some i => simpa using Steps.one hstep

theorem sim (t : T) : ∀ (p : Prev) (rest : List Item) (seen : Seen K) (idx : Nat),
    Steps key ⟨idx, unprocessed t p :: rest, seen⟩
      (visit key t seen idx).1
      ⟨(visit key t seen idx).2.2.1, patch p (visit key t seen idx).2.2.2 rest, (visit key t seen idx).2.1⟩ := by
  induction t with
  | leaf id =>
    intro p rest seen idx
    have h1 : step key ⟨idx, unprocessed (.leaf id) p :: rest, seen⟩ =
        some (⟨idx, ⟨.leaf id, true, none, none, p⟩ :: rest, seen⟩, none) := by
      simp [step, unprocessed, childStatus, T.left]
    have := Steps.trans (Steps.one h1) (fin_steps key (.leaf id) none none p rest seen idx)
    simpa [visit] using this
  | un id l ihl =>
    intro p rest seen idx
    cases hl : seenBefore key seen l with
    | some i =>
      have h1 : step key ⟨idx, unprocessed (.un id l) p :: rest, seen⟩ =
          some (⟨idx, ⟨.un id l, true, some i, none, p⟩ :: rest, seen⟩, none) := by
        simp [step, unprocessed, childStatus, T.left, T.right, hl]
      have := Steps.trans (Steps.one h1) (fin_steps key (.un id l) (some i) none p rest seen idx)
      simpa [visit, childStatus, T.left, T.right, hl] using this
    | none =>
      have h1 : step key ⟨idx, unprocessed (.un id l) p :: rest, seen⟩ =
          some (⟨idx, unprocessed l .parentLeft :: ⟨.un id l, true, none, none, p⟩ :: rest, seen⟩, none) := by
        simp [step, unprocessed, childStatus, T.left, T.right, hl]
      have h2 := ihl .parentLeft (⟨.un id l, true, none, none, p⟩ :: rest) seen idx
      simp only [patch_parentLeft, patch_parentRight, patch_siblingLeft] at h2
      have h3 := fin_steps key (.un id l) (some (visit key l seen idx).2.2.2) none p rest
        (visit key l seen idx).2.1 (visit key l seen idx).2.2.1
      have := Steps.trans (Steps.one h1) (Steps.trans h2 h3)
      simp only [visit, hl]
      rw [fin_outs]
      simpa using this
  | bin id l r ihl ihr =>
    intro p rest seen idx
    cases hl : seenBefore key seen l with
    | some li =>
      cases hr : seenBefore key seen r with
      | some ri =>
        have h1 : step key ⟨idx, unprocessed (.bin id l r) p :: rest, seen⟩ =
            some (⟨idx, ⟨.bin id l r, true, some li, some ri, p⟩ :: rest, seen⟩, none) := by
          simp [step, unprocessed, childStatus, T.left, T.right, hl, hr]
        have := Steps.trans (Steps.one h1)
          (fin_steps key (.bin id l r) (some li) (some ri) p rest seen idx)
        simpa [visit, childStatus, T.left, T.right, hl, hr] using this
      | none =>
        have h1 : step key ⟨idx, unprocessed (.bin id l r) p :: rest, seen⟩ =
            some (⟨idx, unprocessed r .parentRight ::
              ⟨.bin id l r, true, some li, none, p⟩ :: rest, seen⟩, none) := by
          simp [step, unprocessed, childStatus, T.left, T.right, hl, hr]
        have h2 := ihr .parentRight (⟨.bin id l r, true, some li, none, p⟩ :: rest) seen idx
        simp only [patch_parentLeft, patch_parentRight, patch_siblingLeft] at h2
        have h3 := fin_steps key (.bin id l r) (some li) (some (visit key r seen idx).2.2.2) p rest
          (visit key r seen idx).2.1 (visit key r seen idx).2.2.1
        have := Steps.trans (Steps.one h1) (Steps.trans h2 h3)
        simp only [visit, hl, hr]
        rw [fin_outs]
        simpa using this
    | none =>
      cases hr : seenBefore key seen r with
      | some ri =>
        have h1 : step key ⟨idx, unprocessed (.bin id l r) p :: rest, seen⟩ =
            some (⟨idx, unprocessed l .parentLeft ::
              ⟨.bin id l r, true, none, some ri, p⟩ :: rest, seen⟩, none) := by
          simp [step, unprocessed, childStatus, T.left, T.right, hl, hr]
        have h2 := ihl .parentLeft (⟨.bin id l r, true, none, some ri, p⟩ :: rest) seen idx
        simp only [patch_parentLeft, patch_parentRight, patch_siblingLeft] at h2
        have h3 := fin_steps key (.bin id l r) (some (visit key l seen idx).2.2.2) (some ri) p rest
          (visit key l seen idx).2.1 (visit key l seen idx).2.2.1
        have := Steps.trans (Steps.one h1) (Steps.trans h2 h3)
        simp only [visit, hl, hr]
        rw [fin_outs]
        simpa using this
      | none =>
        have h1 : step key ⟨idx, unprocessed (.bin id l r) p :: rest, seen⟩ =
            some (⟨idx, unprocessed l .siblingLeft :: unprocessed r .parentRight ::
              ⟨.bin id l r, true, none, none, p⟩ :: rest, seen⟩, none) := by
          simp [step, unprocessed, childStatus, T.left, T.right, hl, hr]
        have h2 := ihl .siblingLeft (unprocessed r .parentRight ::
          ⟨.bin id l r, true, none, none, p⟩ :: rest) seen idx
        simp only [patch_parentLeft, patch_parentRight, patch_siblingLeft] at h2
        have h3 := ihr .parentRight
          (⟨.bin id l r, true, some (visit key l seen idx).2.2.2, none, p⟩ :: rest)
          (visit key l seen idx).2.1 (visit key l seen idx).2.2.1
        simp only [patch_parentLeft, patch_parentRight, patch_siblingLeft] at h3
        have h4 := fin_steps key (.bin id l r) (some (visit key l seen idx).2.2.2)
          (some (visit key r (visit key l seen idx).2.1 (visit key l seen idx).2.2.1).2.2.2) p rest
          (visit key r (visit key l seen idx).2.1 (visit key l seen idx).2.2.1).2.1
          (visit key r (visit key l seen idx).2.1 (visit key l seen idx).2.2.1).2.2.1
        have := Steps.trans (Steps.one h1) (Steps.trans h2 (Steps.trans h3 h4))
        simp only [visit, hl, hr]
        rw [fin_outs]
        simpa [List.append_assoc] using this

/-- the iterator started on `root` runs to an empty stack yielding exactly `visit`'s outputs -/
theorem postOrder_eq_visit (root : T) :
    Steps key ⟨0, [unprocessed root .root], fun _ => none⟩
      (visit key root (fun _ => none) 0).1
      ⟨(visit key root (fun _ => none) 0).2.2.1, [], (visit key root (fun _ => none) 0).2.1⟩ := by
  simpa using sim key root .root [] (fun _ => none) 0

end Sim

#print axioms PO.postOrder_eq_visit
end PO
