/-
Spike: C10 — abstract value layer: padded / compact encodings, decoders, prune.
-/
namespace Vl

inductive Ty | one | sum (a b : Ty) | prod (a b : Ty)
deriving DecidableEq, Repr

def Ty.bw : Ty → Nat
  | .one => 0
  | .sum a b => 1 + max a.bw b.bw
  | .prod a b => a.bw + b.bw

def padL (a b : Ty) : Nat := max a.bw b.bw - a.bw
def padR (a b : Ty) : Nat := max a.bw b.bw - b.bw

inductive Val | unit | inl (v : Val) | inr (v : Val) | pair (a b : Val)
deriving DecidableEq, Repr

inductive HasTy : Val → Ty → Prop
  | unit : HasTy .unit .one
  | inl {v a b} : HasTy v a → HasTy (.inl v) (.sum a b)
  | inr {v a b} : HasTy v b → HasTy (.inr v) (.sum a b)
  | pair {x y a b} : HasTy x a → HasTy y b → HasTy (.pair x y) (.prod a b)

/-- padded encoding with zero padding (what the constructors produce) -/
def padded : Ty → Val → List Bool
  | .sum a b, .inl v => false :: (List.replicate (padL a b) false ++ padded a v)
  | .sum a b, .inr v => true :: (List.replicate (padR a b) false ++ padded b v)
  | .prod a b, .pair x y => padded a x ++ padded b y
  | _, _ => []

/-- compact encoding: tags and leaves only -/
def compact : Val → List Bool
  | .unit => []
  | .inl v => false :: compact v
  | .inr v => true :: compact v
  | .pair x y => compact x ++ compact y

/-- type-directed decoder of the padded form; padding content is skipped, whatever it is -/
def decPadded : Ty → List Bool → Option (Val × List Bool)
  | .one, bs => some (.unit, bs)
  | .sum _ _, [] => none
  | .sum a b, false :: bs =>
    if (bs.drop (padL a b)).length + padL a b = bs.length then
      (decPadded a (bs.drop (padL a b))).map fun (v, r) => (.inl v, r)
    else none
  | .sum a b, true :: bs =>
    if (bs.drop (padR a b)).length + padR a b = bs.length then
      (decPadded b (bs.drop (padR a b))).map fun (v, r) => (.inr v, r)
    else none
  | .prod a b, bs =>
    match decPadded a bs with
    | none => none
    | some (x, r) => (decPadded b r).map fun (y, r') => (.pair x y, r')

def decCompact : Ty → List Bool → Option (Val × List Bool)
  | .one, bs => some (.unit, bs)
  | .sum _ _, [] => none
  | .sum a _, false :: bs => (decCompact a bs).map fun (v, r) => (.inl v, r)
  | .sum _ b, true :: bs => (decCompact b bs).map fun (v, r) => (.inr v, r)
  | .prod a b, bs =>
    match decCompact a bs with
    | none => none
    | some (x, r) => (decCompact b r).map fun (y, r') => (.pair x y, r')

theorem padded_length {t v} (h : HasTy v t) : (padded t v).length = t.bw := by
  induction h with
  | unit => rfl
  | inl _ ih => simp [padded, Ty.bw, ih, padL]; omega
  | inr _ ih => simp [padded, Ty.bw, ih, padR]; omega
  | pair _ _ ih1 ih2 => simp [padded, Ty.bw, ih1, ih2]

/-- `Enc t v bs`: a padded encoding with arbitrary padding content -/
inductive Enc : Ty → Val → List Bool → Prop
  | unit : Enc .one .unit []
  | inl {a b v bs pad} : Enc a v bs → pad.length = padL a b → Enc (.sum a b) (.inl v) (false :: (pad ++ bs))
  | inr {a b v bs pad} : Enc b v bs → pad.length = padR a b → Enc (.sum a b) (.inr v) (true :: (pad ++ bs))
  | pair {a b x y bx by'} : Enc a x bx → Enc b y by' → Enc (.prod a b) (.pair x y) (bx ++ by')

theorem enc_padded {t v} (h : HasTy v t) : Enc t v (padded t v) := by
  induction h with
  | unit => exact .unit
  | inl _ ih => exact .inl ih (by simp)
  | inr _ ih => exact .inr ih (by simp)
  | pair _ _ ih1 ih2 => exact .pair ih1 ih2

/-- decoding any padded encoding (arbitrary padding) returns the value and consumes exactly it -/
theorem decPadded_enc {t v bs} (h : Enc t v bs) (rest : List Bool) :
    decPadded t (bs ++ rest) = some (v, rest) := by
  induction h generalizing rest with
  | unit => simp [decPadded]
  | @inl a b v bs pad _ hp ih =>
    simp only [List.cons_append, decPadded, List.append_assoc]
    have : (pad ++ (bs ++ rest)).drop (padL a b) = bs ++ rest := by
      rw [← hp]; simp
    rw [this, ih]
    simp [hp]; omega
  | @inr a b v bs pad _ hp ih =>
    simp only [List.cons_append, decPadded, List.append_assoc]
    have : (pad ++ (bs ++ rest)).drop (padR a b) = bs ++ rest := by
      rw [← hp]; simp
    rw [this, ih]
    simp [hp]; omega
  | pair _ _ ih1 ih2 =>
    simp only [decPadded, List.append_assoc]
    rw [ih1]; simp only []; rw [ih2]; rfl

theorem decCompact_compact {t v} (h : HasTy v t) (rest : List Bool) :
    decCompact t (compact v ++ rest) = some (v, rest) := by
  induction h generalizing rest with
  | unit => simp [decCompact, compact]
  | inl _ ih => simp [decCompact, compact, ih]
  | inr _ ih => simp [decCompact, compact, ih]
  | pair _ _ ih1 ih2 =>
    simp only [decCompact, compact, List.append_assoc]
    rw [ih1]; simp only []; rw [ih2]; rfl

/-- removing the padding of a padded encoding gives the compact encoding -/
def strip : Ty → List Bool → List Bool
  | .one, _ => []
  | .sum _ _, [] => []
  | .sum a b, false :: bs => false :: strip a (bs.drop (padL a b))
  | .sum a b, true :: bs => true :: strip b (bs.drop (padR a b))
  | .prod a b, bs => strip a (bs.take a.bw) ++ strip b (bs.drop a.bw)

theorem Enc.length {t v bs} (h : Enc t v bs) : bs.length = t.bw := by
  induction h with
  | unit => rfl
  | inl _ hp ih => simp [Ty.bw, ih, hp, padL]; omega
  | inr _ hp ih => simp [Ty.bw, ih, hp, padR]; omega
  | pair _ _ ih1 ih2 => simp [Ty.bw, ih1, ih2]

theorem strip_enc {t v bs} (h : Enc t v bs) : strip t bs = compact v := by
  induction h with
  | unit => rfl
  | @inl a b v bs pad _ hp ih =>
    simp only [strip, compact]
    have : (pad ++ bs).drop (padL a b) = bs := by rw [← hp]; simp
    rw [this, ih]
  | @inr a b v bs pad _ hp ih =>
    simp only [strip, compact]
    have : (pad ++ bs).drop (padR a b) = bs := by rw [← hp]; simp
    rw [this, ih]
  | @pair a b x y bx by' h1 h2 ih1 ih2 =>
    simp only [strip, compact]
    have hl := h1.length
    have : (bx ++ by').take a.bw = bx := by rw [← hl]; simp
    have h' : (bx ++ by').drop a.bw = by' := by rw [← hl]; simp
    rw [this, h', ih1, ih2]

/-! ### prune -/

/-- `Value::prune`, value-directed as in the code: the untaken side of a sum target is unconstrained -/
def prune : Val → Ty → Option Val
  | _, .one => some .unit
  | .inl v, .sum a _ => (prune v a).map .inl
  | .inr v, .sum _ b => (prune v b).map .inr
  | .pair x y, .prod a b =>
    match prune x a, prune y b with
    | some x', some y' => some (.pair x' y')
    | _, _ => none
  | _, _ => none

inductive Le : Ty → Ty → Prop
  | one (t) : Le .one t
  | sum {a a' b b'} : Le a a' → Le b b' → Le (.sum a b) (.sum a' b')
  | prod {a a' b b'} : Le a a' → Le b b' → Le (.prod a b) (.prod a' b')

theorem Le.refl : ∀ t, Le t t
  | .one => .one _
  | .sum a b => .sum (Le.refl a) (Le.refl b)
  | .prod a b => .prod (Le.refl a) (Le.refl b)

/-- the result of a successful prune is a value of exactly the target type -/
theorem prune_hasTy : ∀ (v : Val) (t : Ty) (w : Val), prune v t = some w → HasTy w t := by
  intro v
  induction v with
  | unit =>
    intro t w h
    cases t <;> simp [prune] at h
    subst h; exact .unit
  | inl v ih =>
    intro t w h
    cases t with
    | one => simp [prune] at h; subst h; exact .unit
    | sum a b =>
      simp only [prune, Option.map_eq_some_iff] at h
      obtain ⟨w', hw', rfl⟩ := h
      exact .inl (ih a w' hw')
    | prod a b => simp [prune] at h
  | inr v ih =>
    intro t w h
    cases t with
    | one => simp [prune] at h; subst h; exact .unit
    | sum a b =>
      simp only [prune, Option.map_eq_some_iff] at h
      obtain ⟨w', hw', rfl⟩ := h
      exact .inr (ih b w' hw')
    | prod a b => simp [prune] at h
  | pair x y ihx ihy =>
    intro t w h
    cases t with
    | one => simp [prune] at h; subst h; exact .unit
    | sum a b => simp [prune] at h
    | prod a b =>
      simp only [prune] at h
      cases hx : prune x a with
      | none => simp [hx] at h
      | some x' =>
        cases hy : prune y b with
        | none => simp [hx, hy] at h
        | some y' =>
          simp [hx, hy] at h; subst h
          exact .pair (ihx a x' hx) (ihy b y' hy)

/-- pruning to a type below the value's own type always succeeds -/
theorem prune_of_le {v t} (hv : HasTy v t) : ∀ {t'}, Le t' t → ∃ w, prune v t' = some w := by
  induction hv with
  | unit => intro t' h; cases h; exact ⟨.unit, rfl⟩
  | inl _ ih =>
    intro t' h
    cases h with
    | one => exact ⟨.unit, rfl⟩
    | sum ha _ => obtain ⟨w, hw⟩ := ih ha; exact ⟨.inl w, by simp [prune, hw]⟩
  | inr _ ih =>
    intro t' h
    cases h with
    | one => exact ⟨.unit, rfl⟩
    | sum _ hb => obtain ⟨w, hw⟩ := ih hb; exact ⟨.inr w, by simp [prune, hw]⟩
  | pair _ _ ih1 ih2 =>
    intro t' h
    cases h with
    | one => exact ⟨.unit, rfl⟩
    | prod ha hb =>
      obtain ⟨x', hx⟩ := ih1 ha
      obtain ⟨y', hy⟩ := ih2 hb
      exact ⟨.pair x' y', by simp [prune, hx, hy]⟩

/-- pruning in two steps equals pruning in one -/
theorem prune_prune : ∀ (v : Val) (t1 t2 : Ty) (w : Val), prune v t1 = some w → Le t2 t1 →
    prune w t2 = prune v t2 := by
  intro v
  induction v with
  | unit =>
    intro t1 t2 w h hle
    cases t1 <;> simp [prune] at h
    subst h; cases hle; rfl
  | inl v ih =>
    intro t1 t2 w h hle
    cases hle with
    | one => cases w <;> rfl
    | sum ha hb =>
      simp only [prune, Option.map_eq_some_iff] at h
      obtain ⟨w', hw', rfl⟩ := h
      simp only [prune]; rw [ih _ _ _ hw' ha]
    | prod ha hb => simp [prune] at h
  | inr v ih =>
    intro t1 t2 w h hle
    cases hle with
    | one => cases w <;> rfl
    | sum ha hb =>
      simp only [prune, Option.map_eq_some_iff] at h
      obtain ⟨w', hw', rfl⟩ := h
      simp only [prune]; rw [ih _ _ _ hw' hb]
    | prod ha hb => simp [prune] at h
  | pair x y ihx ihy =>
    intro t1 t2 w h hle
    cases hle with
    | one => cases w <;> rfl
    | sum ha hb => simp [prune] at h
    | @prod a a' b b' ha hb =>
      simp only [prune] at h
      cases hx : prune x a' with
      | none => simp [hx] at h
      | some x' =>
        cases hy : prune y b' with
        | none => simp [hx, hy] at h
        | some y' =>
          simp [hx, hy] at h; subst h
          simp only [prune]
          rw [ihx _ _ _ hx ha, ihy _ _ _ hy hb]

/-- pruning to its own type is the identity -/
theorem prune_self {v t} (h : HasTy v t) : prune v t = some v := by
  induction h with
  | unit => rfl
  | inl _ ih => simp [prune, ih]
  | inr _ ih => simp [prune, ih]
  | pair _ _ ih1 ih2 => simp [prune, ih1, ih2]

#print axioms decPadded_enc
#print axioms strip_enc
#print axioms prune_prune
end Vl

namespace Vl
/-- **C11 core**: on values of one type the compact encoding is injective, so comparing
`(type, compact bits)` is comparing the denoted elements -/
theorem compact_inj {t v w} (hv : HasTy v t) (hw : HasTy w t) (h : compact v = compact w) : v = w := by
  have a := decCompact_compact hv []
  have b := decCompact_compact hw []
  rw [h] at a
  rw [a] at b
  cases b; rfl

/-- a machine result (any padding content) and a constructed value of the same element compare equal
once both are reduced to compact form -/
theorem strip_eq_of_enc {t v bs bs'} (h : Enc t v bs) (h' : Enc t v bs') : strip t bs = strip t bs' := by
  rw [strip_enc h, strip_enc h']

#print axioms compact_inj
end Vl

namespace Vl
/-- **canonicity of the compact decoder**: whatever it accepts is the compact encoding of the
well-typed value it returns, followed by exactly the rest -/
theorem decCompact_canonical : ∀ (t : Ty) (bs : List Bool) (v : Val) (r : List Bool),
    decCompact t bs = some (v, r) → bs = compact v ++ r ∧ HasTy v t
  | .one, bs, v, r, h => by simp [decCompact] at h; obtain ⟨rfl, rfl⟩ := h; exact ⟨rfl, .unit⟩
  | .sum a b, [], v, r, h => by simp [decCompact] at h
  | .sum a b, false :: bs, v, r, h => by
    simp only [decCompact, Option.map_eq_some_iff] at h
    obtain ⟨⟨v', r'⟩, h1, h2⟩ := h
    cases h2
    obtain ⟨e, ht⟩ := decCompact_canonical a bs v' r' h1
    exact ⟨by simp [compact, e], .inl ht⟩
  | .sum a b, true :: bs, v, r, h => by
    simp only [decCompact, Option.map_eq_some_iff] at h
    obtain ⟨⟨v', r'⟩, h1, h2⟩ := h
    cases h2
    obtain ⟨e, ht⟩ := decCompact_canonical b bs v' r' h1
    exact ⟨by simp [compact, e], .inr ht⟩
  | .prod a b, bs, v, r, h => by
    simp only [decCompact] at h
    cases h1 : decCompact a bs with
    | none => simp [h1] at h
    | some p =>
      obtain ⟨x, r1⟩ := p
      simp only [h1, Option.map_eq_some_iff] at h
      obtain ⟨⟨y, r2⟩, h2, h3⟩ := h
      cases h3
      obtain ⟨e1, t1⟩ := decCompact_canonical a bs x r1 h1
      obtain ⟨e2, t2⟩ := decCompact_canonical b r1 y r2 h2
      exact ⟨by simp [compact, e1, e2], .pair t1 t2⟩

/-- the witness stream: the compact encodings of the witness values, in node order -/
def encWitness : List Val → List Bool
  | [] => []
  | v :: vs => compact v ++ encWitness vs

/-- read one value per witness node, with that node's (inferred) target type -/
def decWitness : List Ty → List Bool → Option (List Val × List Bool)
  | [], bs => some ([], bs)
  | t :: ts, bs =>
    match decCompact t bs with
    | none => none
    | some (v, r) => (decWitness ts r).map fun (vs, r') => (v :: vs, r')

/-- values matching the types one by one -/
def HasTys : List Val → List Ty → Prop
  | [], [] => True
  | v :: vs, t :: ts => HasTy v t ∧ HasTys vs ts
  | _, _ => False

theorem decWitness_encWitness : ∀ (vs : List Val) (ts : List Ty) (rest : List Bool), HasTys vs ts →
    decWitness ts (encWitness vs ++ rest) = some (vs, rest)
  | [], [], _, _ => rfl
  | v :: vs, t :: ts, rest, h => by
    simp only [encWitness, decWitness, List.append_assoc]
    rw [decCompact_compact h.1]
    simp only []
    rw [decWitness_encWitness vs ts rest h.2]; rfl
  | [], _ :: _, _, h => h.elim
  | _ :: _, [], _, h => h.elim

theorem decWitness_canonical : ∀ (ts : List Ty) (bs : List Bool) (vs : List Val) (r : List Bool),
    decWitness ts bs = some (vs, r) → bs = encWitness vs ++ r ∧ HasTys vs ts
  | [], bs, vs, r, h => by simp [decWitness] at h; obtain ⟨rfl, rfl⟩ := h; exact ⟨rfl, trivial⟩
  | t :: ts, bs, vs, r, h => by
    simp only [decWitness] at h
    cases h1 : decCompact t bs with
    | none => simp [h1] at h
    | some p =>
      obtain ⟨v, r1⟩ := p
      simp only [h1, Option.map_eq_some_iff] at h
      obtain ⟨⟨vs', r2⟩, h2, h3⟩ := h
      cases h3
      obtain ⟨e1, t1⟩ := decCompact_canonical t bs v r1 h1
      obtain ⟨e2, t2⟩ := decWitness_canonical ts r1 vs' r2 h2
      exact ⟨by simp [encWitness, e1, e2], t1, t2⟩

#print axioms decWitness_encWitness
#print axioms decWitness_canonical
end Vl
