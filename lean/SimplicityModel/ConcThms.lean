/-
C20 — the global theorems: commutation of steps of different threads, any interleaving projected on
a thread is that thread's solo run up to an injective renaming of names, lazily filled memo tables.
-/
import SimplicityModel.ConcLemmas

namespace ConcModel
open BM4 (Ty)

/-! ### bookkeeping -/

@[simp] theorem upd_same {α : Type} (f : Nat → α) (k : Nat) (v : α) : upd f k v k = v := by simp [upd]
theorem upd_other {α : Type} (f : Nat → α) {k j : Nat} (v : α) (h : j ≠ k) : upd f k v j = f j := by simp [upd, h]

theorem upd_comm {α : Type} (f : Nat → α) {k j : Nat} (v w : α) (h : k ≠ j) :
    upd (upd f k v) j w = upd (upd f j w) k v := by
  funext x
  simp only [upd]
  by_cases h1 : x = j <;> by_cases h2 : x = k <;> simp [h1, h2]
  · exact absurd (h2.symm.trans h1) h
  · intro h3; exact absurd h3.symm h
  · intro h3; exact absurd h3 h

theorem step_ctx_self (E : Env) (g : G) (st : Step) :
    (step E g st).1.ctxs st.ctx = (act E st.op g.next (g.ctxs st.ctx) (g.tls st.tid)).slab := by
  simp [step]
theorem step_ctx_other (E : Env) (g : G) (st : Step) {c : Nat} (h : c ≠ st.ctx) :
    (step E g st).1.ctxs c = g.ctxs c := by
  simp [step, upd, h]
theorem step_tls_self (E : Env) (g : G) (st : Step) :
    (step E g st).1.tls st.tid = (act E st.op g.next (g.ctxs st.ctx) (g.tls st.tid)).tbl := by
  simp [step]
theorem step_tls_other (E : Env) (g : G) (st : Step) {t : Nat} (h : t ≠ st.tid) :
    (step E g st).1.tls t = g.tls t := by
  simp [step, upd, h]
theorem step_res (E : Env) (g : G) (st : Step) :
    (step E g st).2 = (act E st.op g.next (g.ctxs st.ctx) (g.tls st.tid)).res := rfl

@[simp] theorem step_next (E : Env) (g : G) (st : Step) : (step E g st).1.next = g.next + st.op.names := rfl

theorem run_next_le (E : Env) : ∀ (tr : List Step) (g : G), g.next ≤ (run E g tr).1.next
  | [], _ => Nat.le_refl _
  | st :: rest, g => by
    simp only [run]
    exact Nat.le_trans (Nat.le_add_right _ _) (run_next_le E rest (step E g st).1)

/-- the counter after a history: the names of all its operations were drawn -/
theorem run_next (E : Env) : ∀ (tr : List Step) (g : G),
    (run E g tr).1.next = g.next + (tr.map (·.op.names)).sum
  | [], _ => by simp [run]
  | st :: rest, g => by
    simp only [run, List.map_cons, List.sum_cons]
    rw [run_next E rest]
    simp [Nat.add_assoc]

/-- an operation that draws no name does not look at the counter -/
theorem act_counter_unused (E : Env) (op : Op) (h : op.names = 0) (n m : Nat) (s : Slab) (tb : Tbl) :
    act E op n s tb = act E op m s tb := by
  cases op <;> simp_all [act, Op.names]

/-! ### `step_commute` -/

/-- the renaming that undoes the swap of two adjacent steps: the first `k2` names drawn after `n`
move up by `k1`, the next `k1` move down by `k2` -/
def swapNames (n k1 k2 : Nat) (a : Nat) : Nat :=
  if a < n then a else if a < n + k2 then a + k1 else if a < n + k2 + k1 then a - k2 else a

theorem swapNames_inj (n k1 k2 : Nat) : ∀ a b, swapNames n k1 k2 a = swapNames n k1 k2 b → a = b := by
  intro a b h
  unfold swapNames at h
  by_cases a1 : a < n <;> by_cases a2 : a < n + k2 <;> by_cases a3 : a < n + k2 + k1 <;>
  by_cases b1 : b < n <;> by_cases b2 : b < n + k2 <;> by_cases b3 : b < n + k2 + k1 <;>
  simp only [a1, a2, a3, b1, b2, b3, if_true, if_false] at h <;> omega

/-- **Steps of different threads in different contexts commute**, up to the (injective) renaming of
the names they drew.  `st1` then `st2` from `g`, compared with `st2` then `st1` from `g`: same
counter, same tables, every slab equal after renaming the second run's names by `swapNames`, and each
step's result equal after the same renaming.

Hypotheses: the steps belong to different threads and work in different contexts (ownership), and
the names stored so far are below the counter (`Below`: true of every state reachable from `G.init`,
see `run_below`). -/
theorem step_commute (E : Env) (g : G) (st1 st2 : Step)
    (htid : st1.tid ≠ st2.tid) (hctx : st1.ctx ≠ st2.ctx)
    (hb : ∀ c, Below (g.ctxs c) g.next) :
    let a := step E g st1
    let ab := step E a.1 st2
    let b := step E g st2
    let ba := step E b.1 st1
    let ρ := swapNames g.next st1.op.names st2.op.names
    ab.1.next = ba.1.next ∧ ab.1.tls = ba.1.tls ∧
    (∀ c, ab.1.ctxs c = (ba.1.ctxs c).map (Bound.ren ρ)) ∧
    a.2 = ba.2.ren ρ ∧ ab.2 = b.2.ren ρ := by
  intro a ab b ba ρ
  have hb1 := hb st1.ctx
  have hb2 := hb st2.ctx
  have hfix : ∀ x, x < g.next → ρ x = x := by intro x hx; simp [ρ, swapNames, hx]
  have hs1 : (g.ctxs st1.ctx).map (Bound.ren ρ) = g.ctxs st1.ctx := by
    have := slab_ren_congr (ρ := ρ) (ρ' := id) hb1 (by intro x hx; simp [hfix x hx])
    rw [this]; apply List.map_id''; intro b; cases b <;> rfl
  have hs2 : (g.ctxs st2.ctx).map (Bound.ren ρ) = g.ctxs st2.ctx := by
    have := slab_ren_congr (ρ := ρ) (ρ' := id) hb2 (by intro x hx; simp [hfix x hx])
    rw [this]; apply List.map_id''; intro b; cases b <;> rfl
  have hρ1 : st1.op.names ≠ 0 → ρ (g.next + st2.op.names) = g.next := by
    intro h; simp only [ρ, swapNames]
    by_cases c1 : g.next + st2.op.names < g.next <;> by_cases c2 : g.next + st2.op.names < g.next + st2.op.names <;>
    by_cases c3 : g.next + st2.op.names < g.next + st2.op.names + st1.op.names <;>
    simp only [c1, c2, c3, if_true, if_false] <;> omega
  have hρ2 : st2.op.names ≠ 0 → ρ g.next = g.next + st1.op.names := by
    intro h; simp only [ρ, swapNames]
    by_cases c1 : g.next < g.next <;> by_cases c2 : g.next < g.next + st2.op.names <;>
    simp only [c1, c2, if_true, if_false] <;> omega
  -- st1 from g (counter g.next) versus st1 after st2 (counter g.next + k2)
  have e1 : act E st1.op g.next (g.ctxs st1.ctx) (g.tls st1.tid) =
      ⟨(act E st1.op (g.next + st2.op.names) (g.ctxs st1.ctx) (g.tls st1.tid)).slab.map (Bound.ren ρ),
       (act E st1.op (g.next + st2.op.names) (g.ctxs st1.ctx) (g.tls st1.tid)).tbl,
       (act E st1.op (g.next + st2.op.names) (g.ctxs st1.ctx) (g.tls st1.tid)).res.ren ρ⟩ := by
    by_cases hf : st1.op.names = 0
    · have hx := act_counter_unused E st1.op hf (g.next + st2.op.names) (ρ (g.next + st2.op.names)) (g.ctxs st1.ctx) (g.tls st1.tid)
      have hy := act_counter_unused E st1.op hf g.next (ρ (g.next + st2.op.names)) (g.ctxs st1.ctx) (g.tls st1.tid)
      have := act_ren E ρ st1.op _ (g.next + st2.op.names) (g.ctxs st1.ctx) (g.tls st1.tid) rfl
      rw [hs1] at this
      rw [hy]; exact this
    · have := act_ren E ρ st1.op g.next (g.next + st2.op.names) (g.ctxs st1.ctx) (g.tls st1.tid) (hρ1 hf)
      rw [hs1] at this; exact this
  have e2 : act E st2.op (g.next + st1.op.names) (g.ctxs st2.ctx) (g.tls st2.tid) =
      ⟨(act E st2.op g.next (g.ctxs st2.ctx) (g.tls st2.tid)).slab.map (Bound.ren ρ),
       (act E st2.op g.next (g.ctxs st2.ctx) (g.tls st2.tid)).tbl,
       (act E st2.op g.next (g.ctxs st2.ctx) (g.tls st2.tid)).res.ren ρ⟩ := by
    by_cases hf : st2.op.names = 0
    · have hy := act_counter_unused E st2.op hf (g.next + st1.op.names) (ρ g.next) (g.ctxs st2.ctx) (g.tls st2.tid)
      have := act_ren E ρ st2.op _ g.next (g.ctxs st2.ctx) (g.tls st2.tid) rfl
      rw [hs2] at this
      rw [hy]; exact this
    · have := act_ren E ρ st2.op (g.next + st1.op.names) g.next (g.ctxs st2.ctx) (g.tls st2.tid) (hρ2 hf)
      rw [hs2] at this; exact this
  have hc12 : st2.ctx ≠ st1.ctx := fun h => hctx h.symm
  have ht12 : st2.tid ≠ st1.tid := fun h => htid h.symm
  -- the four `act` calls, with the states they see
  have hab : act E st2.op a.1.next (a.1.ctxs st2.ctx) (a.1.tls st2.tid) =
      act E st2.op (g.next + st1.op.names) (g.ctxs st2.ctx) (g.tls st2.tid) := by
    simp only [a, step_next, step_ctx_other E g st1 hc12, step_tls_other E g st1 ht12]
  have hba : act E st1.op b.1.next (b.1.ctxs st1.ctx) (b.1.tls st1.tid) =
      act E st1.op (g.next + st2.op.names) (g.ctxs st1.ctx) (g.tls st1.tid) := by
    simp only [b, step_next, step_ctx_other E g st2 hctx, step_tls_other E g st2 htid]
  refine ⟨?_, ?_, ?_, ?_, ?_⟩
  · simp only [ab, ba, a, b, step_next]; omega
  · funext t
    by_cases h2 : t = st2.tid
    · subst h2
      rw [show ab.1.tls st2.tid = _ from step_tls_self E a.1 st2, hab, e2]
      rw [show ba.1.tls st2.tid = _ from step_tls_other E b.1 st1 ht12]
      rw [show b.1.tls st2.tid = _ from step_tls_self E g st2]
    · by_cases h1 : t = st1.tid
      · subst h1
        rw [show ab.1.tls st1.tid = _ from step_tls_other E a.1 st2 htid]
        rw [show a.1.tls st1.tid = _ from step_tls_self E g st1, e1]
        rw [show ba.1.tls st1.tid = _ from step_tls_self E b.1 st1, hba]
      · rw [show ab.1.tls t = _ from step_tls_other E a.1 st2 h2, show a.1.tls t = _ from step_tls_other E g st1 h1]
        rw [show ba.1.tls t = _ from step_tls_other E b.1 st1 h1, show b.1.tls t = _ from step_tls_other E g st2 h2]
  · intro c
    by_cases h2 : c = st2.ctx
    · subst h2
      rw [show ab.1.ctxs st2.ctx = _ from step_ctx_self E a.1 st2, hab, e2]
      rw [show ba.1.ctxs st2.ctx = _ from step_ctx_other E b.1 st1 hc12]
      rw [show b.1.ctxs st2.ctx = _ from step_ctx_self E g st2]
    · by_cases h1 : c = st1.ctx
      · subst h1
        rw [show ab.1.ctxs st1.ctx = _ from step_ctx_other E a.1 st2 hctx]
        rw [show a.1.ctxs st1.ctx = _ from step_ctx_self E g st1, e1]
        rw [show ba.1.ctxs st1.ctx = _ from step_ctx_self E b.1 st1, hba]
      · rw [show ab.1.ctxs c = _ from step_ctx_other E a.1 st2 h2, show a.1.ctxs c = _ from step_ctx_other E g st1 h1]
        rw [show ba.1.ctxs c = _ from step_ctx_other E b.1 st1 h1, show b.1.ctxs c = _ from step_ctx_other E g st2 h2]
        -- untouched context: all its names are below the counter, hence fixed
        have := slab_ren_congr (ρ := ρ) (ρ' := id) (hb c) (by intro x hx; simp [hfix x hx])
        rw [this]; symm; apply List.map_id''; intro b; cases b <;> rfl
  · rw [show a.2 = _ from step_res E g st1, e1, show ba.2 = _ from step_res E b.1 st1, hba]
  · rw [show ab.2 = _ from step_res E a.1 st2, hab, e2, show b.2 = _ from step_res E g st2]

/-! ### every reachable state keeps its names below the counter -/

theorem step_below (E : Env) (g : G) (st : Step) (h : ∀ c, Below (g.ctxs c) g.next) :
    ∀ c, Below ((step E g st).1.ctxs c) (step E g st).1.next := by
  intro c
  by_cases hc : c = st.ctx
  · subst hc
    rw [step_ctx_self, step_next]
    exact act_below E st.op g.next _ _ (h st.ctx)
  · rw [step_ctx_other E g st hc, step_next]
    exact (h c).mono (Nat.le_add_right _ _)

theorem run_below (E : Env) : ∀ (tr : List Step) (g : G), (∀ c, Below (g.ctxs c) g.next) →
    ∀ c, Below ((run E g tr).1.ctxs c) (run E g tr).1.next
  | [], _, h => h
  | st :: rest, g, h => by
    simp only [run]
    exact run_below E rest _ (step_below E g st h)

theorem init_below : ∀ c, Below (G.init.ctxs c) G.init.next := by
  intro c a ha; simp [G.init] at ha

/-! ### `interleaving_eq_sequential` -/

/-- the simulation relation between the interleaved run (`g`) and the solo run of thread `t` (`g'`):
`t`'s contexts are the solo ones renamed by `ρ`, `t`'s table is the same, and `ρ` is injective on the
names the solo run has drawn so far and maps them to names the interleaved run has drawn -/
structure Rel (owner : Nat → Nat) (t : Nat) (ρ : Nat → Nat) (g g' : G) : Prop where
  ctx : ∀ c, owner c = t → g.ctxs c = (g'.ctxs c).map (Bound.ren ρ)
  tls : g.tls t = g'.tls t
  below : ∀ c, owner c = t → Below (g'.ctxs c) g'.next
  inj : ∀ a b, a < g'.next → b < g'.next → ρ a = ρ b → a = b
  range : ∀ a, a < g'.next → ρ a < g.next

/-- extend a renaming: names the solo run is about to draw (from `n'` on) go to the names the
interleaved run draws (from `n` on) -/
def extend (ρ : Nat → Nat) (n' n : Nat) (a : Nat) : Nat := if a < n' then ρ a else a - n' + n

theorem sim (E : Env) (owner : Nat → Nat) (t : Nat) :
    ∀ (tr : List Step) (g g' : G) (ρ : Nat → Nat), Rel owner t ρ g g' → Owned owner tr →
    ∃ ρ', (∀ a, a < g'.next → ρ' a = ρ a) ∧
      Rel owner t ρ' (run E g tr).1 (run E g' (proj t tr)).1 ∧
      resultsOf t (run E g tr).2 = ((run E g' (proj t tr)).2.map (fun p => p.2.ren ρ')) := by
  intro tr
  induction tr with
  | nil =>
    intro g g' ρ h _
    exact ⟨ρ, fun _ _ => rfl, by simpa [run, proj] using h, by simp [run, proj, resultsOf]⟩
  | cons st rest ih =>
    intro g g' ρ h hown
    have hown' : Owned owner rest := fun x hx => hown x (List.mem_cons_of_mem _ hx)
    have host : owner st.ctx = st.tid := hown st (List.mem_cons_self ..)
    by_cases ht : st.tid = t
    · -- a step of thread t: both runs perform it
      have hoc : owner st.ctx = t := host.trans ht
      let ρ1 := extend ρ g'.next g.next
      have hρ1 : ∀ a, a < g'.next → ρ1 a = ρ a := by intro a ha; simp [ρ1, extend, ha]
      have hnew : ρ1 g'.next = g.next := by simp [ρ1, extend]
      have hslab : g.ctxs st.ctx = (g'.ctxs st.ctx).map (Bound.ren ρ1) := by
        rw [h.ctx _ hoc]; exact slab_ren_congr (h.below _ hoc) (fun a ha => (hρ1 a ha).symm)
      have hact := act_ren E ρ1 st.op g.next g'.next (g'.ctxs st.ctx) (g'.tls st.tid) hnew
      rw [← hslab, ← (show g.tls st.tid = g'.tls st.tid by rw [ht]; exact h.tls)] at hact
      -- the relation after the step
      have hrel : Rel owner t ρ1 (step E g st).1 (step E g' st).1 := by
        refine ⟨?_, ?_, ?_, ?_, ?_⟩
        · intro c hc
          by_cases hcc : c = st.ctx
          · subst hcc
            rw [step_ctx_self, step_ctx_self, hact]
            rw [show g.tls st.tid = g'.tls st.tid by rw [ht]; exact h.tls]
          · rw [step_ctx_other E g st hcc, step_ctx_other E g' st hcc, h.ctx c hc]
            exact slab_ren_congr (h.below c hc) (fun a ha => (hρ1 a ha).symm)
        · rw [← ht, step_tls_self, step_tls_self, hact]
          rw [show g.tls st.tid = g'.tls st.tid by rw [ht]; exact h.tls]
        · intro c hc
          by_cases hcc : c = st.ctx
          · subst hcc
            rw [step_ctx_self, step_next]
            exact act_below E st.op g'.next _ _ (h.below _ hc)
          · rw [step_ctx_other E g' st hcc, step_next]
            exact (h.below c hc).mono (Nat.le_add_right _ _)
        · intro a b ha hb hab
          simp only [step_next] at ha hb
          simp only [ρ1, extend] at hab
          by_cases ha' : a < g'.next <;> by_cases hb' : b < g'.next <;> simp only [ha', hb', if_true, if_false] at hab
          · exact h.inj a b ha' hb' hab
          · have := h.range a ha'; omega
          · have := h.range b hb'; omega
          · omega
        · intro a ha
          simp only [step_next] at ha ⊢
          simp only [ρ1, extend]
          by_cases ha' : a < g'.next <;> simp only [ha', if_true, if_false]
          · have := h.range a ha'; omega
          · omega
      obtain ⟨ρ', hagree, hrel', hres⟩ := ih (step E g st).1 (step E g' st).1 ρ1 hrel hown'
      refine ⟨ρ', ?_, ?_, ?_⟩
      · intro a ha
        rw [hagree a (by simp only [step_next]; omega), hρ1 a ha]
      · simpa [run, proj, List.filter_cons, ht] using hrel'
      · have hhead : (step E g st).2 = ((step E g' st).2).ren ρ' := by
          rw [step_res, step_res, hact]
          rw [show g.tls st.tid = g'.tls st.tid by rw [ht]; exact h.tls]
          apply Res.ren_congr
          intro a ha
          have := act_res_names E st.op g'.next _ _ (h.below _ hoc) a ha
          exact (hagree a (by simp only [step_next]; omega)).symm
        simp only [run, proj, List.filter_cons, ht, decide_true, if_true, resultsOf, List.map_cons]
        simp only [resultsOf, proj] at hres
        rw [hres, hhead]
    · -- a step of another thread: it touches neither t's contexts nor t's table
      have hne : ∀ c, owner c = t → c ≠ st.ctx := by
        intro c hc e; subst e; exact ht (host.symm.trans hc)
      have hrel : Rel owner t ρ (step E g st).1 g' := by
        refine ⟨?_, ?_, h.below, h.inj, ?_⟩
        · intro c hc; rw [step_ctx_other E g st (hne c hc)]; exact h.ctx c hc
        · rw [step_tls_other E g st (fun e => ht e.symm)]; exact h.tls
        · intro a ha; have := h.range a ha; simp only [step_next]; omega
      obtain ⟨ρ', hagree, hrel', hres⟩ := ih (step E g st).1 g' ρ hrel hown'
      refine ⟨ρ', hagree, ?_, ?_⟩
      · simpa [run, proj, List.filter_cons, ht] using hrel'
      · simp only [run, proj, List.filter_cons, ht, decide_false, resultsOf]
        simpa [resultsOf, proj] using hres

/-- **Any interleaving, projected on one thread, is that thread's solo run** up to an injective
renaming of type-variable names.

For every history `tr` in which every context is used by its owner only (`Owned`), every thread `t`:
there is a renaming `ρ`, injective on the names the solo run of `t` draws, such that the results `t`
obtains in the interleaved run from `G.init` are the results of running `t`'s operations alone from
`G.init`, renamed by `ρ`; `t`'s contexts end up as the solo ones renamed by `ρ`, and `t`'s memo table
ends up the same.

Runtime hypotheses, not proved here: that the Rust code *is* such a transition system — an
operation reads and writes only the context it is given and the performing thread's tables, takes
its names with an atomic `fetch_add` (so two operations never get the same name), and never
compares or computes with names. -/
theorem interleaving_eq_sequential (E : Env) (owner : Nat → Nat) (tr : List Step) (hown : Owned owner tr) (t : Nat) :
    ∃ ρ : Nat → Nat,
      (∀ a b, a < (run E G.init (proj t tr)).1.next → b < (run E G.init (proj t tr)).1.next → ρ a = ρ b → a = b) ∧
      resultsOf t (run E G.init tr).2 = (resultsOf t (run E G.init (proj t tr)).2).map (Res.ren ρ) ∧
      (∀ c, owner c = t → (run E G.init tr).1.ctxs c = ((run E G.init (proj t tr)).1.ctxs c).map (Bound.ren ρ)) ∧
      (run E G.init tr).1.tls t = (run E G.init (proj t tr)).1.tls t := by
  have h0 : Rel owner t id G.init G.init :=
    ⟨by intro c _; simp [G.init], rfl, fun c _ => init_below c, by intro a b ha; simp [G.init] at ha,
     by intro a ha; simp [G.init] at ha⟩
  obtain ⟨ρ, _, hrel, hres⟩ := sim E owner t tr G.init G.init id h0 hown
  refine ⟨ρ, hrel.inj, ?_, hrel.ctx, hrel.tls⟩
  rw [hres]
  -- all results of the solo run are tagged t
  have hall : ∀ (l : List Step) (g : G), (∀ st, st ∈ l → st.tid = t) →
      resultsOf t (run E g l).2 = (run E g l).2.map (·.2) := by
    intro l
    induction l with
    | nil => intro g _; simp [run, resultsOf]
    | cons st rest ih =>
      intro g hl
      have h1 : st.tid = t := hl st (List.mem_cons_self ..)
      have := ih (step E g st).1 (fun x hx => hl x (List.mem_cons_of_mem _ hx))
      simp only [run, resultsOf, List.filter_cons, h1, decide_true, if_true, List.map_cons]
      simp only [resultsOf] at this
      rw [this]
  rw [hall (proj t tr) G.init (by intro st hst; simpa [proj] using (List.mem_filter.1 hst).2)]
  simp [List.map_map, Function.comp_def]

/-- **Results that contain no names are equal on the nose.**  Finalized types, memo values, reads of
shared objects and the digests of whole operations (roots, encodings, execution results) carry no
names (`Res.names = []`): the `i`-th result of thread `t` in any interleaving equals the `i`-th
result of its solo run whenever the latter carries no names.  Same hypotheses as
`interleaving_eq_sequential`. -/
theorem interleaving_eq_sequential_namefree (E : Env) (owner : Nat → Nat) (tr : List Step) (hown : Owned owner tr)
    (t i : Nat) (r : Res) (hr : (resultsOf t (run E G.init (proj t tr)).2)[i]? = some r) (hn : r.names = []) :
    (resultsOf t (run E G.init tr).2)[i]? = some r := by
  obtain ⟨ρ, _, hres, _⟩ := interleaving_eq_sequential E owner tr hown t
  rw [hres, List.getElem?_map, hr]
  simp [Res.ren_of_names_nil ρ r hn]

/-! ### lazily filled memo tables -/

/-- every filled entry holds the value of the function -/
def TblGood (f : Nat → Nat) (tb : Tbl) : Prop := ∀ n v, tb n = some v → v = f n

theorem lookup_val (f : Nat → Nat) (tb : Tbl) (n : Nat) (h : TblGood f tb) : (lookup f tb n).2 = f n := by
  unfold lookup
  cases hn : tb n with
  | none => rfl
  | some v => exact h n v hn

theorem lookup_good (f : Nat → Nat) (tb : Tbl) (n : Nat) (h : TblGood f tb) : TblGood f (lookup f tb n).1 := by
  unfold lookup
  cases hn : tb n with
  | some v => exact h
  | none =>
    intro m v hm
    by_cases e : m = n
    · subst e; simp at hm; exact hm.symm
    · simp [e] at hm; exact h m v hm

theorem lookup_keeps (f : Nat → Nat) (tb : Tbl) (n m v : Nat) (h : tb m = some v) : (lookup f tb n).1 m = some v := by
  unfold lookup
  cases hn : tb n with
  | some w => exact h
  | none =>
    by_cases e : m = n
    · subst e; rw [hn] at h; cases h
    · simp [e, h]

/-- lookups by any threads, in any order, in ONE shared table (the strongest sharing there is; a
per-thread table is the special case of one thread) -/
def lookups (f : Nat → Nat) : Tbl → List (Nat × Nat) → Tbl × List Nat
  | tb, [] => (tb, [])
  | tb, (_, n) :: rest => ((lookups f (lookup f tb n).1 rest).1, (lookup f tb n).2 :: (lookups f (lookup f tb n).1 rest).2)

/-- **A lazily filled memo table of a pure function returns the function's value, whichever thread
fills an entry first, and a filled entry never changes.**  Starting from any table whose filled
entries are right (in particular the empty one), any sequence of lookups `(thread, index)` returns
`f index` at every position — independent of the thread tags, hence of which thread came first —,
leaves a table whose filled entries are right, and keeps every entry that was filled.

Runtime hypothesis: a lookup sees an entry either unfilled or completely filled (true of a
`thread_local!` `RefCell`, which has one user; for a table shared between threads it is what
`Once`/`OnceLock` publication provides — the library shares none). -/
theorem memo_table_pure (f : Nat → Nat) : ∀ (ops : List (Nat × Nat)) (tb : Tbl), TblGood f tb →
    (lookups f tb ops).2 = ops.map (fun p => f p.2) ∧ TblGood f (lookups f tb ops).1 ∧
    (∀ m v, tb m = some v → (lookups f tb ops).1 m = some v)
  | [], tb, h => ⟨rfl, h, fun _ _ hm => hm⟩
  | (t, n) :: rest, tb, h => by
    obtain ⟨h1, h2, h3⟩ := memo_table_pure f rest (lookup f tb n).1 (lookup_good f tb n h)
    refine ⟨?_, h2, ?_⟩
    · simp only [lookups, List.map_cons, h1, lookup_val f tb n h]
    · intro m v hm
      exact h3 m v (lookup_keeps f tb n m v hm)

theorem tblGood_empty (f : Nat → Nat) : TblGood f (fun _ => none) := by intro n v h; cases h

/-- the tables of the model stay right along every run: every `memo n` of every thread in every
history returns `E.f n` -/
theorem run_tables_good (E : Env) : ∀ (tr : List Step) (g : G), (∀ t, TblGood E.f (g.tls t)) →
    ∀ t, TblGood E.f ((run E g tr).1.tls t)
  | [], _, h => h
  | st :: rest, g, h => by
    simp only [run]
    apply run_tables_good E rest
    intro t
    by_cases e : t = st.tid
    · subst e
      rw [step_tls_self]
      cases hop : st.op <;> simp only [act] <;> (try split) <;> (try split) <;> first | exact h _ | exact lookup_good _ _ _ (h _)
    · rw [step_tls_other E g st e]; exact h t

end ConcModel
