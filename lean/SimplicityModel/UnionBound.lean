/-
Code-level model of the type-inference engine of rust-simplicity: `src/types/union_bound.rs`
(`UbElement`: union–find with rank and path halving), `src/types/context.rs` (`Context`: the slab of
bounds, `bind`, `unify`, `bind_product`, `alloc_*`), `src/types/mod.rs` (`Type::finalize`) and
`src/types/incomplete.rs` (`Incomplete::occurs_check`).

Transcription rules
* a `UbElement` is an index into `Ctx.elems` (the `Arc<GhostCell<UbInner>>` cells, in allocation
  order); a `BoundRef` is an index into `Ctx.slab`; a `Type`/`TypeInner` is its `UbElement`.
* every function performs the same reads and writes in the same order as the Rust code; loops and
  recursion take a fuel argument (`Err.fuel` = the fuel did not suffice, never a verdict);
  `unreachable!()`, failed `assert!`s and out-of-range indices are `Err.panic`.
* after an error the context is abandoned (the Rust code restores `y_root.data` so that the error
  can be displayed; what happens to a context after an error is outside the property).
* the names of free variables, the mutex and the ghost token are not modelled; `Final` is the
  complete type itself (`Final == Final` compares TMRs, i.e. the types up to SHA-256 collisions).
-/
import SimplicityModel.Infer

namespace UB
open Inf (Ty)

/-- `types::Bound` (the name of a free variable is dropped) -/
inductive Bound
  | free
  | complete (t : Ty)
  | sum (a b : Nat)
  | product (a b : Nat)
deriving DecidableEq, Repr, Inhabited

/-- `union_bound::UbData<BoundRef>` -/
inductive UbData
  | root (b : Nat)
  | equalTo (p : Nat)
deriving DecidableEq, Repr, Inhabited

/-- `union_bound::UbInner` -/
structure UbInner where
  data : UbData
  rank : Nat
deriving DecidableEq, Repr, Inhabited

/-- `ContextInner.slab` plus the heap of `UbElement` cells -/
structure Ctx where
  slab : Array Bound := #[]
  elems : Array UbInner := #[]
deriving Repr, Inhabited

inductive Err
  | bind      -- `BindError` → `Error::Bind`
  | occurs    -- `Error::OccursCheck`
  | fuel      -- the model's fuel did not suffice
  | panic     -- the Rust code would panic (`unreachable!`, `assert!`, index out of range)
deriving DecidableEq, Repr, Inhabited

abbrev M := Except Err

def getElem (c : Ctx) (x : Nat) : M UbInner :=
  match c.elems[x]? with
  | some i => .ok i
  | none => .error .panic

def getBound (c : Ctx) (b : Nat) : M Bound :=
  match c.slab[b]? with
  | some i => .ok i
  | none => .error .panic

def setData (c : Ctx) (x : Nat) (d : UbData) : Ctx :=
  { c with elems := c.elems.modify x fun i => { i with data := d } }

def bumpRank (c : Ctx) (x : Nat) : Ctx :=
  { c with elems := c.elems.modify x fun i => { i with rank := i.rank + 1 } }

def setBound (c : Ctx) (b : Nat) (n : Bound) : Ctx :=
  { c with slab := c.slab.setIfInBounds b n }

/-- `UbElement::root_element`: find the root, halving the path on the way -/
def rootElement : Nat → Ctx → Nat → M (Ctx × Nat)
  | 0, _, _ => .error .fuel
  | f+1, c, x =>
    match getElem c x with
    | .error e => .error e
    | .ok ix =>
      match ix.data with
      | .root _ => .ok (c, x)
      | .equalTo p =>
        match getElem c p with
        | .error e => .error e
        | .ok ip =>
          match ip.data with
          | .root _ => .ok (c, p)
          | .equalTo g => rootElement f (setData c x (.equalTo g)) g

/-- `data.unwrap_root()` of an element -/
def unwrapRoot (c : Ctx) (x : Nat) : M Nat :=
  match getElem c x with
  | .error e => .error e
  | .ok i => match i.data with
    | .root b => .ok b
    | .equalTo _ => .error .panic

/-- `UbElement::root` (= `Context::get_root_ref`): the `BoundRef` stored at the root -/
def rootRef (F : Nat) (c : Ctx) (x : Nat) : M (Ctx × Nat) :=
  match rootElement F c x with
  | .error e => .error e
  | .ok (c, r) =>
    match unwrapRoot c r with
    | .error e => .error e
    | .ok b => .ok (c, b)

/-- `UbElement::unify`; `bindFn c x_data y_data` is the closure passed by `Context::unify` -/
def ubUnify (F : Nat) (bindFn : Ctx → Nat → Nat → M Ctx) (c : Ctx) (x y : Nat) : M Ctx :=
  match rootElement F c x with
  | .error e => .error e
  | .ok (c, xRoot) =>
  match rootElement F c y with
  | .error e => .error e
  | .ok (c, yRoot) =>
  match getElem c xRoot, getElem c yRoot with
  | .error e, _ => .error e
  | _, .error e => .error e
  | .ok xElem, .ok yElem =>
  match xElem.data, yElem.data with
  | .root xd, .root yd =>
    -- `x_elem.data.unwrap_root().ptr_eq(y_elem.data.unwrap_root())`
    if xd = yd then .ok c
    -- union by rank: the root of larger rank is kept (`mem::swap` when `x` has the smaller rank;
    -- equal ranks: `x` is kept and its rank bumped); then
    -- `mem::replace(&mut y_elem.data, UbData::EqualTo(x_root))` and the bind closure
    else if xElem.rank < yElem.rank then
      bindFn (setData c xRoot (.equalTo yRoot)) yd xd
    else if xElem.rank = yElem.rank then
      bindFn (setData (bumpRank c xRoot) yRoot (.equalTo xRoot)) xd yd
    else
      bindFn (setData c yRoot (.equalTo xRoot)) xd yd
  | _, _ => .error .panic

/-- `ContextInner::reassign_non_complete` -/
def reassignNonComplete (c : Ctx) (b : Nat) (n : Bound) : M Ctx :=
  match getBound c b with
  | .error e => .error e
  | .ok (.complete _) => .error .panic   -- "tried to modify finalized type"
  | .ok _ => .ok (setBound c b n)

/-- `complete_pair_data`: both roots (with path halving), then the two slab entries -/
def completePairData (F : Nat) (c : Ctx) (i1 i2 : Nat) : M (Ctx × Option (Ty × Ty)) :=
  match rootRef F c i1 with
  | .error e => .error e
  | .ok (c, idx1) =>
  match rootRef F c i2 with
  | .error e => .error e
  | .ok (c, idx2) =>
  match getBound c idx1, getBound c idx2 with
  | .error e, _ => .error e
  | _, .error e => .error e
  | .ok (.complete d1), .ok (.complete d2) => .ok (c, some (d1, d2))
  | .ok _, .ok _ => .ok (c, none)

/-- the arm `(Complete(c), incomplete) | (incomplete, Complete(c))` of `bind` when the constructors
agree: both roots first, then the two recursive `bind`s with the components of the complete type -/
def bindComponents (F : Nat) (bindF : Ctx → Nat → Bound → M Ctx) (c : Ctx) (ty1 ty2 : Nat)
    (comp1 comp2 : Ty) : M Ctx :=
  match rootRef F c ty1 with
  | .error e => .error e
  | .ok (c, bound1) =>
  match rootRef F c ty2 with
  | .error e => .error e
  | .ok (c, bound2) =>
  match bindF c bound1 (.complete comp1) with
  | .error e => .error e
  | .ok c => bindF c bound2 (.complete comp2)

/-- the arm `(Sum, Sum) | (Product, Product)` of `bind`: unify the components, then complete the
existing bound eagerly when both components of the new one are complete (`mk` = `Final::sum` or
`Final::product`) -/
def bindPairwise (F : Nat) (unifyF : Ctx → Nat → Nat → M Ctx) (c : Ctx) (existing x1 x2 y1 y2 : Nat)
    (mk : Ty → Ty → Ty) : M Ctx :=
  match unifyF c x1 y1 with
  | .error e => .error e
  | .ok c =>
  match unifyF c x2 y2 with
  | .error e => .error e
  | .ok c =>
  match completePairData F c y1 y2 with
  | .error e => .error e
  | .ok (c, some (d1, d2)) => reassignNonComplete c existing (.complete (mk d1 d2))
  | .ok (c, none) => .ok c

/-- `WithGhostToken<ContextInner>::bind` with `unify` inlined as the closure it is in the code
(`existing.bound.unify(self, &other.bound, |self_, x, y| self_.bind(x, self_.slab[y].clone()))`).
The fuel bounds the depth of the `bind → unify → bind` recursion. -/
def bind (F : Nat) : Nat → Ctx → Nat → Bound → M Ctx
  | 0, _, _, _ => .error .fuel
  | f+1, c, existing, new =>
    let unify := ubUnify F (fun c xb yb =>
      match getBound c yb with
      | .error e => .error e
      | .ok nb => bind F f c xb nb)
    match getBound c existing with
    | .error e => .error e
    | .ok existingBound =>
    match existingBound, new with
    -- Binding a free type to anything is a no-op
    | _, .free => .ok c
    -- Free types are simply dropped and replaced by the new bound
    | .free, _ => reassignNonComplete c existing new
    -- complete → complete: compare
    | .complete e, .complete n => if e = n then .ok c else .error .bind
    -- incomplete against complete: recursion on the two components
    | .complete comp, .sum ty1 ty2 | .sum ty1 ty2, .complete comp =>
      match comp with
      | .sum comp1 comp2 => bindComponents F (bind F f) c ty1 ty2 comp1 comp2
      | _ => .error .bind
    | .complete comp, .product ty1 ty2 | .product ty1 ty2, .complete comp =>
      match comp with
      | .prod comp1 comp2 => bindComponents F (bind F f) c ty1 ty2 comp1 comp2
      | _ => .error .bind
    -- eager completion inside
    | .sum x1 x2, .sum y1 y2 => bindPairwise F unify c existing x1 x2 y1 y2 .sum
    | .product x1 x2, .product y1 y2 => bindPairwise F unify c existing x1 x2 y1 y2 .prod
    | _, _ => .error .bind

/-- the closure `|self_, x_bound, y_bound| self_.bind(x_bound, self_.slab[y_bound.index].clone())` -/
def bindClosure (F f : Nat) (c : Ctx) (xb yb : Nat) : M Ctx :=
  match getBound c yb with
  | .error e => .error e
  | .ok nb => bind F f c xb nb

/-- `Context::unify` -/
def unify (F f : Nat) (c : Ctx) (t1 t2 : Nat) : M Ctx :=
  ubUnify F (bindClosure F f) c t1 t2

/-- `Context::bind_product` -/
def bindProduct (F f : Nat) (c : Ctx) (existing prodL prodR : Nat) : M Ctx :=
  match rootRef F c existing with
  | .error e => .error e
  | .ok (c, existingRoot) => bind F f c existingRoot (.product prodL prodR)

/-! ### allocation (`alloc_bound` + `Type::wrap_bound`) -/

/-- `alloc_bound` followed by `wrap_bound`: a new slab entry and a new root element holding it -/
def allocType (c : Ctx) (b : Bound) : Ctx × Nat :=
  ({ slab := c.slab.push b, elems := c.elems.push { data := .root c.slab.size, rank := 0 } },
   c.elems.size)

/-- `Type::free` -/
def typeFree (c : Ctx) : Ctx × Nat := allocType c .free

/-- `Type::complete` (`Type::unit`, `Type::two_two_n`, `TypeName::to_type`) -/
def typeComplete (c : Ctx) (t : Ty) : Ctx × Nat := allocType c (.complete t)

/-- `Type::sum` = `Context::alloc_sum` + `wrap_bound` -/
def typeSum (F : Nat) (c : Ctx) (l r : Nat) : M (Ctx × Nat) :=
  match completePairData F c l r with
  | .error e => .error e
  | .ok (c, some (d1, d2)) => .ok (allocType c (.complete (.sum d1 d2)))
  | .ok (c, none) => .ok (allocType c (.sum l r))

/-- `Type::product` = `Context::alloc_product` + `wrap_bound` -/
def typeProduct (F : Nat) (c : Ctx) (l r : Nat) : M (Ctx × Nat) :=
  match completePairData F c l r with
  | .error e => .error e
  | .ok (c, some (d1, d2)) => .ok (allocType c (.complete (.prod d1 d2)))
  | .ok (c, none) => .ok (allocType c (.product l r))

/-! ### finalisation -/

/-- the roots of the two children of a sum/product bound (path halving), left first -/
def childRoots (F : Nat) (c : Ctx) (t1 t2 : Nat) : M (Ctx × Option (Nat × Nat)) :=
  match rootRef F c t1 with
  | .error e => .error e
  | .ok (c, r1) =>
  match rootRef F c t2 with
  | .error e => .error e
  | .ok (c, r2) => .ok (c, some (r1, r2))

/-- `DagLike::as_dag_node` for `(ctx, BoundRef)`: `Nullary` for free and complete bounds, otherwise
`Binary` of the roots of both children -/
def dagChildren (F : Nat) (c : Ctx) (b : Nat) : M (Ctx × Option (Nat × Nat)) :=
  match getBound c b with
  | .error e => .error e
  | .ok (.sum t1 t2) => childRoots F c t1 t2
  | .ok (.product t1 t2) => childRoots F c t1 t2
  | .ok _ => .ok (c, none)

inductive OcItem
  | iterate (b : Nat)
  | complete (b : Nat)
deriving DecidableEq, Repr

/-- `if let Some((_, child)) = (ctx, bound).right_child()/left_child() { stack.push(Iterate(child)) }` -/
def pushChild (sel : Nat × Nat → Nat) (ch : Option (Nat × Nat)) (stack : List OcItem) : List OcItem :=
  match ch with
  | some p => .iterate (sel p) :: stack
  | none => stack

/-- the loop of `Incomplete::occurs_check`; head of the list = top of the Rust `Vec` stack;
`inProgress`/`completed` are the two hash sets -/
def occursLoop (F : Nat) : Nat → Ctx → List OcItem → List Nat → List Nat → M Ctx
  | 0, _, _, _, _ => .error .fuel
  | _+1, c, [], _, _ => .ok c
  | n+1, c, .complete id :: stack, inProgress, completed =>
    occursLoop F n c stack (inProgress.erase id) (id :: completed)
  | n+1, c, .iterate b :: stack, inProgress, completed =>
    if completed.contains b then occursLoop F n c stack inProgress completed
    else if inProgress.contains b then .error .occurs
    else
      -- `right_child()` and `left_child()` each call `as_dag_node`
      match dagChildren F c b with
      | .error e => .error e
      | .ok (c, chR) =>
      match dagChildren F c b with
      | .error e => .error e
      | .ok (c, chL) =>
        -- push `Complete(id)`, then the right child, then the left child
        occursLoop F n c (pushChild Prod.fst chL (pushChild Prod.snd chR (.complete b :: stack)))
          (b :: inProgress) completed

/-- `Incomplete::occurs_check`: `.error .occurs` = `Some(Cycle)` -/
def occursCheck (F : Nat) (c : Ctx) (b : Nat) : M Ctx :=
  occursLoop F F c [.iterate b] [] []

/-- what `Type::finalize` does with a node when the post-order iterator yields it: the bound is read
again (`bound_get`), `Free ↦ unit`, `Complete ↦` its data, `Sum/Product ↦` the sum/product of the
finalised children; unless it was complete already the result is written back -/
def finalizeYield (c : Ctx) (b : Nat) (dl dr : Ty) : M (Ctx × Ty) :=
  match getBound c b with
  | .error e => .error e
  | .ok .free => .ok (setBound c b (.complete .one), .one)
  | .ok (.complete d) => .ok (c, d)
  | .ok (.sum _ _) => .ok (setBound c b (.complete (.sum dl dr)), .sum dl dr)
  | .ok (.product _ _) => .ok (setBound c b (.complete (.prod dl dr)), .prod dl dr)

/-- the post-order loop of `Type::finalize` (`post_order_iter::<NoSharing>` over bound refs): a node
is expanded through `as_dag_node` (both child roots), its children are finalised left to right, then
it is yielded (`finalizeYield`) -/
def finalizeRec (F : Nat) : Nat → Ctx → Nat → M (Ctx × Ty)
  | 0, _, _ => .error .fuel
  | f+1, c, b =>
    match dagChildren F c b with
    | .error e => .error e
    | .ok (c, none) => finalizeYield c b .one .one
    | .ok (c, some (l, r)) =>
      match finalizeRec F f c l with
      | .error e => .error e
      | .ok (c, dl) =>
      match finalizeRec F f c r with
      | .error e => .error e
      | .ok (c, dr) => finalizeYield c b dl dr

/-- `Type::finalize` -/
def typeFinalize (F : Nat) (c : Ctx) (ty : Nat) : M (Ctx × Ty) :=
  match rootRef F c ty with
  | .error e => .error e
  | .ok (c, root) =>
  match getBound c root with
  | .error e => .error e
  | .ok (.complete d) => .ok (c, d)
  | .ok _ =>
    match occursCheck F c root with
    | .error e => .error e
    | .ok c => finalizeRec F F c root

/-! ### the calls a node constructor makes -/

/-- one call into `types::Context` / `types::Type`.  Allocating operations return the next element
index (`Ctx.elems.size` before the call), so a constructor that starts at element count `k` knows
the indices of everything it allocates. -/
inductive Op
  | free                          -- `Type::free`
  | complete (t : Ty)             -- `Type::unit`, `Type::two_two_n`, `Type::complete`
  | sum (a b : Nat)               -- `Type::sum`
  | product (a b : Nat)           -- `Type::product`
  | unify (a b : Nat)             -- `Context::unify`
  | bindProduct (e a b : Nat)     -- `Context::bind_product`
deriving Repr, DecidableEq

/-- forget the returned element index -/
def fstM (r : M (Ctx × Nat)) : M Ctx :=
  match r with
  | .ok (c, _) => .ok c
  | .error e => .error e

def step (F : Nat) (c : Ctx) : Op → M Ctx
  | .free => .ok (typeFree c).1
  | .complete t => .ok (typeComplete c t).1
  | .sum a b => fstM (typeSum F c a b)
  | .product a b => fstM (typeProduct F c a b)
  | .unify a b => unify F F c a b
  | .bindProduct e a b => bindProduct F F c e a b

def runOps (F : Nat) : Ctx → List Op → M Ctx
  | c, [] => .ok c
  | c, op :: ops => match step F c op with
    | .error e => .error e
    | .ok c => runOps F c ops


end UB
