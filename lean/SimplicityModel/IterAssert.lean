import SimplicityModel.IterRun
set_option linter.unusedSectionVars false
set_option linter.unusedVariables false
/-
C18 — the `assert!`s and the `self.stack[stack_len - 1]`, `self.stack[stack_len - 2]` accesses of
`PostOrderIter::next` never fail.  `patch` in the model is total (a shape the Rust code would panic
on is passed through); here: every state reachable from the initial state has a stack in which
every item sits on what its `previous` field promises — `Root`: nothing; `ParentLeft`/`ParentRight`:
the processed parent; `SiblingLeft`: the sibling, then the processed parent — so the checked
conditions hold whenever a processed item is popped and `patch` never takes its pass-through case.
-/
namespace PO
variable {K : Type} [DecidableEq K] (key : T → Option K)

/-- what an item with `previous = p` needs below it -/
def Fits : Prev → List Item → Prop
  | .root, rest => rest = []
  | .parentLeft, rest => ∃ par s, rest = par :: s ∧ par.processed = true
  | .parentRight, rest => ∃ par s, rest = par :: s ∧ par.processed = true
  | .siblingLeft, rest => ∃ sib par s, rest = sib :: par :: s ∧ par.processed = true

/-- every item of the stack fits on the part below it -/
def WFst : List Item → Prop
  | [] => True
  | it :: rest => Fits it.prev rest ∧ WFst rest

/-- the conditions `PostOrderIter::next` asserts (and the index accesses it makes) when it pops a
processed item -/
def assertOK (s : St K) : Bool :=
  match s.stack with
  | [] => true
  | cur :: rest =>
    if cur.processed then
      match cur.prev, rest with
      | .root, [] => true                       -- assert_eq!(stack_len, 0)
      | .parentLeft, par :: _ => par.processed  -- assert!(self.stack[stack_len - 1].processed)
      | .parentRight, par :: _ => par.processed
      | .siblingLeft, _ :: par :: _ => par.processed  -- assert!(self.stack[stack_len - 2].processed)
      | _, _ => false
    else true

theorem assertOK_of_WF (s : St K) (h : WFst s.stack) : assertOK s = true := by
  unfold assertOK
  cases hs : s.stack with
  | nil => rfl
  | cons cur rest =>
    rw [hs] at h
    obtain ⟨hf, _⟩ := h
    simp only []
    split
    · cases hp : cur.prev <;> rw [hp] at hf <;> simp only [Fits] at hf
      · subst hf; rfl
      · obtain ⟨par, s', rfl, hpar⟩ := hf; exact hpar
      · obtain ⟨sib, par, s', rfl, hpar⟩ := hf; exact hpar
      · obtain ⟨par, s', rfl, hpar⟩ := hf; exact hpar
    · rfl

/-- back-patching changes child indices only -/
theorem patch_shape (p : Prev) (ci : Nat) (s : List Item) :
    (patch p ci s).map (fun it => (it.processed, it.prev)) = s.map (fun it => (it.processed, it.prev)) := by
  cases p with
  | root => simp
  | parentLeft => cases s with
    | nil => rfl
    | cons par s => simp
  | parentRight => cases s with
    | nil => rfl
    | cons par s => simp
  | siblingLeft => cases s with
    | nil => rfl
    | cons sib s => cases s with
      | nil => rfl
      | cons par s => simp

theorem fits_congr (p : Prev) {s s' : List Item}
    (h : s.map (fun it => (it.processed, it.prev)) = s'.map (fun it => (it.processed, it.prev))) :
    Fits p s → Fits p s' := by
  cases p with
  | root =>
    intro hf; simp only [Fits] at hf ⊢; subst hf
    cases s' with
    | nil => rfl
    | cons a b => simp at h
  | parentLeft =>
    rintro ⟨par, r, rfl, hp⟩
    cases s' with
    | nil => simp at h
    | cons a b =>
      simp only [List.map_cons, List.cons.injEq, Prod.mk.injEq] at h
      exact ⟨a, b, rfl, by rw [← h.1.1]; exact hp⟩
  | parentRight =>
    rintro ⟨par, r, rfl, hp⟩
    cases s' with
    | nil => simp at h
    | cons a b =>
      simp only [List.map_cons, List.cons.injEq, Prod.mk.injEq] at h
      exact ⟨a, b, rfl, by rw [← h.1.1]; exact hp⟩
  | siblingLeft =>
    rintro ⟨sib, par, r, rfl, hp⟩
    cases s' with
    | nil => simp at h
    | cons a b =>
      cases b with
      | nil => simp at h
      | cons c d =>
        simp only [List.map_cons, List.cons.injEq, Prod.mk.injEq] at h
        exact ⟨a, c, d, rfl, by rw [← h.2.1.1]; exact hp⟩

theorem wf_congr : ∀ {s s' : List Item},
    s.map (fun it => (it.processed, it.prev)) = s'.map (fun it => (it.processed, it.prev)) →
    WFst s → WFst s' := by
  intro s
  induction s with
  | nil =>
    intro s' h _
    cases s' with
    | nil => trivial
    | cons a b => simp at h
  | cons a r ih =>
    intro s' h hw
    cases s' with
    | nil => simp at h
    | cons a' r' =>
      simp only [List.map_cons, List.cons.injEq, Prod.mk.injEq] at h
      obtain ⟨⟨_, hp⟩, hr⟩ := h
      exact ⟨by rw [← hp]; exact fits_congr _ hr hw.1, ih hr hw.2⟩

/-- one iteration of the loop keeps the stack well-formed -/
theorem step_wf (s s' : St K) (o : Option Out) (h : step key s = some (s', o)) (hw : WFst s.stack) :
    WFst s'.stack := by
  unfold step at h
  cases hst : s.stack with
  | nil => rw [hst] at h; cases h
  | cons cur rest =>
    rw [hst] at h hw
    obtain ⟨hfit, hrest⟩ := hw
    simp only [] at h
    by_cases hp : cur.processed = true
    · simp only [hp, Bool.not_true, Bool.false_eq_true, if_false] at h
      cases hr : record key s.seen cur.elem s.index with
      | mk a seen' =>
        rw [hr] at h
        cases a with
        | some i =>
          simp only [Option.some.injEq, Prod.mk.injEq] at h
          obtain ⟨rfl, _⟩ := h
          exact wf_congr (patch_shape _ _ _).symm hrest
        | none =>
          simp only [Option.some.injEq, Prod.mk.injEq] at h
          obtain ⟨rfl, _⟩ := h
          exact wf_congr (patch_shape _ _ _).symm hrest
    · have hp' : cur.processed = false := by cases hc : cur.processed <;> simp_all
      simp only [hp', Bool.not_false, if_true] at h
      -- the processed copy of `cur` fits where `cur` did
      have hcur : ∀ (l r : Option Nat), WFst (({ cur with processed := true, lidx := l, ridx := r } : Item) :: rest) :=
        fun l r => ⟨hfit, hrest⟩
      have hpar : ∀ (l r : Option Nat) (c : T) (p : Prev), (p = .parentLeft ∨ p = .parentRight) →
          WFst (unprocessed c p :: ({ cur with processed := true, lidx := l, ridx := r } : Item) :: rest) := by
        intro l r c p hpp
        refine ⟨?_, hcur l r⟩
        rcases hpp with rfl | rfl <;> exact ⟨_, _, rfl, rfl⟩
      cases hl : childStatus key s.seen cur.elem.left with
      | none =>
        rw [hl] at h
        simp only [Option.some.injEq, Prod.mk.injEq] at h
        obtain ⟨rfl, _⟩ := h
        exact hcur cur.lidx cur.ridx
      | rep li =>
        rw [hl] at h
        cases hr : childStatus key s.seen cur.elem.right with
        | none =>
          rw [hr] at h
          simp only [Option.some.injEq, Prod.mk.injEq] at h
          obtain ⟨rfl, _⟩ := h
          exact hcur (some li) cur.ridx
        | rep ri =>
          rw [hr] at h
          simp only [Option.some.injEq, Prod.mk.injEq] at h
          obtain ⟨rfl, _⟩ := h
          exact hcur (some li) (some ri)
        | new c =>
          rw [hr] at h
          simp only [Option.some.injEq, Prod.mk.injEq] at h
          obtain ⟨rfl, _⟩ := h
          exact hpar (some li) cur.ridx c .parentRight (.inr rfl)
      | new c =>
        rw [hl] at h
        cases hr : childStatus key s.seen cur.elem.right with
        | none =>
          rw [hr] at h
          simp only [Option.some.injEq, Prod.mk.injEq] at h
          obtain ⟨rfl, _⟩ := h
          exact hpar cur.lidx cur.ridx c .parentLeft (.inl rfl)
        | rep ri =>
          rw [hr] at h
          simp only [Option.some.injEq, Prod.mk.injEq] at h
          obtain ⟨rfl, _⟩ := h
          exact hpar cur.lidx (some ri) c .parentLeft (.inl rfl)
        | new c2 =>
          rw [hr] at h
          simp only [Option.some.injEq, Prod.mk.injEq] at h
          obtain ⟨rfl, _⟩ := h
          exact ⟨⟨_, _, _, rfl, rfl⟩, hpar cur.lidx cur.ridx c2 .parentRight (.inr rfl)⟩

/-- states the iterator passes through -/
inductive Reach : St K → St K → Prop
  | refl (s) : Reach s s
  | step {s s' s'' o} : Reach s s' → step key s' = some (s'', o) → Reach s s''

theorem reach_wf {s s' : St K} (h : Reach key s s') (hw : WFst s.stack) : WFst s'.stack := by
  induction h with
  | refl => exact hw
  | step _ hs ih => exact step_wf key _ _ _ hs ih

/-- **no assertion of `PostOrderIter::next` fails** (and no stack index is out of range) in any
state the iteration started by `post_order_iter` passes through -/
theorem asserts_hold (root : T) (s : St K) (h : Reach key (init root) s) : assertOK s = true :=
  assertOK_of_WF s (reach_wf key h ⟨rfl, trivial⟩)

end PO
