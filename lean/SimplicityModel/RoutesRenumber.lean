/-
C12 — the types of the pruned program do not depend on how its nodes are numbered.

`Routes.inferCut jt false p program c` types the pruned program *on the indices of the unpruned
plan* (removed nodes stay in the array without constraints).  `RedeemNode::decode` — `Prog.infer`
on the plan the decoder rebuilds — types the same program on its own indices (post-order of the
remaining nodes, hidden nodes as entries of their own).  `infer_renumbered`: when the second plan
is the first one renumbered (`Renumbers`), both give every node the same arrow.  Proof: both are
least typings (`RoutesTyping.lean`), and typings transfer along the renumbering in both directions.
-/
import SimplicityModel.RoutesTyping

set_option linter.unusedSimpArgs false

namespace Routes
open BM4 Prog
open Inf (Eqn)

/-! ### the pruned plan on the indices of the unpruned plan -/

/-- what a cut makes of a node: a case node that loses a side becomes an assertion (the hidden
child enters through its commitment root `cm`) -/
def cutNodeOf (side : Option Bool) (cm : Nat → Nat) : Node → Node
  | .case a b =>
    match side with
    | some false => .assertl a (cm b)
    | some true => .assertr (cm a) b
    | none => .case a b
  | nd => nd

def cutPlanFrom (c : Cut) (cm : Nat → Nat) : Nat → List Node → List Node
  | _, [] => []
  | i, nd :: rest => cutNodeOf (c.side i) cm nd :: cutPlanFrom c cm (i + 1) rest

/-- the pruned program as a plan on the old indices (removed nodes are still in the array; the
cut's `keep` says which nodes belong to the program) -/
def cutPlan (p : Plan) (c : Cut) (cm : Nat → Nat) : Plan := (cutPlanFrom c cm 0 p.toList).toArray

theorem cutNodeEqns_eq (jt : JetTypes) (c : Cut) (cm : Nat → Nat) (i : Nat) (nd : Node) (f : Nat) :
    cutNodeEqns jt false c i nd f =
      (nodeEqns jt i (cutNodeOf (c.side i) cm nd) f).map fun x => (if c.keep i then x.1 else [], x.2) := by
  unfold cutNodeEqns
  cases nd with
  | case a b =>
    cases hs : c.side i with
    | none => cases hk : c.keep i <;> simp [cutNodeOf, nodeEqns, hs, hk]
    | some s => cases s <;> cases hk : c.keep i <;> simp [cutNodeOf, nodeEqns, hs, hk]
  | jet name =>
    cases hj : jt name with
    | none => simp [cutNodeOf, nodeEqns, hj]
    | some st => cases hk : c.keep i <;> simp [cutNodeOf, nodeEqns, hj, hk]
  | disconnect a ob =>
    cases ob <;> cases hk : c.keep i <;> simp [cutNodeOf, nodeEqns, hk]
  | _ => cases hk : c.keep i <;> simp [cutNodeOf, nodeEqns, hk]

theorem cutGo_eq (jt : JetTypes) (c : Cut) (cm : Nat → Nat) :
    ∀ (nodes : List Node) (i f : Nat) (acc : List Eqn),
      cutGo jt false c i nodes f acc = constraintsMGo jt c.keep i (cutPlanFrom c cm i nodes) f acc
  | [], _, _, _ => rfl
  | nd :: rest, i, f, acc => by
    simp only [cutGo, cutPlanFrom, constraintsMGo, cutNodeEqns_eq jt c cm]
    cases nodeEqns jt i (cutNodeOf (c.side i) cm nd) f with
    | none => rfl
    | some x =>
      simp only [Option.map_some]
      rw [cutGo_eq jt c cm rest (i + 1)]
      cases c.keep i <;> simp

theorem cutPlanFrom_length (c : Cut) (cm : Nat → Nat) :
    ∀ (i : Nat) (l : List Node), (cutPlanFrom c cm i l).length = l.length
  | _, [] => rfl
  | i, _ :: rest => by simp [cutPlanFrom, cutPlanFrom_length c cm (i + 1) rest]

theorem cutPlan_size (p : Plan) (c : Cut) (cm : Nat → Nat) : (cutPlan p c cm).size = p.size := by
  simp [cutPlan, cutPlanFrom_length]

theorem cutPlanFrom_getElem? (c : Cut) (cm : Nat → Nat) :
    ∀ (l : List Node) (k j : Nat),
      (cutPlanFrom c cm k l)[j]? = (l[j]?).map (cutNodeOf (c.side (k + j)) cm)
  | [], _, _ => by simp [cutPlanFrom]
  | nd :: ns, k, 0 => by simp [cutPlanFrom]
  | nd :: ns, k, j+1 => by
    simp only [cutPlanFrom, List.getElem?_cons_succ]
    rw [cutPlanFrom_getElem? c cm ns (k + 1) j]
    have : k + 1 + j = k + (j + 1) := by omega
    rw [this]

theorem cutPlan_getElem? (p : Plan) (c : Cut) (cm : Nat → Nat) (i : Nat) :
    (cutPlan p c cm)[i]? = (p[i]?).map (cutNodeOf (c.side i) cm) := by
  simp [cutPlan, cutPlanFrom_getElem?]

/-- **re-inference of the pruned program (second pass) is inference on the pruned plan restricted
to the remaining nodes** -/
theorem inferCut_eq_inferM (jt : JetTypes) (p : Plan) (program : Bool) (c : Cut) (cm : Nat → Nat) :
    inferCut jt false p program c = inferM jt (cutPlan p c cm) c.keep program := by
  unfold inferCut inferM cutConstraints constraintsM
  rw [cutGo_eq jt c cm, cutPlan_size]
  have : (cutPlan p c cm).toList = cutPlanFrom c cm 0 p.toList := by simp [cutPlan]
  rw [this]
  cases constraintsMGo jt c.keep 0 (cutPlanFrom c cm 0 p.toList) (2 * p.size) [] with
  | none => rfl
  | some es =>
    simp only
    cases Inf.unify unifyFuel (if program = true then es ++ [(src (p.size - 1), Inf.Tm.one), (tgt (p.size - 1), Inf.Tm.one)] else es) [] <;> rfl

theorem infer_eq_inferM (jt : JetTypes) (q : Plan) (program : Bool) :
    infer jt q program = inferM jt q (fun _ => true) program := by
  unfold infer inferM
  rw [constraintsM_all]
  cases constraints jt q program with
  | none => rfl
  | some es => simp only; cases Inf.unify unifyFuel es [] <;> rfl

/-- the cut the run determines rewrites the plan exactly as the `prune_case` table does -/
theorem cutPlan_eq_prunePlan (p : Plan) (ids : Nat → Nat) (S : List (Nat × Bool)) (cm : Nat → Nat) :
    cutPlan p (cutOf p (sidesOf ids S)) cm = prunePlan S ids cm p := by
  have key : ∀ (l : List Node) (k : Nat),
      cutPlanFrom (cutOf p (sidesOf ids S)) cm k l = pruneList S ids cm k l := by
    intro l
    induction l with
    | nil => intro k; rfl
    | cons nd rest ih =>
      intro k
      simp only [cutPlanFrom, pruneList, ih]
      congr 1
      cases nd with
      | case a b =>
        simp only [cutNodeOf, pruneNode, cutOf, sidesOf]
        cases decide ((ids k, false) ∈ S) <;> cases decide ((ids k, true) ∈ S) <;> rfl
      | _ => rfl
  simp [cutPlan, prunePlan, key]

/-! ### renaming the children of a node -/

def mapCh (σ : Nat → Nat) : Node → Node
  | .injl c => .injl (σ c)
  | .injr c => .injr (σ c)
  | .take c => .take (σ c)
  | .drop c => .drop (σ c)
  | .comp a b => .comp (σ a) (σ b)
  | .case a b => .case (σ a) (σ b)
  | .pair a b => .pair (σ a) (σ b)
  | .assertl a h => .assertl (σ a) h
  | .assertr h b => .assertr h (σ b)
  | .disconnect a (some b) => .disconnect (σ a) (some (σ b))
  | .disconnect a none => .disconnect (σ a) none
  | .iden => .iden
  | .unit => .unit
  | .witness => .witness
  | .fail e => .fail e
  | .word n bits => .word n bits
  | .jet name => .jet name
  | .hidden h => .hidden h

def isHidden : Node → Bool
  | .hidden _ => true
  | _ => false

theorem shapeOK_mapCh (σ : Nat → Nat) (nd : Node) : shapeOK (mapCh σ nd) = shapeOK nd := by
  cases nd with
  | disconnect a ob => cases ob <;> rfl
  | _ => rfl

/-- a typing rule read through a renaming of the children (the arrows of the children agree) -/
theorem nodeRule_mapCh {jt : JetTypes} {ar1 ar2 : Arrows} {σ : Nat → Nat} {A B : Ty} {nd : Node}
    (hlook : ∀ c ∈ nd.children, ∀ x, ar1[c]? = some x → ar2[σ c]? = some x)
    (h : NodeRule jt ar1 A B nd) : NodeRule jt ar2 A B (mapCh σ nd) := by
  cases nd with
  | injl c => obtain ⟨T, X, hc, e⟩ := h; exact ⟨T, X, hlook c (by simp [Node.children]) _ hc, e⟩
  | injr c => obtain ⟨T, X, hc, e⟩ := h; exact ⟨T, X, hlook c (by simp [Node.children]) _ hc, e⟩
  | take c => obtain ⟨T, X, hc, e⟩ := h; exact ⟨T, X, hlook c (by simp [Node.children]) _ hc, e⟩
  | drop c => obtain ⟨T, X, hc, e⟩ := h; exact ⟨T, X, hlook c (by simp [Node.children]) _ hc, e⟩
  | comp x y =>
    obtain ⟨M, hx, hy⟩ := h
    exact ⟨M, hlook x (by simp [Node.children]) _ hx, hlook y (by simp [Node.children]) _ hy⟩
  | case x y =>
    obtain ⟨X, Y, Z, hx, hy, e⟩ := h
    exact ⟨X, Y, Z, hlook x (by simp [Node.children]) _ hx, hlook y (by simp [Node.children]) _ hy, e⟩
  | pair x y =>
    obtain ⟨X, Y, hx, hy, e⟩ := h
    exact ⟨X, Y, hlook x (by simp [Node.children]) _ hx, hlook y (by simp [Node.children]) _ hy, e⟩
  | assertl x hh => obtain ⟨X, Y, Z, hx, e⟩ := h; exact ⟨X, Y, Z, hlook x (by simp [Node.children]) _ hx, e⟩
  | assertr hh y => obtain ⟨X, Y, Z, hy, e⟩ := h; exact ⟨X, Y, Z, hlook y (by simp [Node.children]) _ hy, e⟩
  | disconnect x oy =>
    cases oy with
    | none => exact absurd h (by simp [NodeRule])
    | some y =>
      obtain ⟨X, Y, Z, hx, hy, e⟩ := h
      exact ⟨X, Y, Z, hlook x (by simp [Node.children]) _ hx, hlook y (by simp [Node.children]) _ hy, e⟩
  | iden => exact h
  | unit => exact h
  | witness => exact h
  | fail e => exact h
  | word n bits => exact h
  | jet name => exact h
  | hidden hh => exact h

theorem nodeRule_unmapCh {jt : JetTypes} {ar1 ar2 : Arrows} {σ : Nat → Nat} {A B : Ty} {nd : Node}
    (hlook : ∀ c ∈ nd.children, ∀ x, ar2[σ c]? = some x → ar1[c]? = some x)
    (h : NodeRule jt ar2 A B (mapCh σ nd)) : NodeRule jt ar1 A B nd := by
  cases nd with
  | injl c => obtain ⟨T, X, hc, e⟩ := h; exact ⟨T, X, hlook c (by simp [Node.children]) _ hc, e⟩
  | injr c => obtain ⟨T, X, hc, e⟩ := h; exact ⟨T, X, hlook c (by simp [Node.children]) _ hc, e⟩
  | take c => obtain ⟨T, X, hc, e⟩ := h; exact ⟨T, X, hlook c (by simp [Node.children]) _ hc, e⟩
  | drop c => obtain ⟨T, X, hc, e⟩ := h; exact ⟨T, X, hlook c (by simp [Node.children]) _ hc, e⟩
  | comp x y =>
    obtain ⟨M, hx, hy⟩ := h
    exact ⟨M, hlook x (by simp [Node.children]) _ hx, hlook y (by simp [Node.children]) _ hy⟩
  | case x y =>
    obtain ⟨X, Y, Z, hx, hy, e⟩ := h
    exact ⟨X, Y, Z, hlook x (by simp [Node.children]) _ hx, hlook y (by simp [Node.children]) _ hy, e⟩
  | pair x y =>
    obtain ⟨X, Y, hx, hy, e⟩ := h
    exact ⟨X, Y, hlook x (by simp [Node.children]) _ hx, hlook y (by simp [Node.children]) _ hy, e⟩
  | assertl x hh => obtain ⟨X, Y, Z, hx, e⟩ := h; exact ⟨X, Y, Z, hlook x (by simp [Node.children]) _ hx, e⟩
  | assertr hh y => obtain ⟨X, Y, Z, hy, e⟩ := h; exact ⟨X, Y, Z, hlook y (by simp [Node.children]) _ hy, e⟩
  | disconnect x oy =>
    cases oy with
    | none => exact absurd h (by simp [NodeRule, mapCh])
    | some y =>
      obtain ⟨X, Y, Z, hx, hy, e⟩ := h
      exact ⟨X, Y, Z, hlook x (by simp [Node.children]) _ hx, hlook y (by simp [Node.children]) _ hy, e⟩
  | iden => exact h
  | unit => exact h
  | witness => exact h
  | fail e => exact h
  | word n bits => exact h
  | jet name => exact h
  | hidden hh => exact h

theorem Le.antisymm : ∀ {a b : Ty}, Le a b → Le b a → a = b := by
  intro a b h1
  induction h1 with
  | one t => intro h2; cases h2; rfl
  | sum _ _ iha ihb => intro h2; cases h2 with | sum ha hb => rw [iha ha, ihb hb]
  | prod _ _ iha ihb => intro h2; cases h2 with | prod ha hb => rw [iha ha, ihb hb]


/-! ### a plan renumbered -/

/-- `q` is the program formed by the selected nodes of `P`, renumbered by `σ` (`q`-index ↦
`P`-index, `σ'` back); besides these, `q` may contain hidden nodes (entries without constraints that
no node refers to as a child).  Roots correspond. -/
structure Renumbers (σ σ' : Nat → Nat) (q P : Plan) (mask : Nat → Bool) : Prop where
  qpos : 0 < q.size
  ppos : 0 < P.size
  /-- every visible node of `q` is a selected node of `P` with the children renamed, and its
  children are visible nodes of `q` -/
  node : ∀ j nd, q[j]? = some nd → isHidden nd = false →
    mask (σ j) = true ∧ P[σ j]? = some (mapCh σ nd) ∧ σ' (σ j) = j ∧
    ∀ c ∈ nd.children, ∃ ndc, q[c]? = some ndc ∧ isHidden ndc = false
  /-- every selected node of `P` is a visible node of `q` -/
  inv : ∀ i, i < P.size → mask i = true →
    ∃ nd, q[σ' i]? = some nd ∧ isHidden nd = false ∧ σ (σ' i) = i
  root : σ (q.size - 1) = P.size - 1 ∧ ∃ nd, q[q.size - 1]? = some nd ∧ isHidden nd = false

theorem lt_of_get? {α : Type} {a : Array α} {i : Nat} {x : α} (h : a[i]? = some x) : i < a.size :=
  (Array.getElem?_eq_some_iff.1 h).1

/-- arrows of `P` read on the indices of `q` -/
def pullArrows (σ : Nat → Nat) (n : Nat) (ar : Arrows) : Arrows :=
  (Array.range n).map fun j => (srcOf ar (σ j), tgtOf ar (σ j))

theorem pullArrows_get? (σ : Nat → Nat) (n : Nat) (ar : Arrows) {j : Nat} (h : j < n) :
    (pullArrows σ n ar)[j]? = some (srcOf ar (σ j), tgtOf ar (σ j)) := by
  simp [pullArrows, h]

theorem srcOf_pull (σ : Nat → Nat) (n : Nat) (ar : Arrows) {j : Nat} (h : j < n) :
    srcOf (pullArrows σ n ar) j = srcOf ar (σ j) := (get?_src_tgt (pullArrows_get? σ n ar h)).1

theorem tgtOf_pull (σ : Nat → Nat) (n : Nat) (ar : Arrows) {j : Nat} (h : j < n) :
    tgtOf (pullArrows σ n ar) j = tgtOf ar (σ j) := (get?_src_tgt (pullArrows_get? σ n ar h)).2

theorem get?_eq_src_tgt {ar : Arrows} {c : Nat} {x : Ty × Ty} (h : ar[c]? = some x) :
    x = (srcOf ar c, tgtOf ar c) := by
  obtain ⟨a, b⟩ := x
  obtain ⟨h1, h2⟩ := get?_src_tgt h
  rw [h1, h2]

/-- a typing of the selected nodes of `P` is, read along `σ`, a typing of `q` -/
theorem typing_pull {jt : JetTypes} {σ σ' : Nat → Nat} {q P : Plan} {mask : Nat → Bool}
    (hR : Renumbers σ σ' q P mask) {arP : Arrows} (hT : Typing jt P mask true arP) :
    Typing jt q (fun _ => true) true (pullArrows σ q.size arP) := by
  refine ⟨by simp [pullArrows], ?_, fun _ => ⟨hR.qpos, ?_, ?_⟩⟩
  · intro j nd hnd _
    have hj := lt_of_get? hnd
    cases hh : isHidden nd with
    | true => cases nd <;> simp [isHidden] at hh; trivial
    | false =>
      obtain ⟨hm, hP, _, hch⟩ := hR.node j nd hnd hh
      have hr := hT.rule (σ j) _ hP hm
      rw [srcOf_pull σ _ arP hj, tgtOf_pull σ _ arP hj]
      refine nodeRule_unmapCh ?_ hr
      intro c hc x hx
      obtain ⟨ndc, hndc, _⟩ := hch c hc
      rw [pullArrows_get? σ _ arP (lt_of_get? hndc), get?_eq_src_tgt hx]
  · have := hR.qpos
    rw [srcOf_pull σ _ arP (by omega), hR.root.1]
    exact (hT.root rfl).2.1
  · have := hR.qpos
    rw [tgtOf_pull σ _ arP (by omega), hR.root.1]
    exact (hT.root rfl).2.2

/-- a typing of `q` is, read along `σ'`, a typing of the selected nodes of `P` -/
theorem typing_push {jt : JetTypes} {σ σ' : Nat → Nat} {q P : Plan} {mask : Nat → Bool}
    (hR : Renumbers σ σ' q P mask) {arQ : Arrows} (hT : Typing jt q (fun _ => true) true arQ) :
    Typing jt P mask true (pullArrows σ' P.size arQ) := by
  refine ⟨by simp [pullArrows], ?_, fun _ => ⟨hR.ppos, ?_, ?_⟩⟩
  · intro i nd' hnd' hm
    have hi := lt_of_get? hnd'
    obtain ⟨nd, hnd, hh, hσ⟩ := hR.inv i hi hm
    obtain ⟨_, hP, _, hch⟩ := hR.node (σ' i) nd hnd hh
    rw [hσ, hnd'] at hP
    simp only [Option.some.injEq] at hP
    subst hP
    have hr := hT.rule (σ' i) nd hnd rfl
    rw [srcOf_pull σ' _ arQ hi, tgtOf_pull σ' _ arQ hi]
    refine nodeRule_mapCh ?_ hr
    intro c hc x hx
    obtain ⟨ndc, hndc, hhc⟩ := hch c hc
    obtain ⟨_, hPc, hinv, _⟩ := hR.node c ndc hndc hhc
    rw [pullArrows_get? σ' _ arQ (lt_of_get? hPc), hinv, get?_eq_src_tgt hx]
  · obtain ⟨hroot, nd, hnd, hh⟩ := hR.root
    obtain ⟨_, _, hinv, _⟩ := hR.node _ nd hnd hh
    have := hR.ppos
    rw [srcOf_pull σ' _ arQ (by omega), ← hroot, hinv]
    exact (hT.root rfl).2.1
  · obtain ⟨hroot, nd, hnd, hh⟩ := hR.root
    obtain ⟨_, _, hinv, _⟩ := hR.node _ nd hnd hh
    have := hR.ppos
    rw [tgtOf_pull σ' _ arQ (by omega), ← hroot, hinv]
    exact (hT.root rfl).2.2

/-- shape and child bounds of `q`'s nodes follow from those of `P`'s selected nodes -/
theorem renumbers_shape {σ σ' : Nat → Nat} {q P : Plan} {mask : Nat → Bool}
    (hR : Renumbers σ σ' q P mask)
    (hshape : ∀ i nd, P[i]? = some nd → mask i = true → shapeOK nd = true) :
    ∀ j nd, q[j]? = some nd → (fun _ : Nat => true) j = true →
      shapeOK nd = true ∧ ∀ c ∈ nd.children, c < q.size := by
  intro j nd hnd _
  cases hh : isHidden nd with
  | true => cases nd <;> simp [isHidden] at hh; exact ⟨rfl, fun c hc => by simp [Node.children] at hc⟩
  | false =>
    obtain ⟨hm, hP, _, hch⟩ := hR.node j nd hnd hh
    refine ⟨by rw [← shapeOK_mapCh σ nd]; exact hshape _ _ hP hm, ?_⟩
    intro c hc
    obtain ⟨ndc, hndc, _⟩ := hch c hc
    exact lt_of_get? hndc

/-- **the types of a program do not depend on the numbering of its nodes.**  If `q` is the program
formed by the selected nodes of `P` renumbered, then inference on `q` (all nodes: what the decoder
does) and inference on `P` restricted to the selected nodes (what re-inference after pruning does)
give every node the same arrow. -/
theorem infer_renumbered {jt : JetTypes} {σ σ' : Nat → Nat} {q P : Plan} {mask : Nat → Bool}
    (hR : Renumbers σ σ' q P mask)
    (hshape : ∀ i nd, P[i]? = some nd → mask i = true → shapeOK nd = true ∧ ∀ c ∈ nd.children, c < P.size)
    {arP arQ : Arrows} (hP : inferM jt P mask true = .ok arP) (hQ : infer jt q true = .ok arQ) :
    ∀ j nd, q[j]? = some nd → isHidden nd = false →
      srcOf arQ j = srcOf arP (σ j) ∧ tgtOf arQ j = tgtOf arP (σ j) := by
  rw [infer_eq_inferM] at hQ
  have TP := inferM_typing hP hR.ppos hshape
  have TQ := inferM_typing hQ hR.qpos (renumbers_shape hR (fun i nd h1 h2 => (hshape i nd h1 h2).1))
  have l1 := inferM_least hQ (typing_pull hR TP)
  have l2 := inferM_least hP (typing_push hR TQ)
  intro j nd hnd hh
  have hj := lt_of_get? hnd
  obtain ⟨_, hPj, hinv, _⟩ := hR.node j nd hnd hh
  have hσj := lt_of_get? hPj
  obtain ⟨a1, a2⟩ := l1 j hj
  obtain ⟨b1, b2⟩ := l2 (σ j) hσj
  rw [srcOf_pull σ _ arP hj] at a1
  rw [tgtOf_pull σ _ arP hj] at a2
  rw [srcOf_pull σ' _ arQ hσj, hinv] at b1
  rw [tgtOf_pull σ' _ arQ hσj, hinv] at b2
  exact ⟨Le.antisymm a1 b1, Le.antisymm a2 b2⟩


/-! ### a decidable check of `Renumbers` (non-vacuity examples; the conditions are finite) -/

deriving instance DecidableEq for Prog.Node

def visibleAt (q : Plan) (c : Nat) : Bool :=
  match q[c]? with
  | some nd => !isHidden nd
  | none => false

def renumbersB (σ σ' : Nat → Nat) (q P : Plan) (mask : Nat → Bool) : Bool :=
  decide (0 < q.size) && decide (0 < P.size) &&
  (List.range q.size).all (fun j =>
    match q[j]? with
    | some nd =>
      isHidden nd ||
        (mask (σ j) && decide (P[σ j]? = some (mapCh σ nd)) && decide (σ' (σ j) = j) &&
          nd.children.all (visibleAt q))
    | none => true) &&
  (List.range P.size).all (fun i => !mask i || (visibleAt q (σ' i) && decide (σ (σ' i) = i))) &&
  decide (σ (q.size - 1) = P.size - 1) && visibleAt q (q.size - 1)

theorem visibleAt_spec {q : Plan} {c : Nat} (h : visibleAt q c = true) :
    ∃ nd, q[c]? = some nd ∧ isHidden nd = false := by
  unfold visibleAt at h
  cases hq : q[c]? with
  | none => rw [hq] at h; cases h
  | some nd => rw [hq] at h; exact ⟨nd, rfl, by simpa using h⟩

theorem renumbersB_sound {σ σ' : Nat → Nat} {q P : Plan} {mask : Nat → Bool}
    (h : renumbersB σ σ' q P mask = true) : Renumbers σ σ' q P mask := by
  simp only [renumbersB, Bool.and_eq_true, decide_eq_true_eq, List.all_eq_true, List.mem_range] at h
  obtain ⟨⟨⟨⟨⟨hq, hp⟩, hnode⟩, hinv⟩, hroot⟩, hrv⟩ := h
  refine ⟨hq, hp, ?_, ?_, ⟨hroot, visibleAt_spec hrv⟩⟩
  · intro j nd hnd hh
    have := hnode j (lt_of_get? hnd)
    rw [hnd] at this
    simp only [hh, Bool.false_or, Bool.and_eq_true, decide_eq_true_eq, List.all_eq_true] at this
    obtain ⟨⟨⟨h1, h2⟩, h3⟩, h4⟩ := this
    exact ⟨h1, h2, h3, fun c hc => visibleAt_spec (h4 c hc)⟩
  · intro i hi hm
    have := hinv i hi
    simp only [hm, Bool.not_true, Bool.false_or, Bool.and_eq_true, decide_eq_true_eq] at this
    obtain ⟨nd, h1, h2⟩ := visibleAt_spec this.1
    exact ⟨nd, h1, h2, this.2⟩

end Routes
