/-
Spike: C09 — the commitment root is a function of the committed structure, and is injective on it up
to hiding unless an explicit SHA-256 compression event is exhibited.
-/
namespace Cmr

inductive L | iden | unit | witness deriving DecidableEq
inductive U | injl | injr | take | drop | disconnect deriving DecidableEq
inductive B | comp | case | pair deriving DecidableEq
inductive Tag | l (k : L) | u (k : U) | b (k : B) | fail deriving DecidableEq

/-- 256-bit strings; the compression function and the constants are parameters -/
structure Params where
  H : Type
  [dec : DecidableEq H]
  compress : H → H × H → H      -- SHA-256 compression: midstate, 512-bit block
  init : H                      -- SHA-256 initial state
  zero : H
  tagHash : Tag → H             -- sha256 of the tag string of each combinator
  J : Type                      -- jets (and constant words)
  jetCmr : J → H

variable (P : Params)

/-- the committed structure: no witness values, no types, no disconnected right branch -/
inductive C (P : Params) where
  | leaf (k : L)
  | un (k : U) (c : C P)               -- disconnect commits to its left child only
  | bin (k : B) (l r : C P)
  | fail (e1 e2 : P.H)
  | jet (j : P.J)
  | hidden (h : P.H)

/-- tagged IV: the midstate after hashing `sha256(tag) ‖ sha256(tag)` -/
def iv (t : Tag) : P.H := P.compress P.init (P.tagHash t, P.tagHash t)

def cmr : C P → P.H
  | .leaf k => iv P (.l k)
  | .un k c => P.compress (iv P (.u k)) (P.zero, cmr c)
  | .bin k l r => P.compress (iv P (.b k)) (cmr l, cmr r)
  | .fail e1 e2 => P.compress (iv P .fail) (e1, e2)
  | .jet j => P.jetCmr j
  | .hidden h => h

/-- replacing sub-expressions by hidden nodes carrying their roots -/
inductive Hide : C P → C P → Prop
  | refl (c) : Hide c c
  | hide (c) : Hide c (.hidden (cmr P c))
  | un {k c c'} : Hide c c' → Hide (.un k c) (.un k c')
  | bin {k l l' r r'} : Hide l l' → Hide r r' → Hide (.bin k l r) (.bin k l' r')

/-- **C09**: hiding any sub-expressions leaves the root unchanged -/
theorem cmr_hide {c c' : C P} (h : Hide P c c') : cmr P c' = cmr P c := by
  induction h with
  | refl => rfl
  | hide => rfl
  | un _ ih => simp [cmr, ih]
  | bin _ _ ih1 ih2 => simp [cmr, ih1, ih2]

/-- two structures are the same up to hidden parts -/
inductive Sim : C P → C P → Prop
  | leaf (k) : Sim (.leaf k) (.leaf k)
  | un {k c c'} : Sim c c' → Sim (.un k c) (.un k c')
  | bin {k l l' r r'} : Sim l l' → Sim r r' → Sim (.bin k l r) (.bin k l' r')
  | fail (e1 e2) : Sim (.fail e1 e2) (.fail e1 e2)
  | jet (j) : Sim (.jet j) (.jet j)
  | hidL {h c} : cmr P c = h → Sim (.hidden h) c
  | hidR {h c} : cmr P c = h → Sim c (.hidden h)

/-- what an equality of roots of different structures exhibits -/
inductive Bad : Prop
  /-- two different (midstate, block) inputs of the compression function with one output -/
  | collision (s s' : P.H) (b b' : P.H × P.H) : (s, b) ≠ (s', b') → P.compress s b = P.compress s' b' → Bad
  /-- a jet's tabulated root is produced by the combinator hashing -/
  | jetHit (j : P.J) (s : P.H) (b : P.H × P.H) : P.jetCmr j = P.compress s b → Bad
  /-- two jets share a root (excluded by the table check of C14) -/
  | jetClash (j j' : P.J) : j ≠ j' → P.jetCmr j = P.jetCmr j' → Bad
  /-- two tags share a hash (excluded by the constants check) -/
  | tagClash (k k' : Tag) : k ≠ k' → P.tagHash k = P.tagHash k' → Bad
  /-- the initial state is itself a tagged IV -/
  | initHit (k : Tag) : P.init = iv P k → Bad

theorem compress_inj {s s' : P.H} {b b' : P.H × P.H} (h : P.compress s b = P.compress s' b') :
    (s = s' ∧ b = b') ∨ Bad P := by
  have := P.dec
  by_cases e : (s, b) = (s', b')
  · injection e with e1 e2; exact .inl ⟨e1, e2⟩
  · exact .inr (.collision _ _ _ _ e h)

theorem iv_inj {k k' : Tag} (h : iv P k = iv P k') : k = k' ∨ Bad P := by
  by_cases hk : k = k'
  · exact .inl hk
  · right
    rcases compress_inj P h with ⟨_, e⟩ | b
    · injection e with e1 _; exact .tagClash k k' hk e1
    · exact b

/-- a tagged IV is not the initial state -/
theorem init_ne {k : Tag} {b : P.H × P.H} {s : P.H} {b' : P.H × P.H}
    (h : P.compress P.init b = P.compress s b') (hs : s = iv P k) : Bad P := by
  rcases compress_inj P h with ⟨e, _⟩ | b
  · exact .initHit k (e.trans hs)
  · exact b

/-- **C09, last sentence**: equal roots ⇒ equal structure up to hiding, or an explicit hash event -/
theorem cmr_inj : ∀ (x y : C P), cmr P x = cmr P y → Sim P x y ∨ Bad P
  | .hidden h, y, e => .inl (.hidL e.symm)
  | .leaf k, .hidden h, e => .inl (.hidR e)
  | .un k c, .hidden h, e => .inl (.hidR e)
  | .bin k l r, .hidden h, e => .inl (.hidR e)
  | .fail e1 e2, .hidden h, e => .inl (.hidR e)
  | .jet j, .hidden h, e => .inl (.hidR e)
  -- jets
  | .jet j, .jet j', e => by
    by_cases hj : j = j'
    · subst hj; exact .inl (.jet j)
    · exact .inr (.jetClash j j' hj e)
  | .jet j, .leaf k, e => .inr (.jetHit j _ _ e)
  | .jet j, .un k c, e => .inr (.jetHit j _ _ e)
  | .jet j, .bin k l r, e => .inr (.jetHit j _ _ e)
  | .jet j, .fail e1 e2, e => .inr (.jetHit j _ _ e)
  | .leaf k, .jet j, e => .inr (.jetHit j _ _ e.symm)
  | .un k c, .jet j, e => .inr (.jetHit j _ _ e.symm)
  | .bin k l r, .jet j, e => .inr (.jetHit j _ _ e.symm)
  | .fail e1 e2, .jet j, e => .inr (.jetHit j _ _ e.symm)
  -- leaves
  | .leaf k, .leaf k', e => by
    rcases iv_inj P e with h | b
    · injection h with h; subst h; exact .inl (.leaf k)
    · exact .inr b
  | .leaf k, .un k' c, e => .inr (init_ne P e rfl)
  | .leaf k, .bin k' l r, e => .inr (init_ne P e rfl)
  | .leaf k, .fail e1 e2, e => .inr (init_ne P e rfl)
  | .un k' c, .leaf k, e => .inr (init_ne P e.symm rfl)
  | .bin k' l r, .leaf k, e => .inr (init_ne P e.symm rfl)
  | .fail e1 e2, .leaf k, e => .inr (init_ne P e.symm rfl)
  -- unary
  | .un k c, .un k' c', e => by
    rcases compress_inj P e with ⟨e1, e2⟩ | b
    · rcases iv_inj P e1 with h | b
      · injection h with h; subst h
        injection e2 with _ e3
        rcases cmr_inj c c' e3 with s | b
        · exact .inl (.un s)
        · exact .inr b
      · exact .inr b
    · exact .inr b
  | .un k c, .bin k' l r, e => by
    rcases compress_inj P e with ⟨e1, _⟩ | b
    · rcases iv_inj P e1 with h | b
      · cases h
      · exact .inr b
    · exact .inr b
  | .un k c, .fail e1 e2, e => by
    rcases compress_inj P e with ⟨e1, _⟩ | b
    · rcases iv_inj P e1 with h | b
      · cases h
      · exact .inr b
    · exact .inr b
  | .bin k' l r, .un k c, e => by
    rcases compress_inj P e with ⟨e1, _⟩ | b
    · rcases iv_inj P e1 with h | b
      · cases h
      · exact .inr b
    · exact .inr b
  | .fail e1 e2, .un k c, e => by
    rcases compress_inj P e with ⟨e1, _⟩ | b
    · rcases iv_inj P e1 with h | b
      · cases h
      · exact .inr b
    · exact .inr b
  -- binary
  | .bin k l r, .bin k' l' r', e => by
    rcases compress_inj P e with ⟨e1, e2⟩ | b
    · rcases iv_inj P e1 with h | b
      · injection h with h; subst h
        injection e2 with e3 e4
        rcases cmr_inj l l' e3 with s1 | b
        · rcases cmr_inj r r' e4 with s2 | b
          · exact .inl (.bin s1 s2)
          · exact .inr b
        · exact .inr b
      · exact .inr b
    · exact .inr b
  | .bin k l r, .fail e1 e2, e => by
    rcases compress_inj P e with ⟨e1, _⟩ | b
    · rcases iv_inj P e1 with h | b
      · cases h
      · exact .inr b
    · exact .inr b
  | .fail e1 e2, .bin k l r, e => by
    rcases compress_inj P e with ⟨e1, _⟩ | b
    · rcases iv_inj P e1 with h | b
      · cases h
      · exact .inr b
    · exact .inr b
  | .fail e1 e2, .fail e1' e2', e => by
    rcases compress_inj P e with ⟨_, e2⟩ | b
    · injection e2 with e3 e4; subst e3 e4; exact .inl (.fail _ _)
    · exact .inr b

/-! ### the root ignores everything that is not committed -/

/-- a redemption-time node: types, witness values and the disconnected branch are present -/
inductive R (P : Params) (Ty V : Type) where
  | leaf (k : L) (arrow : Ty × Ty) (w : Option V)
  | un (k : U) (arrow : Ty × Ty) (c : R P Ty V) (disconnected : Option (R P Ty V))
  | bin (k : B) (arrow : Ty × Ty) (l r : R P Ty V)
  | fail (arrow : Ty × Ty) (e1 e2 : P.H)
  | jet (j : P.J)
  | hidden (h : P.H)

def erase {Ty V : Type} : R P Ty V → C P
  | .leaf k _ _ => .leaf k
  | .un k _ c _ => .un k (erase c)
  | .bin k _ l r => .bin k (erase l) (erase r)
  | .fail _ e1 e2 => .fail e1 e2
  | .jet j => .jet j
  | .hidden h => .hidden h

/-- same committed structure: anything may differ in types, witnesses and disconnected branches -/
theorem cmr_erase {Ty V Ty' V' : Type} (r : R P Ty V) (r' : R P Ty' V') (h : erase P r = erase P r') :
    cmr P (erase P r) = cmr P (erase P r') := by rw [h]

#print axioms cmr_inj
#print axioms cmr_hide
end Cmr
