/-
C17 — the names that `Namer` generates (`<prefix><decimal>`, `hole<decimal>`) and `main` are symbols:
they satisfy the hypothesis on names of `parse_render`.
-/
import SimplicityModel.HumanProg
import SimplicityModel.HumanLexProofs
namespace HT

theorem digitChar_isDigit : ∀ m, m < 10 → isDigit (Nat.digitChar m) = true := by decide

theorem toDigitsCore_digits : ∀ (fuel n : Nat) (ds : List Char), ds.all isDigit = true →
    (Nat.toDigitsCore 10 fuel n ds).all isDigit = true
  | 0, n, ds, h => by simpa [Nat.toDigitsCore] using h
  | fuel + 1, n, ds, h => by
    have hd : isDigit (Nat.digitChar (n % 10)) = true := digitChar_isDigit _ (Nat.mod_lt _ (by decide))
    simp only [Nat.toDigitsCore]
    split
    · simp only [List.all_cons, hd, h, Bool.and_self]
    · exact toDigitsCore_digits fuel (n / 10) _ (by simp only [List.all_cons, hd, h, Bool.and_self])

theorem toDigitsCore_ne_nil : ∀ (fuel n : Nat) (ds : List Char), (ds ≠ [] ∨ 0 < fuel) → Nat.toDigitsCore 10 fuel n ds ≠ []
  | 0, n, ds, h => by
    rcases h with h | h
    · simpa [Nat.toDigitsCore] using h
    · omega
  | fuel + 1, n, ds, _ => by
    simp only [Nat.toDigitsCore]
    split
    · simp
    · exact toDigitsCore_ne_nil fuel (n / 10) _ (.inl (by simp))

theorem natChars_digits (k : Nat) : (natChars k).all isDigit = true ∧ natChars k ≠ [] := by
  have h1 := toDigitsCore_digits (k + 1) k [] rfl
  have h2 := toDigitsCore_ne_nil (k + 1) k [] (.inr (by omega))
  simp only [natChars, Nat.repr, Nat.toDigits]
  exact ⟨by simpa using h1, by simpa using h2⟩

end HT

namespace HT

theorem digit_sym {c : Char} (h : isDigit c = true) : isSymChar c = true := by simp [isSymChar, h]

theorem digit_ne_lower {c : Char} (h : isDigit c = true) (x : Char) (hx : isDigit x = false) : (x == c) = false := by
  cases hh : x == c with
  | false => rfl
  | true => rw [beq_iff_eq] at hh; subst hh; rw [h] at hx; cases hx

/-- the prefixes the `Namer` uses, and `hole` -/
def namerPrefixes : List (List Char) :=
  ["id", "ut", "jl", "jr", "dp", "tk", "cp", "cs", "asstl", "asstr", "pr", "disc", "wit", "FAIL", "jt", "const", "hole"].map String.toList

theorem namer_name_symOK (p : List Char) (hp : p ∈ namerPrefixes) (d : Char) (ds : List Char)
    (hd : isDigit d = true) (hds : ds.all isDigit = true) : symOK (p ++ d :: ds) = true := by
  have hall : (d :: ds).all isSymChar = true := by
    simp only [List.all_cons, List.all_eq_true, Bool.and_eq_true] at hds ⊢
    exact ⟨digit_sym hd, fun x hx => digit_sym (hds x hx)⟩
  have e1 : ∀ x : Char, isDigit x = false → (x == d) = false := fun x hx => digit_ne_lower hd x hx
  simp only [namerPrefixes, List.map_cons, List.map_nil, List.mem_cons, List.mem_nil_iff, or_false] at hp
  rcases hp with rfl | rfl | rfl | rfl | rfl | rfl | rfl | rfl | rfl | rfl | rfl | rfl | rfl | rfl | rfl | rfl | rfl <;>
    simp [symOK, hall, classify, kwOf, Kw.all, Kw.text, e1, isSymStart, isSymChar, isLower, isUpper, isDigit] <;> decide

end HT

namespace HT

/-- every name `Namer::assign_name` hands out is a symbol -/
theorem namer_assign_symOK (nm : Namer) (nd : Prog.Node) (hh : ∀ h, nd ≠ .hidden h) :
    symOK (nm.assign nd).1 = true := by
  have key : ∀ (p : String) (k : Nat), p.toList ∈ namerPrefixes → symOK (p.toList ++ natChars k) = true := by
    intro p k hp
    obtain ⟨h1, h2⟩ := natChars_digits k
    cases hk : natChars k with
    | nil => exact absurd hk h2
    | cons d ds =>
      rw [hk] at h1
      simp only [List.all_cons, Bool.and_eq_true] at h1
      exact namer_name_symOK _ hp d ds h1.1 h1.2
  cases nd <;> first
    | exact absurd rfl (hh _)
    | (simp only [Namer.assign]; exact key _ _ (by decide))

theorem main_symOK : symOK "main".toList = true := by decide

end HT
