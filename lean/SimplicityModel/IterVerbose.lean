import SimplicityModel.IterRun
set_option linter.unusedSectionVars false
set_option linter.unusedVariables false
/-
C18 — `VerbosePreOrderIter::next` (src/dag.rs) as a stack machine: stack of `PreOrderIterItem`s,
`index`, `max_depth`, tracker.  `vrun` iterates `vstep` until the stack is empty (well-founded on a
weight of the stack: the iterator terminates for every DAG, every tracker and every `max_depth`).
-/
namespace PO
variable {K : Type} [DecidableEq K] (key : T → Option K)

/-- `PreOrderIterItem` -/
structure VItem where
  node : T
  parent : Option T
  index : Nat
  depth : Nat
  ncy : Nat            -- n_children_yielded
  complete : Bool      -- is_complete
deriving Repr

structure VSt (K : Type) where
  stack : List VItem
  index : Nat
  seen : Seen K

def T.nChildren : T → Nat
  | .leaf _ => 0
  | .un _ _ => 1
  | .bin _ _ _ => 2

/-- `PreOrderIterItem::initial` -/
def VItem.initial (d : T) (depth : Nat) (parent : Option T) : VItem :=
  ⟨d, parent, 0, depth, 0, d.nChildren == 0⟩

/-- `PreOrderIterItem::increment` -/
def VItem.increment (it : VItem) (c : Bool) : VItem := { it with ncy := it.ncy + 1, complete := c }

/-- push the child (if the depth limit allows) on top of `st` -/
def pushChild (maxDepth : Option Nat) (top : VItem) (c : Option T) (st : List VItem) : List VItem :=
  if top.depth < maxDepth.getD (top.depth + 1) then
    match c with
    | some c => VItem.initial c (top.depth + 1) (some top.node) :: st
    | none => st    -- `unwrap()` of a missing child: cannot happen, `n_children` said it exists
  else st

/-- the `match (top.n_children_yielded, top.node.n_children())` of the loop body -/
def vpush (maxDepth : Option Nat) (top : VItem) (rest : List VItem) : List VItem :=
  match top.ncy, top.node.nChildren with
  | 0, 0 => rest
  | 0, n => pushChild maxDepth top top.node.left (top.increment (n == 1) :: rest)
  | 1, 0 => rest       -- `unreachable!()`
  | 1, 1 => rest
  | 1, _ => pushChild maxDepth top top.node.right (top.increment true :: rest)
  | _, _ => rest       -- (2, 2)

/-- one iteration of `while let Some(mut top) = self.stack.pop()` -/
def vstep (maxDepth : Option Nat) (s : VSt K) : Option (VSt K × Option VItem) :=
  match s.stack with
  | [] => none
  | top :: rest =>
    if top.ncy = 0 then
      match record key s.seen top.node 0 with
      | (some _, seen') => some (⟨rest, s.index, seen'⟩, none)
      | (none, seen') =>
        let top := { top with index := s.index }
        some (⟨vpush maxDepth top rest, s.index + 1, seen'⟩, some top)
    else
      some (⟨vpush maxDepth top rest, s.index, s.seen⟩, some top)

def VItem.weight (it : VItem) : Nat :=
  if it.ncy = 0 then 3 * it.node.size
  else if it.ncy = 1 then (match it.node with | .bin _ _ r => 3 * r.size + 2 | _ => 1)
  else 1

def vWeight : List VItem → Nat
  | [] => 0
  | it :: s => it.weight + vWeight s

theorem VItem.weight_pos (it : VItem) : 0 < it.weight := by
  unfold VItem.weight
  have := T.size_pos it.node
  split
  · omega
  · split
    · split <;> omega
    · omega

theorem pushChild_le (maxDepth : Option Nat) (top : VItem) (c : T) (st : List VItem) :
    vWeight (pushChild maxDepth top (some c) st) ≤ 3 * c.size + vWeight st := by
  unfold pushChild
  split
  · simp [vWeight, VItem.weight, VItem.initial]
  · omega

theorem vpush_lt (maxDepth : Option Nat) (top : VItem) (rest : List VItem) :
    vWeight (vpush maxDepth top rest) < top.weight + vWeight rest := by
  have hpos := top.weight_pos
  obtain ⟨node, parent, index, depth, ncy, complete⟩ := top
  unfold vpush
  cases node with
  | leaf id =>
    simp only [T.nChildren]
    match ncy with
    | 0 => simp only []; omega
    | 1 => simp only []; omega
    | n + 2 => simp only []; omega
  | un id l =>
    simp only [T.nChildren, T.left, T.right]
    match ncy with
    | 0 =>
      have := pushChild_le maxDepth ⟨.un id l, parent, index, depth, 0, complete⟩ l
        ((VItem.increment ⟨.un id l, parent, index, depth, 0, complete⟩ (1 == 1)) :: rest)
      simp only [vWeight, VItem.weight, VItem.increment, T.size] at this ⊢
      simp at this ⊢
      omega
    | 1 => simp only []; omega
    | n + 2 => simp only []; omega
  | bin id l r =>
    simp only [T.nChildren, T.left, T.right]
    match ncy with
    | 0 =>
      have := pushChild_le maxDepth ⟨.bin id l r, parent, index, depth, 0, complete⟩ l
        ((VItem.increment ⟨.bin id l r, parent, index, depth, 0, complete⟩ (2 == 1)) :: rest)
      simp only [vWeight, VItem.weight, VItem.increment, T.size] at this ⊢
      simp at this ⊢
      omega
    | 1 =>
      have := pushChild_le maxDepth ⟨.bin id l r, parent, index, depth, 1, complete⟩ r
        ((VItem.increment ⟨.bin id l r, parent, index, depth, 1, complete⟩ true) :: rest)
      simp only [vWeight, VItem.weight, VItem.increment, T.size] at this ⊢
      simp at this ⊢
      omega
    | n + 2 => simp only []; omega

/-- **`VerbosePreOrderIter::next` terminates** -/
theorem vstep_decreases (maxDepth : Option Nat) (s s' : VSt K) (o : Option VItem)
    (h : vstep key maxDepth s = some (s', o)) : vWeight s'.stack < vWeight s.stack := by
  unfold vstep at h
  cases hst : s.stack with
  | nil => rw [hst] at h; cases h
  | cons top rest =>
    rw [hst] at h
    simp only [] at h
    have hpos := top.weight_pos
    obtain ⟨node, parent, index, depth, ncy, complete⟩ := top
    by_cases h0 : ncy = 0
    · subst h0
      simp only [if_true] at h
      cases hr : record key s.seen node 0 with
      | mk a seen' =>
        rw [hr] at h
        cases a with
        | some i =>
          simp only [Option.some.injEq, Prod.mk.injEq] at h
          obtain ⟨rfl, _⟩ := h
          simp only [vWeight]; omega
        | none =>
          simp only [Option.some.injEq, Prod.mk.injEq] at h
          obtain ⟨rfl, _⟩ := h
          have := vpush_lt maxDepth ⟨node, parent, s.index, depth, 0, complete⟩ rest
          simp only [vWeight]
          have hw : (⟨node, parent, s.index, depth, 0, complete⟩ : VItem).weight =
            (⟨node, parent, index, depth, 0, complete⟩ : VItem).weight := rfl
          omega
    · simp only [h0, if_false] at h
      simp only [Option.some.injEq, Prod.mk.injEq] at h
      obtain ⟨rfl, _⟩ := h
      have := vpush_lt maxDepth ⟨node, parent, index, depth, ncy, complete⟩ rest
      simp only [vWeight]; omega

/-- everything the verbose iterator yields -/
def vrun (maxDepth : Option Nat) (s : VSt K) : List VItem :=
  match h : vstep key maxDepth s with
  | none => []
  | some (s', o) => o.toList ++ vrun maxDepth s'
termination_by vWeight s.stack
decreasing_by exact vstep_decreases key maxDepth s s' o h

/-- the state `DagLike::verbose_pre_order_iter` starts from -/
def vinit (root : T) : VSt K := ⟨[VItem.initial root 0 none], 0, fun _ => none⟩

end PO
