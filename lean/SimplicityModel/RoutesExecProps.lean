/-
C12 — the modelled run of `finalize_pruned` (`RoutesExec.lean`): the program `finalize_unpruned`
returns always has a term, the term is `WT`, so the Bit Machine run inside `finalize_pruned` cannot
crash and fails exactly when the tracker-evaluator fails; what a witness node writes.
-/
import SimplicityModel.RoutesRules
import SimplicityModel.Prog.ElabProps

namespace Routes
open BM4 Prog

/-! ### the carried values as the `wit` component of the elaboration environment -/

theorem find_key {r : Witnesses} (hn : (r.map (·.1)).Nodup) {iv : Nat × Val} (hm : iv ∈ r) :
    r.find? (fun x => x.1 = iv.1) = some iv := by
  induction r with
  | nil => cases hm
  | cons x rest ih =>
    simp only [List.map_cons, List.nodup_cons] at hn
    rcases List.mem_cons.1 hm with rfl | hm
    · simp
    · have hne : x.1 ≠ iv.1 := by
        intro e; apply hn.1; rw [e]; exact List.mem_map.2 ⟨iv, hm, rfl⟩
      simp only [List.find?_cons, hne, decide_false]
      exact ih hn.2 hm

theorem witnessIdx_nodup (p : Plan) : (witnessIdx p).Nodup :=
  List.Pairwise.filter _ List.nodup_range

theorem mem_witnessIdx {p : Plan} {i : Nat} : i ∈ witnessIdx p ↔ p[i]? = some .witness := by
  unfold witnessIdx isWitness
  simp only [List.mem_filter, List.mem_range]
  constructor
  · rintro ⟨_, h⟩
    split at h
    · next h' => exact h'
    · cases h
  · intro h
    refine ⟨?_, by rw [h]⟩
    rcases Nat.lt_or_ge i p.size with hlt | hge
    · exact hlt
    · rw [Array.getElem?_eq_none hge] at h; cases h

/-- the value carried at a witness node is found under the node's index -/
theorem witBits_mem {idx : List Nat} {r : Witnesses} (hc : Covers idx r) (hn : idx.Nodup)
    {iv : Nat × Val} (hm : iv ∈ r) : witBits r iv.1 = some (compact iv.2) := by
  unfold witBits
  rw [find_key (by rw [hc]; exact hn) hm]
  rfl

theorem witBits_idx {ar : Arrows} {idx : List Nat} {r : Witnesses} (hc : Covers idx r) (hn : idx.Nodup)
    (ht : WitnessTyped ar r) {i : Nat} (hi : i ∈ idx) :
    ∃ v, (i, v) ∈ r ∧ witBits r i = some (compact v) ∧ HasTy v (tgtOf ar i) := by
  rw [← hc] at hi
  obtain ⟨iv, hm, rfl⟩ := List.mem_map.1 hi
  exact ⟨iv.2, hm, witBits_mem hc hn hm, ht iv hm⟩

/-! ### the redemption program of `finalize_unpruned` elaborates -/

/-- arrows satisfying the typing rules + one typed value per witness node ⇒ everything elaboration
needs -/
theorem elabHyp_of {jt : JetTypes} {p : Plan} {ar : Arrows} {r : Witnesses} (re : RunEnv)
    (hok : planOK p = true) (hsz : ar.size = p.size)
    (hrules : ∀ i nd, p[i]? = some nd → NodeRule jt ar (srcOf ar i) (tgtOf ar i) nd)
    (hc : Covers (witnessIdx p) r) (ht : WitnessTyped ar r) : ElabHyp jt (envOf p ar r re) where
  rules := hrules
  nohidden := fun i h hnd => by
    have := planOK_node hok hnd
    simp [nodeOK] at this
  back := fun _ _ hnd => nodeOK_children (planOK_node hok hnd)
  size := hsz
  wit := fun i hi => by
    obtain ⟨v, _, hb, hv⟩ := witBits_idx hc (witnessIdx_nodup p) ht (mem_witnessIdx.2 hi)
    exact ⟨v, hb, hv⟩

theorem routeU_elabHyp {jt : JetTypes} {p : Plan} {program : Bool} {cand : Nat → Option Val}
    {ar : Arrows} {r : Witnesses} (re : RunEnv) (hok : planOK p = true)
    (h : routeU jt p program cand = .ok ar r) : ElabHyp jt (envOf p ar r re) := by
  obtain ⟨hi, hf⟩ := routeU_ok h
  obtain ⟨hc, ht⟩ := convertAll_spec hf
  obtain ⟨hsz, hrules, _⟩ := infer_rules hi hok
  exact elabHyp_of re hok hsz hrules hc ht

/-- **the unpruned program has a term, and the term is well typed** (`WT`: every witness and word
value has its node's target type, every jet computes its specification) -/
theorem routeU_term {jt : JetTypes} {p : Plan} {cand : Nat → Option Val} {ar : Arrows} {r : Witnesses}
    (re : RunEnv) (hok : planOK p = true) (h : routeU jt p true cand = .ok ar r) :
    ∃ t : Term .one .one,
      elabNode (envOf p ar r re) (p.size + 1) (p.size - 1) = some ⟨.one, .one, t⟩ ∧ WT t := by
  have H := routeU_elabHyp re hok h
  obtain ⟨_, _, hroot⟩ := infer_rules (routeU_ok h).1 hok
  obtain ⟨hs, ht⟩ := hroot rfl
  have hpos := planOK_pos hok
  have := elab_total (envOf p ar r re) H (p.size + 1) (p.size - 1)
    (by show p.size - 1 < p.size + 1; omega) (by show p.size - 1 < p.size; omega)
  have hs' : srcOf (envOf p ar r re).arrows (p.size - 1) = .one := hs
  have ht' : tgtOf (envOf p ar r re).arrows (p.size - 1) = .one := ht
  rw [hs', ht'] at this
  exact this

/-! ### the evaluator with the tracker against the Bit Machine -/

theorem evalT_ok_eval {a b : Ty} (t : Term a b) (l : Lab) (v o : Val) (tr : Trace)
    (h : evalT t l v = .ok (o, tr)) : eval t v = some o := by
  have h1 := evalT_fst t l v
  rw [h] at h1
  rw [← evalK_eval, ← h1]
  rfl

theorem evalT_error_eval {a b : Ty} (t : Term a b) (l : Lab) (v : Val) (k : Fail)
    (h : evalT t l v = .error k) : eval t v = none := by
  have h1 := evalT_fst t l v
  rw [h] at h1
  rw [← evalK_eval, ← h1]
  rfl

/-- **the run inside `finalize_pruned`**: the program has a term (`noTerm` is impossible); the Bit
Machine sized by `for_program` and run by `exec` on the unit input returns an output exactly when
the evaluator with the tracker succeeds, and reports a failure (assertion / fail node / jet) — never
a crash — exactly when that one fails. -/
theorem trackedRun_machine {jt : JetTypes} {p : Plan} {cand : Nat → Option Val} {ar : Arrows}
    {r : Witnesses} (re : RunEnv) (hok : planOK p = true) (h : routeU jt p true cand = .ok ar r) :
    ∃ t : Term .one .one,
      elabNode (envOf p ar r re) (p.size + 1) (p.size - 1) = some ⟨.one, .one, t⟩ ∧ WT t ∧
      match trackedRun p ar r re with
      | .ok _ => ∃ bits, execProgram t .unit = .ok bits
      | .failed _ => execProgram t .unit = .error .fail
      | .noTerm => False := by
  obtain ⟨t, helab, hwt⟩ := routeU_term re hok h
  refine ⟨t, helab, hwt, ?_⟩
  have hx := exec_spec t .unit .unit hwt
  unfold trackedRun
  rw [helab]
  simp only
  cases hev : evalT t (labOf p re.ids (p.size + 1) (p.size - 1)) .unit with
  | ok x =>
    obtain ⟨o, tr⟩ := x
    simp only
    rw [evalT_ok_eval t _ _ o tr hev] at hx
    obtain ⟨bits, hb, _⟩ := hx
    exact ⟨bits, hb⟩
  | error k =>
    simp only
    rw [evalT_error_eval t _ _ k hev] at hx
    exact hx

/-! ### what a witness node writes -/

/-- the machine step of a witness node carrying a value `v` of the node's target type `b`, in any
machine state that has the output area of a `b` in its write frame: it succeeds, advances the write
cursor by exactly `b.bw`, the cells it wrote are exactly the padded encoding of `v` (which is `b.bw`
bits long), and no other cell changes -/
theorem witness_step {a b : Ty} (v : Val) (hv : HasTy v b) (m : M) (inp : Val) (pre : Pre m a b inp)
    (hcap : Cap m (Term.witness (a := a) (b := b) v)) :
    ∃ m', run (Term.witness (a := a) (b := b) v) m = .ok m' ∧
      m'.write = advW b.bw m.write ∧ m'.read = m.read ∧ m'.next = m.next ∧
      (padded b v).length = b.bw ∧ slice m'.cells (wcur m) b.bw = padded b v ∧
      ∀ i, (i < wcur m ∨ wcur m + b.bw ≤ i) → m'.cells i = m.cells i := by
  have hlen : (padded b v).length = b.bw := (enc_padded hv).length
  simp only [run]
  by_cases h0 : b.bw = 0
  · have hnil : padded b v = [] := List.eq_nil_of_length_eq_zero (by omega)
    rw [hnil, h0]
    exact ⟨m, rfl, by simp, rfl, rfl, rfl, rfl, fun _ _ => rfl⟩
  · obtain ⟨fw, ws, hwr⟩ := List.exists_cons_of_ne_nil (pre.hw h0)
    have hwc := wcur_cons m fw ws hwr
    have hwl := pre.wlt
    have hcc := hcap.cells
    obtain ⟨m', hr, h1, h2, h3, h4, h5⟩ := writeBits_spec (padded b v) m fw ws hwr (by omega)
    refine ⟨m', hr, ?_, h1, h2, hlen, ?_, ?_⟩
    · rw [h3, hwr, hlen]; rfl
    · rw [hwc, ← hlen]; exact h4
    · intro i hi
      apply h5
      rw [hlen, ← hwc]; exact hi

end Routes

namespace Routes
open BM4 Prog

/-- a witness node of a program that carries one typed value per listed witness node elaborates to
the `witness` instruction with exactly the carried value, at exactly the node's arrow -/
theorem witness_elab {p : Plan} {ar : Arrows} {idx : List Nat} {r : Witnesses} (re : RunEnv)
    (hsz : ar.size = p.size) (hc : Covers idx r) (hn : idx.Nodup)
    (hidx : ∀ i ∈ idx, p[i]? = some .witness) (ht : WitnessTyped ar r)
    {iv : Nat × Val} (hm : iv ∈ r) (f : Nat) :
    elabNode (envOf p ar r re) (f + 1) iv.1 =
      some ⟨srcOf ar iv.1, tgtOf ar iv.1, Term.witness iv.2⟩ := by
  have hi : iv.1 ∈ idx := by rw [← hc]; exact List.mem_map.2 ⟨iv, hm, rfl⟩
  have hnd := hidx _ hi
  have hlt : iv.1 < p.size := by
    rcases Nat.lt_or_ge iv.1 p.size with hlt | hge
    · exact hlt
    · rw [Array.getElem?_eq_none hge] at hnd; cases hnd
  rw [elabNode_succ]
  show (do
    let nd ← p[iv.1]?
    let ab ← ar[iv.1]?
    elabStep (envOf p ar r re) f iv.1 nd ab.1 ab.2) = _
  rw [hnd, arrows_get? ar iv.1 (by omega)]
  simp only [Option.bind_eq_bind, Option.bind_some, elabStep, envOf, witBits_mem hc hn hm,
    valOfCompact_compact (ht iv hm), Option.pure_def]

end Routes

namespace Routes
open BM4 Prog

theorem finalizePruned_of_ok {jt : JetTypes} {leak : Bool} {p : Plan} {program : Bool}
    {cand : Nat → Option Val} {re : RunEnv} {ar : Arrows} {r : Witnesses} {tr : Trace}
    (hu : routeU jt p program cand = .ok ar r) (hr : trackedRun p ar r re = .ok tr) :
    finalizePruned jt leak p program cand re =
      routeP jt leak p program cand (cutOf p (sidesOf re.ids tr.sides)) := by
  unfold finalizePruned; rw [hu]; simp only; rw [hr]

theorem finalizePruned_of_failed {jt : JetTypes} {leak : Bool} {p : Plan} {program : Bool}
    {cand : Nat → Option Val} {re : RunEnv} {ar : Arrows} {r : Witnesses} {k : Fail}
    (hu : routeU jt p program cand = .ok ar r) (hr : trackedRun p ar r re = .failed k) :
    finalizePruned jt leak p program cand re = .err := by
  unfold finalizePruned; rw [hu]; simp only; rw [hr]

theorem finalizePruned_of_noTerm {jt : JetTypes} {leak : Bool} {p : Plan} {program : Bool}
    {cand : Nat → Option Val} {re : RunEnv} {ar : Arrows} {r : Witnesses}
    (hu : routeU jt p program cand = .ok ar r) (hr : trackedRun p ar r re = .noTerm) :
    finalizePruned jt leak p program cand re = .illTyped := by
  unfold finalizePruned; rw [hu]; simp only; rw [hr]

theorem finalizePruned_of_not_ok {jt : JetTypes} {leak : Bool} {p : Plan} {program : Bool}
    {cand : Nat → Option Val} {re : RunEnv} (hu : ∀ ar r, routeU jt p program cand ≠ .ok ar r) :
    finalizePruned jt leak p program cand re = routeU jt p program cand := by
  unfold finalizePruned
  cases h : routeU jt p program cand with
  | ok ar r => exact absurd h (hu ar r)
  | _ => rfl

/-- once `finalize_unpruned` has returned a program, pruning reports neither a witness error nor
an untypable plan -/
theorem routeP_of_ok {jt : JetTypes} {leak : Bool} {p : Plan} {program : Bool}
    {cand : Nat → Option Val} {ar : Arrows} {r : Witnesses} (c : Cut)
    (hu : routeU jt p program cand = .ok ar r) :
    routeP jt leak p program cand c ≠ .err ∧ routeP jt leak p program cand c ≠ .illTyped := by
  unfold routeP
  rw [hu]
  simp only
  cases inferCut jt leak p program c with
  | ok ar0 => simp only; cases pruneValues ar0 c.keep r <;> simp
  | _ => simp

end Routes

namespace Routes
open BM4 Prog

/-- a program returned by `finalizePruned` is the result of `routeP` for some cut -/
theorem finalizePruned_ok_routeP {jt : JetTypes} {leak : Bool} {p : Plan} {program : Bool}
    {cand : Nat → Option Val} {re : RunEnv} {ar' : Arrows} {r' : Witnesses}
    (h : finalizePruned jt leak p program cand re = .ok ar' r') :
    ∃ c, routeP jt leak p program cand c = .ok ar' r' := by
  unfold finalizePruned at h
  cases hu : routeU jt p program cand with
  | ok ar r =>
    rw [hu] at h
    simp only at h
    cases hr : trackedRun p ar r re with
    | ok tr => rw [hr] at h; exact ⟨_, h⟩
    | failed k => rw [hr] at h; cases h
    | noTerm => rw [hr] at h; cases h
  | err => rw [hu] at h; cases h
  | illTyped => rw [hu] at h; cases h
  | fuel => rw [hu] at h; cases h
  | panic => rw [hu] at h; cases h

theorem inferCut_size {jt : JetTypes} {leak : Bool} {p : Plan} {program : Bool} {c : Cut} {ar' : Arrows}
    (h : inferCut jt leak p program c = .ok ar') : ar'.size = p.size := by
  unfold inferCut at h
  cases hc : cutConstraints jt leak p program c with
  | none => rw [hc] at h; cases h
  | some es =>
    rw [hc] at h
    simp only at h
    cases hu : Inf.unify unifyFuel es [] with
    | ok S =>
      rw [hu] at h
      simp only [InferRes.ok.injEq] at h
      rw [← h]; simp
    | clash => rw [hu] at h; cases h
    | occurs => rw [hu] at h; cases h
    | fuel => rw [hu] at h; cases h

end Routes

namespace Prog

theorem pruneList_length (S : List (Nat × Bool)) (ids : Nat → Nat) (cm : Nat → Nat) :
    ∀ (k : Nat) (ns : List Node), (pruneList S ids cm k ns).length = ns.length
  | _, [] => rfl
  | k, _ :: ns => by simp [pruneList, pruneList_length S ids cm (k + 1) ns]

end Prog

namespace Routes
open BM4 Prog

/-- what `routeP` returns: the re-inferred arrows, one value per remaining witness node, each of
its node's re-inferred target type (`Props.C12.finalize_pruned_ok_or_error_partial`) -/
theorem finalize_pruned_ok_or_error_core {jt : JetTypes} {leak : Bool} {p : Plan} {program : Bool}
    {cand : Nat → Option Val} {c : Cut} {ar' : Arrows} {r' : Witnesses}
    (h : routeP jt leak p program cand c = .ok ar' r') :
    inferCut jt leak p program c = .ok ar' ∧ Covers ((witnessIdx p).filter c.keep) r' ∧
      WitnessTyped ar' r' := by
  unfold routeP at h
  cases hu : routeU jt p program cand with
  | ok ar r =>
    rw [hu] at h
    simp only at h
    obtain ⟨_, hf⟩ := routeU_ok hu
    have hcov := (convertAll_spec hf).1
    cases hi : inferCut jt leak p program c with
    | ok ar0 =>
      rw [hi] at h
      simp only at h
      cases hp : pruneValues ar0 c.keep r with
      | none => rw [hp] at h; cases h
      | some r0 =>
        rw [hp] at h
        simp only [Outcome.ok.injEq] at h
        obtain ⟨rfl, rfl⟩ := h
        obtain ⟨h1, h2⟩ := pruneValues_spec hp
        exact ⟨rfl, by unfold Covers at hcov ⊢; rw [h1, hcov], h2⟩
    | typeError => rw [hi] at h; cases h
    | occurs => rw [hi] at h; cases h
    | badPlan => rw [hi] at h; cases h
    | fuel => rw [hi] at h; cases h
  | err => rw [hu] at h; cases h
  | illTyped => rw [hu] at h; cases h
  | fuel => rw [hu] at h; cases h
  | panic => rw [hu] at h; cases h

end Routes

namespace Routes
open BM4 Prog

theorem runSides_spec {jt : JetTypes} {p : Plan} {program : Bool} {cand : Nat → Option Val} {re : RunEnv}
    {S : List (Nat × Bool)} (h : runSides jt p program cand re = some S) :
    ∃ ar r tr, routeU jt p program cand = .ok ar r ∧ trackedRun p ar r re = .ok tr ∧ tr.sides = S := by
  unfold runSides at h
  cases hu : routeU jt p program cand with
  | ok ar r =>
    rw [hu] at h
    simp only at h
    cases hr : trackedRun p ar r re with
    | ok tr =>
      rw [hr] at h
      simp only [Option.some.injEq] at h
      exact ⟨ar, r, tr, rfl, hr, h⟩
    | failed k => rw [hr] at h; cases h
    | noTerm => rw [hr] at h; cases h
  | err => rw [hu] at h; cases h
  | illTyped => rw [hu] at h; cases h
  | fuel => rw [hu] at h; cases h
  | panic => rw [hu] at h; cases h

end Routes
