/-
C08, re-typing: what a successful `inferM` says about the arrows it returns — every selected node
satisfies the typing rule of its combinator against the arrows of its children (`NodeTyped`).  This
is the soundness half of `Inf.unify_least` read node by node; it is what makes the pruned plan
elaborate with its re-inferred arrows.
-/
import SimplicityModel.PrunePlanProps
import SimplicityModel.RoutesValue

namespace Prog
open BM4
open Inf (Eqn)

/-! ### compact bits and typed values -/

theorem valOfCompact_some {t : Ty} {bs : List Bool} {v : Val} (h : valOfCompact t bs = some v) :
    decCompact t bs = some (v, []) := by
  unfold valOfCompact at h
  split at h
  · next v' hd => cases h; exact hd
  · cases h

theorem valOfCompact_hasTy {t : Ty} {bs : List Bool} {v : Val} (h : valOfCompact t bs = some v) : HasTy v t :=
  (Routes.decCompact_canonical t bs v [] (valOfCompact_some h)).2

theorem valOfCompact_compact {t : Ty} {v : Val} (h : HasTy v t) : valOfCompact t (compact v) = some v := by
  have := Routes.decCompact_compact h []
  simp only [List.append_nil] at this
  simp [valOfCompact, this]

/-! ### the typing rule of one node -/

/-- node `nd` at arrow `a → b`, children at the arrows `A` -/
def NodeTyped (jt : JetTypes) (A : Nat → Ty × Ty) (a b : Ty) : Node → Prop
  | .iden => a = b
  | .unit => b = .one
  | .injl c => ∃ X Y, A c = (a, X) ∧ b = .sum X Y
  | .injr c => ∃ X Y, A c = (a, Y) ∧ b = .sum X Y
  | .take c => ∃ X Y, A c = (X, b) ∧ a = .prod X Y
  | .drop c => ∃ X Y, A c = (Y, b) ∧ a = .prod X Y
  | .comp x y => ∃ M, A x = (a, M) ∧ A y = (M, b)
  | .case x y => ∃ X Y Z, A x = (.prod X Z, b) ∧ A y = (.prod Y Z, b) ∧ a = .prod (.sum X Y) Z
  | .assertl x _ => ∃ X Y Z, A x = (.prod X Z, b) ∧ a = .prod (.sum X Y) Z
  | .assertr _ y => ∃ X Y Z, A y = (.prod Y Z, b) ∧ a = .prod (.sum X Y) Z
  | .pair x y => ∃ X Y, A x = (a, X) ∧ A y = (a, Y) ∧ b = .prod X Y
  | .disconnect x (some y) =>
      ∃ Y C D, A x = (.prod (wordTy 8) a, .prod Y C) ∧ A y = (C, D) ∧ b = .prod Y D
  | .disconnect _ none => True
  | .witness => True
  | .fail _ => True
  | .word n _ => a = .one ∧ b = wordTy n
  | .jet name => jt name = some (a, b)
  | .hidden _ => True

theorem eval_tmOfTy (ρ : Nat → Inf.Ty) (t : Ty) : (tmOfTy t).eval ρ = infOfTy t := by
  induction t with
  | one => rfl
  | sum a b iha ihb => simp [tmOfTy, infOfTy, Inf.Tm.eval, iha, ihb]
  | prod a b iha ihb => simp [tmOfTy, infOfTy, Inf.Tm.eval, iha, ihb]

/-- arrows read off a valuation of the type variables -/
def arrOf (ρ : Nat → Inf.Ty) (j : Nat) : Ty × Ty := (tyOfInf (ρ (2 * j)), tyOfInf (ρ (2 * j + 1)))

/-- a valuation that solves the equations of a node gives arrows that satisfy its typing rule -/
theorem nodeEqns_typed (jt : JetTypes) (ρ : Nat → Inf.Ty) (A : Nat → Ty × Ty) (i : Nat) (nd : Node)
    (f g : Nat) (es : List Eqn) (h : nodeEqns jt i nd f = some (es, g))
    (hsol : ∀ e ∈ es, e.1.eval ρ = e.2.eval ρ) (hA : ∀ c ∈ nd.children, A c = arrOf ρ c) :
    NodeTyped jt A (arrOf ρ i).1 (arrOf ρ i).2 nd := by
  cases nd with
  | iden =>
    simp only [nodeEqns, Option.some.injEq, Prod.mk.injEq] at h
    obtain ⟨rfl, rfl⟩ := h
    have := hsol _ (List.mem_singleton.2 rfl)
    simp only [src, tgt, Inf.Tm.eval] at this
    simp [NodeTyped, arrOf, this]
  | unit =>
    simp only [nodeEqns, Option.some.injEq, Prod.mk.injEq] at h
    obtain ⟨rfl, rfl⟩ := h
    have := hsol _ (List.mem_singleton.2 rfl)
    simp only [src, tgt, Inf.Tm.eval] at this
    simp [NodeTyped, arrOf, this, tyOfInf]
  | injl c =>
    simp only [nodeEqns, Option.some.injEq, Prod.mk.injEq] at h
    obtain ⟨rfl, rfl⟩ := h
    have h1 := hsol (src i, src c) (by simp)
    have h2 := hsol (tgt i, .sum (tgt c) (.var f)) (by simp)
    simp only [src, tgt, Inf.Tm.eval] at h1 h2
    refine ⟨tyOfInf (ρ (2 * c + 1)), tyOfInf (ρ f), ?_, ?_⟩
    · rw [hA c (by simp [Node.children])]; simp [arrOf, h1]
    · simp [arrOf, h2, tyOfInf]
  | injr c =>
    simp only [nodeEqns, Option.some.injEq, Prod.mk.injEq] at h
    obtain ⟨rfl, rfl⟩ := h
    have h1 := hsol (src i, src c) (by simp)
    have h2 := hsol (tgt i, .sum (.var f) (tgt c)) (by simp)
    simp only [src, tgt, Inf.Tm.eval] at h1 h2
    refine ⟨tyOfInf (ρ f), tyOfInf (ρ (2 * c + 1)), ?_, ?_⟩
    · rw [hA c (by simp [Node.children])]; simp [arrOf, h1]
    · simp [arrOf, h2, tyOfInf]
  | take c =>
    simp only [nodeEqns, Option.some.injEq, Prod.mk.injEq] at h
    obtain ⟨rfl, rfl⟩ := h
    have h1 := hsol (src i, .prod (src c) (.var f)) (by simp)
    have h2 := hsol (tgt i, tgt c) (by simp)
    simp only [src, tgt, Inf.Tm.eval] at h1 h2
    refine ⟨tyOfInf (ρ (2 * c)), tyOfInf (ρ f), ?_, ?_⟩
    · rw [hA c (by simp [Node.children])]; simp [arrOf, h2]
    · simp [arrOf, h1, tyOfInf]
  | drop c =>
    simp only [nodeEqns, Option.some.injEq, Prod.mk.injEq] at h
    obtain ⟨rfl, rfl⟩ := h
    have h1 := hsol (src i, .prod (.var f) (src c)) (by simp)
    have h2 := hsol (tgt i, tgt c) (by simp)
    simp only [src, tgt, Inf.Tm.eval] at h1 h2
    refine ⟨tyOfInf (ρ f), tyOfInf (ρ (2 * c)), ?_, ?_⟩
    · rw [hA c (by simp [Node.children])]; simp [arrOf, h2]
    · simp [arrOf, h1, tyOfInf]
  | comp x y =>
    simp only [nodeEqns, Option.some.injEq, Prod.mk.injEq] at h
    obtain ⟨rfl, rfl⟩ := h
    have h1 := hsol (tgt x, src y) (by simp)
    have h2 := hsol (src i, src x) (by simp)
    have h3 := hsol (tgt i, tgt y) (by simp)
    simp only [src, tgt, Inf.Tm.eval] at h1 h2 h3
    refine ⟨tyOfInf (ρ (2 * x + 1)), ?_, ?_⟩
    · rw [hA x (by simp [Node.children])]; simp [arrOf, h2]
    · rw [hA y (by simp [Node.children])]; simp [arrOf, h1, h3]
  | case x y =>
    simp only [nodeEqns, Option.some.injEq, Prod.mk.injEq] at h
    obtain ⟨rfl, rfl⟩ := h
    have h1 := hsol (src x, .prod (.var f) (.var (f+2))) (by simp)
    have h2 := hsol (src y, .prod (.var (f+1)) (.var (f+2))) (by simp)
    have h3 := hsol (tgt i, tgt x) (by simp)
    have h4 := hsol (tgt i, tgt y) (by simp)
    have h5 := hsol (src i, .prod (.sum (.var f) (.var (f+1))) (.var (f+2))) (by simp)
    simp only [src, tgt, Inf.Tm.eval] at h1 h2 h3 h4 h5
    refine ⟨tyOfInf (ρ f), tyOfInf (ρ (f+1)), tyOfInf (ρ (f+2)), ?_, ?_, ?_⟩
    · rw [hA x (by simp [Node.children])]; simp [arrOf, h1, h3, tyOfInf]
    · rw [hA y (by simp [Node.children])]; simp [arrOf, h2, h4, tyOfInf]
    · simp [arrOf, h5, tyOfInf]
  | assertl x hh =>
    simp only [nodeEqns, Option.some.injEq, Prod.mk.injEq] at h
    obtain ⟨rfl, rfl⟩ := h
    have h1 := hsol (src x, .prod (.var f) (.var (f+2))) (by simp)
    have h3 := hsol (tgt i, tgt x) (by simp)
    have h5 := hsol (src i, .prod (.sum (.var f) (.var (f+1))) (.var (f+2))) (by simp)
    simp only [src, tgt, Inf.Tm.eval] at h1 h3 h5
    refine ⟨tyOfInf (ρ f), tyOfInf (ρ (f+1)), tyOfInf (ρ (f+2)), ?_, ?_⟩
    · rw [hA x (by simp [Node.children])]; simp [arrOf, h1, h3, tyOfInf]
    · simp [arrOf, h5, tyOfInf]
  | assertr hh y =>
    simp only [nodeEqns, Option.some.injEq, Prod.mk.injEq] at h
    obtain ⟨rfl, rfl⟩ := h
    have h2 := hsol (src y, .prod (.var (f+1)) (.var (f+2))) (by simp)
    have h4 := hsol (tgt i, tgt y) (by simp)
    have h5 := hsol (src i, .prod (.sum (.var f) (.var (f+1))) (.var (f+2))) (by simp)
    simp only [src, tgt, Inf.Tm.eval] at h2 h4 h5
    refine ⟨tyOfInf (ρ f), tyOfInf (ρ (f+1)), tyOfInf (ρ (f+2)), ?_, ?_⟩
    · rw [hA y (by simp [Node.children])]; simp [arrOf, h2, h4, tyOfInf]
    · simp [arrOf, h5, tyOfInf]
  | pair x y =>
    simp only [nodeEqns, Option.some.injEq, Prod.mk.injEq] at h
    obtain ⟨rfl, rfl⟩ := h
    have h1 := hsol (src x, src y) (by simp)
    have h2 := hsol (src i, src x) (by simp)
    have h3 := hsol (tgt i, .prod (tgt x) (tgt y)) (by simp)
    simp only [src, tgt, Inf.Tm.eval] at h1 h2 h3
    refine ⟨tyOfInf (ρ (2 * x + 1)), tyOfInf (ρ (2 * y + 1)), ?_, ?_, ?_⟩
    · rw [hA x (by simp [Node.children])]; simp [arrOf, h2]
    · rw [hA y (by simp [Node.children])]; simp [arrOf, h2, h1]
    · simp [arrOf, h3, tyOfInf]
  | disconnect x oy =>
    cases oy with
    | none => trivial
    | some y =>
      simp only [nodeEqns, Option.some.injEq, Prod.mk.injEq] at h
      obtain ⟨rfl, rfl⟩ := h
      have h1 := hsol (src x, .prod (tmOfTy (wordTy 8)) (.var f)) (by simp)
      have h2 := hsol (tgt x, .prod (.var (f+1)) (src y)) (by simp)
      have h3 := hsol (src i, .var f) (by simp)
      have h4 := hsol (tgt i, .prod (.var (f+1)) (tgt y)) (by simp)
      simp only [src, tgt, Inf.Tm.eval, eval_tmOfTy] at h1 h2 h3 h4
      refine ⟨tyOfInf (ρ (f+1)), tyOfInf (ρ (2 * y)), tyOfInf (ρ (2 * y + 1)), ?_, ?_, ?_⟩
      · rw [hA x (by simp [Node.children])]; simp [arrOf, h1, h2, h3, tyOfInf, tyOfInf_infOfTy]
      · rw [hA y (by simp [Node.children])]; simp [arrOf]
      · simp [arrOf, h4, tyOfInf]
  | witness => trivial
  | fail _ => trivial
  | hidden _ => trivial
  | word n bits =>
    simp only [nodeEqns, Option.some.injEq, Prod.mk.injEq] at h
    obtain ⟨rfl, rfl⟩ := h
    have h1 := hsol (src i, .one) (by simp)
    have h2 := hsol (tgt i, tmOfTy (wordTy n)) (by simp)
    simp only [src, tgt, Inf.Tm.eval, eval_tmOfTy] at h1 h2
    simp [NodeTyped, arrOf, h1, h2, tyOfInf, tyOfInf_infOfTy]
  | jet name =>
    simp only [nodeEqns, Option.map_eq_some_iff] at h
    obtain ⟨⟨s, t⟩, hj, h⟩ := h
    simp only [Prod.mk.injEq] at h
    obtain ⟨rfl, rfl⟩ := h
    have h1 := hsol (src i, tmOfTy s) (by simp)
    have h2 := hsol (tgt i, tmOfTy t) (by simp)
    simp only [src, tgt, Inf.Tm.eval, eval_tmOfTy] at h1 h2
    simp [NodeTyped, arrOf, h1, h2, hj, tyOfInf_infOfTy]

/-! ### the equations of every selected node are among the constraints -/

theorem constraintsMGo_mem (jt : JetTypes) (mask : Nat → Bool) : ∀ (ns : List Node) (i f : Nat) (acc E : List Eqn),
    constraintsMGo jt mask i ns f acc = some E →
    (∀ e ∈ acc, e ∈ E) ∧
    ∀ k nd, ns[k]? = some nd → mask (i + k) = true →
      ∃ g es g', nodeEqns jt (i + k) nd g = some (es, g') ∧ ∀ e ∈ es, e ∈ E := by
  intro ns
  induction ns with
  | nil =>
    intro i f acc E h
    simp only [constraintsMGo, Option.some.injEq] at h
    subst h
    exact ⟨fun _ he => he, fun k nd hk => by simp at hk⟩
  | cons nd rest ih =>
    intro i f acc E h
    simp only [constraintsMGo] at h
    cases hq : nodeEqns jt i nd f with
    | none => simp [hq] at h
    | some r =>
      obtain ⟨es, f'⟩ := r
      simp only [hq] at h
      obtain ⟨hacc, hrest⟩ := ih (i + 1) f' _ E h
      refine ⟨?_, ?_⟩
      · intro e he
        apply hacc
        cases mask i with
        | true => simp [he]
        | false => simpa using he
      · intro k nd' hk hm
        cases k with
        | zero =>
          simp only [List.getElem?_cons_zero, Option.some.injEq] at hk
          subst hk
          simp only [Nat.add_zero] at hm ⊢
          refine ⟨f, es, f', hq, ?_⟩
          intro e he
          apply hacc
          simp [hm, he]
        | succ k =>
          simp only [List.getElem?_cons_succ] at hk
          have hm' : mask (i + 1 + k) = true := by
            have : i + 1 + k = i + (k + 1) := by omega
            rw [this]; exact hm
          obtain ⟨g, es', g', h1, h2⟩ := hrest k nd' hk hm'
          have : i + 1 + k = i + (k + 1) := by omega
          rw [this] at h1
          exact ⟨g, es', g', h1, h2⟩

theorem constraintsM_mem {jt : JetTypes} {p : Plan} {mask : Nat → Bool} {prog : Bool} {E : List Eqn}
    (h : constraintsM jt p mask prog = some E) (i : Nat) (nd : Node) (hnd : p[i]? = some nd)
    (hm : mask i = true) : ∃ g es g', nodeEqns jt i nd g = some (es, g') ∧ ∀ e ∈ es, e ∈ E := by
  unfold constraintsM at h
  cases hg : constraintsMGo jt mask 0 p.toList (2 * p.size) [] with
  | none => simp [hg] at h
  | some es0 =>
    simp only [hg, Option.some.injEq] at h
    obtain ⟨_, hr⟩ := constraintsMGo_mem jt mask p.toList 0 _ [] es0 hg
    obtain ⟨g, es, g', h1, h2⟩ := hr i nd (by simpa using hnd) (by simpa using hm)
    simp only [Nat.zero_add] at h1
    refine ⟨g, es, g', h1, ?_⟩
    intro e he
    subst h
    cases prog with
    | false => simpa using h2 e he
    | true => simp [h2 e he]

/-- the two root equations of a program are among the constraints -/
theorem constraintsM_root {jt : JetTypes} {p : Plan} {mask : Nat → Bool} {E : List Eqn}
    (h : constraintsM jt p mask true = some E) :
    (src (p.size - 1), Inf.Tm.one) ∈ E ∧ (tgt (p.size - 1), Inf.Tm.one) ∈ E := by
  unfold constraintsM at h
  cases hg : constraintsMGo jt mask 0 p.toList (2 * p.size) [] with
  | none => simp [hg] at h
  | some es0 =>
    simp only [hg, Option.some.injEq, if_true] at h
    subst h
    simp

/-! ### children precede parents -/

theorem wfFrom_children : ∀ (ns : List Node) (i k : Nat) (nd : Node), wfFrom i ns = true → ns[k]? = some nd →
    ∀ c ∈ nd.children, c < i + k := by
  intro ns
  induction ns with
  | nil => intro i k nd _ hk; simp at hk
  | cons n rest ih =>
    intro i k nd hwf hk c hc
    simp only [wfFrom, Bool.and_eq_true, List.all_eq_true, decide_eq_true_eq] at hwf
    cases k with
    | zero =>
      simp only [List.getElem?_cons_zero, Option.some.injEq] at hk
      subst hk
      exact hwf.1 c hc
    | succ k =>
      simp only [List.getElem?_cons_succ] at hk
      have := ih (i + 1) k nd hwf.2 hk c hc
      omega

theorem wf_children {p : Plan} (hwf : wf p = true) {i : Nat} {nd : Node} (hnd : p[i]? = some nd) :
    ∀ c ∈ nd.children, c < i := by
  intro c hc
  have := wfFrom_children p.toList 0 i nd (by simpa [wf] using hwf) (by simpa using hnd) c hc
  omega

theorem lt_size_of_getElem? {p : Plan} {i : Nat} {nd : Node} (hnd : p[i]? = some nd) : i < p.size := by
  by_cases h : i < p.size
  · exact h
  · simp [Array.getElem?_eq_none (Nat.le_of_not_lt h)] at hnd

/-! ### a successful inference types every selected node -/

theorem inferM_size {jt : JetTypes} {p : Plan} {mask : Nat → Bool} {prog : Bool} {arr : Array (Ty × Ty)}
    (h : inferM jt p mask prog = .ok arr) : arr.size = p.size := by
  obtain ⟨es, S, _, _, rfl⟩ := inferM_ok h
  simp [arrowsOf]

/-- **`inferM` is sound, node by node**: the arrows it returns satisfy the typing rule of every
selected node, the children's arrows read from the same array -/
theorem inferM_typed {jt : JetTypes} {p : Plan} {mask : Nat → Bool} {prog : Bool} {arr : Array (Ty × Ty)}
    (hwf : wf p = true) (h : inferM jt p mask prog = .ok arr) (i : Nat) (nd : Node) (hnd : p[i]? = some nd)
    (hm : mask i = true) :
    NodeTyped jt (fun j => arr.getD j (.one, .one)) (arr.getD i (.one, .one)).1 (arr.getD i (.one, .one)).2 nd := by
  obtain ⟨es, S, hc, hu, rfl⟩ := inferM_ok h
  have hsol := (Inf.unify_least _ _ _ hu).1
  obtain ⟨g, es', g', hq, hsub⟩ := constraintsM_mem hc i nd hnd hm
  have hi := lt_size_of_getElem? hnd
  rw [arrowsOf_getD _ _ hi]
  refine nodeEqns_typed jt (Inf.closeUnit S) _ i nd g g' es' hq (fun e he => hsol e (hsub e he)) ?_
  intro c hc'
  have := wf_children hwf hnd c hc'
  show (arrowsOf p.size (Inf.closeUnit S)).getD c (.one, .one) = _
  rw [arrowsOf_getD _ _ (by omega)]
  rfl

/-- the root of a program is typed `1 → 1` -/
theorem inferM_root {jt : JetTypes} {p : Plan} {mask : Nat → Bool} {arr : Array (Ty × Ty)}
    (hp : 0 < p.size) (h : inferM jt p mask true = .ok arr) : arr.getD (p.size - 1) (.one, .one) = (.one, .one) := by
  obtain ⟨es, S, hc, hu, rfl⟩ := inferM_ok h
  have hsol := (Inf.unify_least _ _ _ hu).1
  obtain ⟨h1, h2⟩ := constraintsM_root hc
  have e1 := hsol _ h1
  have e2 := hsol _ h2
  simp only [src, tgt, Inf.Tm.eval] at e1 e2
  rw [arrowsOf_getD _ _ (by omega)]
  simp [e1, e2, tyOfInf]

end Prog
