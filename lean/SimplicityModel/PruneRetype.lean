/-
C08, the re-typing bridge.  The plan pruned by the `prune_case` table, elaborated with *other*
arrows `a1` (in use: the arrows re-inferred for the pruned plan) and other witness bits `wit'` (in
use: the compact bits of the `pruneV`-pruned values), gives — node by node — a term that maps the
pruned input to the pruned output and leaves the same tracker record (in plan indices) as the
original term, for every run of the original whose sides are covered by the tracker content `S`.
What is needed of `a1` is only that every selected node satisfies its typing rule (`NodeTyped`,
which `inferM_typed` provides), that the selection is closed under the children of the pruned
plan, and that jets keep their arrows.
-/
import SimplicityModel.PruneBridge
import SimplicityModel.PruneEvalT
import SimplicityModel.PruneTyped

set_option linter.unusedSimpArgs false
set_option linter.unusedVariables false

namespace Prog
open BM4

section
variable (S : List (Nat × Bool)) (ids ids' : Nat → Nat)

/-- all sides of a record in plan indices are in the tracker content `S` (which holds identities) -/
def SidesIn (tr : Trace) : Prop := ∀ s ∈ tr.sides, (ids s.1, s.2) ∈ S

theorem sidesIn_node_add {i : Nat} {tr : Trace} : SidesIn S ids ((Trace.node i).add tr) ↔ SidesIn S ids tr := by
  simp [SidesIn, Trace.add, Trace.node]

theorem sidesIn_side_add {i : Nat} {s : Bool} {tr : Trace} :
    SidesIn S ids ((Trace.side i s).add tr) ↔ (ids i, s) ∈ S ∧ SidesIn S ids tr := by
  simp [SidesIn, Trace.add, Trace.side]

theorem sidesIn_add {t1 t2 : Trace} : SidesIn S ids (t1.add t2) ↔ SidesIn S ids t1 ∧ SidesIn S ids t2 := by
  simp only [SidesIn, Trace.add, List.mem_append]
  constructor
  · intro h; exact ⟨fun s hs => h s (.inl hs), fun s hs => h s (.inr hs)⟩
  · rintro ⟨h1, h2⟩ s (hs | hs)
    · exact h1 s hs
    · exact h2 s hs

/-- `t'` (labels `l'`) does on pruned inputs what `t` (labels `l`, plan indices) does, with the
relabelled record — for the runs of `t` on well-typed inputs whose sides `S` covers -/
def RunOK {a b a' b' : Ty} (t : Term a b) (t' : Term a' b') (l l' : Lab) : Prop :=
  ∀ v o trI, HasTy v a → evalT t l v = .ok (o, trI) → SidesIn S ids trI →
    HasTy o b ∧ evalT t' l' (pr a' v) = .ok (pr b' o, trI.map ids')

variable (cmf : Nat → Nat) (e : Env) (a1 : Array (Ty × Ty)) (wit' : Nat → Option (List Bool))

/-- the pruned plan with new arrows and new witness bits; roots and jets as before -/
def envR : Env :=
  { plan := prunePlan S ids cmf e.plan, arrows := a1, wit := wit', cmr := e.cmr, jets := e.jets }

@[simp] theorem envR_arrows : (envR S ids cmf e a1 wit').arrows = a1 := rfl
@[simp] theorem envR_wit : (envR S ids cmf e a1 wit').wit = wit' := rfl
@[simp] theorem envR_cmr : (envR S ids cmf e a1 wit').cmr = e.cmr := rfl
@[simp] theorem envR_plan : (envR S ids cmf e a1 wit').plan = prunePlan S ids cmf e.plan := rfl
theorem jetF_envR (n : String) (a b : Ty) : jetF (envR S ids cmf e a1 wit') n a b = jetF e n a b := rfl
theorem jetJF_envR (n : String) (a b : Ty) : jetJF (envR S ids cmf e a1 wit') n a b = jetJF e n a b := rfl

/-- what the induction hypothesis gives for the children -/
def SubR (mask : Nat → Bool) (f : Nat) : Prop :=
  ∀ c, mask c = true → ∀ (a b : Ty) (t : Term a b), subE e f c a b = some t →
    ∀ a' b', a1.getD c (.one, .one) = (a', b') →
      ∃ t' : Term a' b', subE (envR S ids cmf e a1 wit') f c a' b' = some t' ∧
        RunOK S ids ids' t t' (labOf e.plan (fun j => j) f c) (labOf (prunePlan S ids cmf e.plan) ids' f c)

theorem getElem?_getD_of_lt (arr : Array (Ty × Ty)) {j : Nat} (h : j < arr.size) :
    arr[j]? = some (arr.getD j (.one, .one)) := by
  simp [Array.getD, h]

theorem pruneNode_case (id x y : Nat) :
    pruneNode S id cmf (.case x y) = .case x y ∨
    (pruneNode S id cmf (.case x y) = .assertl x (cmf y) ∧ (id, true) ∉ S) ∨
    (pruneNode S id cmf (.case x y) = .assertr (cmf x) y ∧ (id, false) ∉ S) := by
  by_cases n1 : (id, false) ∈ S <;> by_cases n2 : (id, true) ∈ S <;> simp [pruneNode, n1, n2]

theorem hasTy_pair_inv {x y : Val} {a b : Ty} (h : HasTy (.pair x y) (.prod a b)) : HasTy x a ∧ HasTy y b := by
  cases h with | pair h1 h2 => exact ⟨h1, h2⟩

theorem hasTy_inl_inv {x : Val} {a b : Ty} (h : HasTy (.inl x) (.sum a b)) : HasTy x a := by
  cases h with | inl h1 => exact h1

theorem hasTy_inr_inv {x : Val} {a b : Ty} (h : HasTy (.inr x) (.sum a b)) : HasTy x b := by
  cases h with | inr h1 => exact h1

theorem jetF_hasTy {e : Env} {n : String} {a b : Ty} {v o : Val} (h : jetF e n a b v = some o) : HasTy o b := by
  unfold jetF at h
  split at h
  · exact valOfCompact_hasTy h
  · cases h

/-- **one node** of the re-typing bridge -/
theorem elabStep_retype (jt : JetTypes) (mask : Nat → Bool) (f i : Nat) (nd : Node) (a b : Ty)
    (x : Σ a b, Term a b) (a' b' : Ty)
    (IH : SubR S ids ids' cmf e a1 wit' mask f)
    (hnd : e.plan[i]? = some nd)
    (h : elabStep e f i nd a b = some x)
    (hch : ∀ c ∈ (pruneNode S (ids i) cmf nd).children, mask c = true)
    (hsz : ∀ c, mask c = true → c < a1.size)
    (hty : NodeTyped jt (fun j => a1.getD j (.one, .one)) a' b' (pruneNode S (ids i) cmf nd))
    (hwit : nd = .witness → ∀ bits v0, e.wit i = some bits → valOfCompact b bits = some v0 →
        ∃ w, pruneV v0 b' = some w ∧ wit' i = some (compact w))
    (hjet : ∀ name, nd = .jet name → jt name = some (a, b)) :
    ∃ t' : Term a' b',
      elabStep (envR S ids cmf e a1 wit') f i (pruneNode S (ids i) cmf nd) a' b' = some ⟨a', b', t'⟩ ∧
      RunOK S ids ids' x.2.2 t' (labOf e.plan (fun j => j) (f+1) i)
        (labOf (prunePlan S ids cmf e.plan) ids' (f+1) i) := by
  have hnd' : (prunePlan S ids cmf e.plan)[i]? = some (pruneNode S (ids i) cmf nd) := by
    rw [prunePlan_getElem?, hnd]; rfl
  rw [labOf_succ _ _ f i _ hnd, labOf_succ _ _ f i _ hnd']
  cases nd with
  | iden =>
    simp only [elabStep, Option.bind_eq_bind, Option.pure_def, Option.bind_eq_some_iff, Option.some.injEq] at h
    obtain ⟨t, ht, rfl⟩ := h
    obtain ⟨h1, h2, rfl⟩ := castT_some ht
    subst h2
    simp only [NodeTyped, pruneNode] at hty
    subst hty
    refine ⟨.iden, by simp [elabStep, pruneNode, castT], ?_⟩
    intro v o trI hv hev hS
    simp only [Node.children, pruneNode] at hev ⊢
    rw [evalT_iden_ok] at hev ⊢
    obtain ⟨rfl, rfl⟩ := hev
    exact ⟨hv, rfl, rfl⟩
  | unit =>
    simp only [elabStep, Option.bind_eq_bind, Option.pure_def, Option.bind_eq_some_iff, Option.some.injEq] at h
    obtain ⟨t, ht, rfl⟩ := h
    obtain ⟨h1, h2, rfl⟩ := castT_some ht
    subst h2
    simp only [NodeTyped, pruneNode] at hty
    subst hty
    refine ⟨.unit, by simp [elabStep, pruneNode, castT], ?_⟩
    intro v o trI hv hev hS
    simp only [Node.children, pruneNode] at hev ⊢
    rw [evalT_unit_ok] at hev ⊢
    obtain ⟨rfl, rfl⟩ := hev
    exact ⟨.unit, rfl, rfl⟩
  | injl c =>
    cases b with
    | sum b1 c1 =>
      simp only [elabStep, Option.bind_eq_bind, Option.pure_def, Option.bind_eq_some_iff, Option.some.injEq] at h
      obtain ⟨t, ht, rfl⟩ := h
      simp only [NodeTyped, pruneNode] at hty
      obtain ⟨X, Y, hAc, rfl⟩ := hty
      obtain ⟨t', ht', hrun⟩ := IH c (hch c (by simp [pruneNode, Node.children])) a b1 t ht a' X hAc
      refine ⟨.injl t', by simp [elabStep, pruneNode, ht'], ?_⟩
      intro v o trI hv hev hS
      simp only [Node.children, pruneNode] at hev ⊢
      rw [evalT_injl_ok] at hev ⊢
      obtain ⟨o', tr', h1, rfl, rfl⟩ := hev
      simp only [Lab.fst_un, Lab.id_un] at h1 hS ⊢
      obtain ⟨ho, hr⟩ := hrun v o' tr' hv h1 ((sidesIn_node_add S ids).1 hS)
      exact ⟨.inl ho, _, _, hr, by simp [pr], by simp⟩
    | _ => simp [elabStep] at h
  | injr c =>
    cases b with
    | sum b1 c1 =>
      simp only [elabStep, Option.bind_eq_bind, Option.pure_def, Option.bind_eq_some_iff, Option.some.injEq] at h
      obtain ⟨t, ht, rfl⟩ := h
      simp only [NodeTyped, pruneNode] at hty
      obtain ⟨X, Y, hAc, rfl⟩ := hty
      obtain ⟨t', ht', hrun⟩ := IH c (hch c (by simp [pruneNode, Node.children])) a c1 t ht a' Y hAc
      refine ⟨.injr t', by simp [elabStep, pruneNode, ht'], ?_⟩
      intro v o trI hv hev hS
      simp only [Node.children, pruneNode] at hev ⊢
      rw [evalT_injr_ok] at hev ⊢
      obtain ⟨o', tr', h1, rfl, rfl⟩ := hev
      simp only [Lab.fst_un, Lab.id_un] at h1 hS ⊢
      obtain ⟨ho, hr⟩ := hrun v o' tr' hv h1 ((sidesIn_node_add S ids).1 hS)
      exact ⟨.inr ho, _, _, hr, by simp [pr], by simp⟩
    | _ => simp [elabStep] at h
  | take c =>
    cases a with
    | prod a1' a2' =>
      simp only [elabStep, Option.bind_eq_bind, Option.pure_def, Option.bind_eq_some_iff, Option.some.injEq] at h
      obtain ⟨t, ht, rfl⟩ := h
      simp only [NodeTyped, pruneNode] at hty
      obtain ⟨X, Y, hAc, rfl⟩ := hty
      obtain ⟨t', ht', hrun⟩ := IH c (hch c (by simp [pruneNode, Node.children])) a1' b t ht X b' hAc
      refine ⟨.take t', by simp [elabStep, pruneNode, ht'], ?_⟩
      intro v o trI hv hev hS
      simp only [Node.children, pruneNode] at hev ⊢
      rw [evalT_take_ok] at hev
      obtain ⟨x0, y0, tr', rfl, h1, rfl⟩ := hev
      simp only [Lab.fst_un, Lab.id_un] at h1 hS ⊢
      obtain ⟨ho, hr⟩ := hrun x0 o tr' (hasTy_pair_inv hv).1 h1 ((sidesIn_node_add S ids).1 hS)
      refine ⟨ho, ?_⟩
      simp only [pr]
      rw [evalT_take_ok]
      exact ⟨_, _, _, rfl, hr, by simp⟩
    | _ => simp [elabStep] at h
  | drop c =>
    cases a with
    | prod a1' a2' =>
      simp only [elabStep, Option.bind_eq_bind, Option.pure_def, Option.bind_eq_some_iff, Option.some.injEq] at h
      obtain ⟨t, ht, rfl⟩ := h
      simp only [NodeTyped, pruneNode] at hty
      obtain ⟨X, Y, hAc, rfl⟩ := hty
      obtain ⟨t', ht', hrun⟩ := IH c (hch c (by simp [pruneNode, Node.children])) a2' b t ht Y b' hAc
      refine ⟨.drop t', by simp [elabStep, pruneNode, ht'], ?_⟩
      intro v o trI hv hev hS
      simp only [Node.children, pruneNode] at hev ⊢
      rw [evalT_drop_ok] at hev
      obtain ⟨x0, y0, tr', rfl, h1, rfl⟩ := hev
      simp only [Lab.fst_un, Lab.id_un] at h1 hS ⊢
      obtain ⟨ho, hr⟩ := hrun y0 o tr' (hasTy_pair_inv hv).2 h1 ((sidesIn_node_add S ids).1 hS)
      refine ⟨ho, ?_⟩
      simp only [pr]
      rw [evalT_drop_ok]
      exact ⟨_, _, _, rfl, hr, by simp⟩
    | _ => simp [elabStep] at h
  | comp x0 y0 =>
    simp only [elabStep, Option.bind_eq_bind, Option.pure_def, Option.bind_eq_some_iff, Option.some.injEq] at h
    obtain ⟨xm, hxm, s, hs, t, ht, rfl⟩ := h
    simp only [NodeTyped, pruneNode] at hty
    obtain ⟨M, hAx, hAy⟩ := hty
    have mx := hch x0 (by simp [pruneNode, Node.children])
    have my := hch y0 (by simp [pruneNode, Node.children])
    obtain ⟨s', hs', hrs⟩ := IH x0 mx a xm.2 s hs a' M hAx
    obtain ⟨t', ht', hrt⟩ := IH y0 my xm.2 b t ht M b' hAy
    have hx? : a1[x0]? = some (a', M) := by rw [getElem?_getD_of_lt a1 (hsz x0 mx), hAx]
    refine ⟨.comp s' t', by simp [elabStep, pruneNode, hx?, hs', ht'], ?_⟩
    intro v o trI hv hev hS
    simp only [Node.children, pruneNode] at hev ⊢
    rw [evalT_comp_ok] at hev ⊢
    obtain ⟨m, t1, t2, h1, h2, rfl⟩ := hev
    simp only [Lab.fst_bin, Lab.snd_bin, Lab.id_bin] at h1 h2 hS ⊢
    have hS' := (sidesIn_add S ids).1 ((sidesIn_node_add S ids).1 hS)
    obtain ⟨hm, hr1⟩ := hrs v m t1 hv h1 hS'.1
    obtain ⟨ho, hr2⟩ := hrt m o t2 hm h2 hS'.2
    exact ⟨ho, _, _, _, hr1, hr2, by simp⟩
  | pair x0 y0 =>
    cases b with
    | prod b1 b2 =>
      simp only [elabStep, Option.bind_eq_bind, Option.pure_def, Option.bind_eq_some_iff, Option.some.injEq] at h
      obtain ⟨s, hs, t, ht, rfl⟩ := h
      simp only [NodeTyped, pruneNode] at hty
      obtain ⟨X, Y, hAx, hAy, rfl⟩ := hty
      have mx := hch x0 (by simp [pruneNode, Node.children])
      have my := hch y0 (by simp [pruneNode, Node.children])
      obtain ⟨s', hs', hrs⟩ := IH x0 mx a b1 s hs a' X hAx
      obtain ⟨t', ht', hrt⟩ := IH y0 my a b2 t ht a' Y hAy
      refine ⟨.pair s' t', by simp [elabStep, pruneNode, hs', ht'], ?_⟩
      intro v o trI hv hev hS
      simp only [Node.children, pruneNode] at hev ⊢
      rw [evalT_pair_ok] at hev ⊢
      obtain ⟨p, q, t1, t2, h1, h2, rfl, rfl⟩ := hev
      simp only [Lab.fst_bin, Lab.snd_bin, Lab.id_bin] at h1 h2 hS ⊢
      have hS' := (sidesIn_add S ids).1 ((sidesIn_node_add S ids).1 hS)
      obtain ⟨hp, hr1⟩ := hrs v p t1 hv h1 hS'.1
      obtain ⟨hq, hr2⟩ := hrt v q t2 hv h2 hS'.2
      exact ⟨.pair hp hq, _, _, _, _, hr1, hr2, by simp [pr], by simp⟩
    | _ => simp [elabStep] at h
  | assertl x0 hh =>
    cases a with
    | prod a0 c0 =>
      cases a0 with
      | sum a1' a2' =>
        simp only [elabStep, Option.bind_eq_bind, Option.pure_def, Option.bind_eq_some_iff, Option.some.injEq] at h
        obtain ⟨s, hs, rfl⟩ := h
        simp only [NodeTyped, pruneNode] at hty
        obtain ⟨X, Y, Z, hAx, rfl⟩ := hty
        have mx := hch x0 (by simp [pruneNode, Node.children])
        obtain ⟨s', hs', hrs⟩ := IH x0 mx _ b s hs _ b' hAx
        refine ⟨.assertl s', by simp [elabStep, pruneNode, hs'], ?_⟩
        intro v o trI hv hev hS
        simp only [Node.children, pruneNode] at hev ⊢
        rw [evalT_assertl_ok] at hev
        obtain ⟨p, z, tr', rfl, h1, rfl⟩ := hev
        simp only [Lab.fst_un, Lab.id_un] at h1 hS ⊢
        have hS' := (sidesIn_side_add S ids).1 hS
        obtain ⟨hvp, hvz⟩ := hasTy_pair_inv hv
        obtain ⟨ho, hr⟩ := hrs (.pair p z) o tr' (.pair (hasTy_inl_inv hvp) hvz) h1 hS'.2
        refine ⟨ho, ?_⟩
        simp only [pr] at hr ⊢
        rw [evalT_assertl_ok]
        exact ⟨_, _, _, rfl, hr, by simp⟩
      | _ => simp [elabStep] at h
    | _ => simp [elabStep] at h
  | assertr hh y0 =>
    cases a with
    | prod a0 c0 =>
      cases a0 with
      | sum a1' a2' =>
        simp only [elabStep, Option.bind_eq_bind, Option.pure_def, Option.bind_eq_some_iff, Option.some.injEq] at h
        obtain ⟨t, ht, rfl⟩ := h
        simp only [NodeTyped, pruneNode] at hty
        obtain ⟨X, Y, Z, hAy, rfl⟩ := hty
        have my := hch y0 (by simp [pruneNode, Node.children])
        obtain ⟨t', ht', hrt⟩ := IH y0 my _ b t ht _ b' hAy
        refine ⟨.assertr t', by simp [elabStep, pruneNode, ht'], ?_⟩
        intro v o trI hv hev hS
        simp only [Node.children, pruneNode] at hev ⊢
        rw [evalT_assertr_ok] at hev
        obtain ⟨q, z, tr', rfl, h1, rfl⟩ := hev
        simp only [Lab.fst_un, Lab.id_un] at h1 hS ⊢
        have hS' := (sidesIn_side_add S ids).1 hS
        obtain ⟨hvq, hvz⟩ := hasTy_pair_inv hv
        obtain ⟨ho, hr⟩ := hrt (.pair q z) o tr' (.pair (hasTy_inr_inv hvq) hvz) h1 hS'.2
        refine ⟨ho, ?_⟩
        simp only [pr] at hr ⊢
        rw [evalT_assertr_ok]
        exact ⟨_, _, _, rfl, hr, by simp⟩
      | _ => simp [elabStep] at h
    | _ => simp [elabStep] at h
  | case x0 y0 =>
    cases a with
    | prod a0 c0 =>
      cases a0 with
      | sum a1' a2' =>
        simp only [elabStep, Option.bind_eq_bind, Option.pure_def, Option.bind_eq_some_iff, Option.some.injEq] at h
        obtain ⟨s, hs, t, ht, rfl⟩ := h
        rcases pruneNode_case S cmf (ids i) x0 y0 with hp | ⟨hp, hn⟩ | ⟨hp, hn⟩
        · -- kept
          rw [hp] at hty hch ⊢
          simp only [NodeTyped] at hty
          obtain ⟨X, Y, Z, hAx, hAy, rfl⟩ := hty
          have mx := hch x0 (by simp [Node.children])
          have my := hch y0 (by simp [Node.children])
          obtain ⟨s', hs', hrs⟩ := IH x0 mx _ b s hs _ b' hAx
          obtain ⟨t', ht', hrt⟩ := IH y0 my _ b t ht _ b' hAy
          refine ⟨.case s' t', by simp [elabStep, hs', ht'], ?_⟩
          intro v o trI hv hev hS
          simp only [Node.children] at hev ⊢
          rw [evalT_case_ok] at hev
          rcases hev with ⟨p, z, tr', rfl, h1, rfl⟩ | ⟨q, z, tr', rfl, h1, rfl⟩
          · simp only [Lab.fst_bin, Lab.snd_bin, Lab.id_bin] at h1 hS ⊢
            have hS' := (sidesIn_side_add S ids).1 hS
            obtain ⟨hvp, hvz⟩ := hasTy_pair_inv hv
            obtain ⟨ho, hr⟩ := hrs (.pair p z) o tr' (.pair (hasTy_inl_inv hvp) hvz) h1 hS'.2
            refine ⟨ho, ?_⟩
            simp only [pr] at hr ⊢
            rw [evalT_case_ok]
            exact .inl ⟨_, _, _, rfl, hr, by simp⟩
          · simp only [Lab.fst_bin, Lab.snd_bin, Lab.id_bin] at h1 hS ⊢
            have hS' := (sidesIn_side_add S ids).1 hS
            obtain ⟨hvq, hvz⟩ := hasTy_pair_inv hv
            obtain ⟨ho, hr⟩ := hrt (.pair q z) o tr' (.pair (hasTy_inr_inv hvq) hvz) h1 hS'.2
            refine ⟨ho, ?_⟩
            simp only [pr] at hr ⊢
            rw [evalT_case_ok]
            exact .inr ⟨_, _, _, rfl, hr, by simp⟩
        · -- right branch hidden
          rw [hp] at hty hch ⊢
          simp only [NodeTyped] at hty
          obtain ⟨X, Y, Z, hAx, rfl⟩ := hty
          have mx := hch x0 (by simp [Node.children])
          obtain ⟨s', hs', hrs⟩ := IH x0 mx _ b s hs _ b' hAx
          refine ⟨.assertl s', by simp [elabStep, hs'], ?_⟩
          intro v o trI hv hev hS
          simp only [Node.children] at hev ⊢
          rw [evalT_case_ok] at hev
          rcases hev with ⟨p, z, tr', rfl, h1, rfl⟩ | ⟨q, z, tr', rfl, h1, rfl⟩
          · simp only [Lab.fst_bin, Lab.snd_bin, Lab.id_bin, Lab.fst_un, Lab.id_un] at h1 hS ⊢
            have hS' := (sidesIn_side_add S ids).1 hS
            obtain ⟨hvp, hvz⟩ := hasTy_pair_inv hv
            obtain ⟨ho, hr⟩ := hrs (.pair p z) o tr' (.pair (hasTy_inl_inv hvp) hvz) h1 hS'.2
            refine ⟨ho, ?_⟩
            simp only [pr] at hr ⊢
            rw [evalT_assertl_ok]
            exact ⟨_, _, _, rfl, hr, by simp⟩
          · simp only [Lab.id_bin] at hS
            exact (hn ((sidesIn_side_add S ids).1 hS).1).elim
        · -- left branch hidden
          rw [hp] at hty hch ⊢
          simp only [NodeTyped] at hty
          obtain ⟨X, Y, Z, hAy, rfl⟩ := hty
          have my := hch y0 (by simp [Node.children])
          obtain ⟨t', ht', hrt⟩ := IH y0 my _ b t ht _ b' hAy
          refine ⟨.assertr t', by simp [elabStep, ht'], ?_⟩
          intro v o trI hv hev hS
          simp only [Node.children] at hev ⊢
          rw [evalT_case_ok] at hev
          rcases hev with ⟨p, z, tr', rfl, h1, rfl⟩ | ⟨q, z, tr', rfl, h1, rfl⟩
          · simp only [Lab.id_bin] at hS
            exact (hn ((sidesIn_side_add S ids).1 hS).1).elim
          · simp only [Lab.fst_bin, Lab.snd_bin, Lab.id_bin, Lab.fst_un, Lab.id_un] at h1 hS ⊢
            have hS' := (sidesIn_side_add S ids).1 hS
            obtain ⟨hvq, hvz⟩ := hasTy_pair_inv hv
            obtain ⟨ho, hr⟩ := hrt (.pair q z) o tr' (.pair (hasTy_inr_inv hvq) hvz) h1 hS'.2
            refine ⟨ho, ?_⟩
            simp only [pr] at hr ⊢
            rw [evalT_assertr_ok]
            exact ⟨_, _, _, rfl, hr, by simp⟩
      | _ => simp [elabStep] at h
    | _ => simp [elabStep] at h
  | disconnect x0 oy =>
    cases oy with
    | none => simp [elabStep] at h
    | some y0 =>
      cases b with
      | prod b1 d0 =>
        simp only [elabStep, Option.bind_eq_bind, Option.pure_def, Option.bind_eq_some_iff, Option.some.injEq] at h
        obtain ⟨yc, hyc, cw, hcw, s, hs, t, ht, rfl⟩ := h
        simp only [NodeTyped, pruneNode] at hty
        obtain ⟨Y, C, D, hAx, hAy, rfl⟩ := hty
        have mx := hch x0 (by simp [pruneNode, Node.children])
        have my := hch y0 (by simp [pruneNode, Node.children])
        obtain ⟨s', hs', hrs⟩ := IH x0 mx _ _ s hs _ _ hAx
        obtain ⟨t', ht', hrt⟩ := IH y0 my _ _ t ht C D hAy
        have hy? : a1[y0]? = some (C, D) := by rw [getElem?_getD_of_lt a1 (hsz y0 my), hAy]
        refine ⟨.disconnect (wordTy 8) cw s' t', by simp only [elabStep, pruneNode, envR_arrows, envR_cmr, hy?, hcw, hs', ht', Option.bind_eq_bind, Option.pure_def, Option.bind_some], ?_⟩
        intro v o trI hv hev hS
        simp only [Node.children, pruneNode] at hev ⊢
        rw [evalT_disconnect_ok] at hev ⊢
        obtain ⟨p, q, z, t1, t2, h1, h2, rfl, rfl⟩ := hev
        simp only [Lab.fst_bin, Lab.snd_bin, Lab.id_bin] at h1 h2 hS ⊢
        have hS' := (sidesIn_add S ids).1 ((sidesIn_node_add S ids).1 hS)
        have hcwT : HasTy cw (wordTy 8) := valOfCompact_hasTy hcw
        obtain ⟨hpq, hr1⟩ := hrs (.pair cw v) (.pair p q) t1 (.pair hcwT hv) h1 hS'.1
        obtain ⟨hp, hq⟩ := hasTy_pair_inv hpq
        obtain ⟨hz, hr2⟩ := hrt q z t2 hq h2 hS'.2
        simp only [pr, pr_self hcwT] at hr1
        exact ⟨.pair hp hz, _, _, _, _, _, hr1, hr2, by simp [pr], by simp⟩
      | _ => simp [elabStep] at h
  | witness =>
    simp only [elabStep, Option.bind_eq_bind, Option.pure_def, Option.bind_eq_some_iff, Option.some.injEq] at h
    obtain ⟨bits, hb, v0, hv0, rfl⟩ := h
    obtain ⟨w, hw, hw'⟩ := hwit rfl bits v0 hb hv0
    have hwT : HasTy w b' := pruneV_hasTy _ _ _ hw
    refine ⟨.witness w, by simp [elabStep, pruneNode, hw', valOfCompact_compact hwT], ?_⟩
    intro v o trI hv hev hS
    simp only [Node.children, pruneNode] at hev ⊢
    rw [evalT_witness_ok] at hev ⊢
    obtain ⟨rfl, rfl⟩ := hev
    exact ⟨valOfCompact_hasTy hv0, (pruneV_eq_pr _ _ _ hw).symm, rfl⟩
  | fail en =>
    simp only [elabStep, Option.pure_def, Option.some.injEq] at h
    subst h
    refine ⟨.fail, by simp [elabStep, pruneNode], ?_⟩
    intro v o trI hv hev hS
    simp only [Node.children] at hev
    rw [evalT_fail_ok] at hev
    exact hev.elim
  | word n bits =>
    simp only [elabStep, Option.bind_eq_bind, Option.pure_def, Option.bind_eq_some_iff, Option.some.injEq] at h
    obtain ⟨v0, hv0, t, ht, rfl⟩ := h
    obtain ⟨h1, h2, rfl⟩ := castT_some ht
    subst h1; subst h2
    simp only [NodeTyped, pruneNode] at hty
    obtain ⟨rfl, rfl⟩ := hty
    refine ⟨.word v0, by simp [elabStep, pruneNode, hv0, castT], ?_⟩
    intro v o trI hv hev hS
    simp only [Node.children, pruneNode] at hev ⊢
    rw [evalT_word_ok] at hev ⊢
    obtain ⟨rfl, rfl⟩ := hev
    have hT : HasTy o (wordTy n) := valOfCompact_hasTy hv0
    exact ⟨hT, pr_self hT, rfl⟩
  | jet name =>
    simp only [elabStep, Option.pure_def, Option.some.injEq] at h
    subst h
    simp only [NodeTyped, pruneNode] at hty
    have := hjet name rfl
    rw [this] at hty
    simp only [Option.some.injEq, Prod.mk.injEq] at hty
    obtain ⟨rfl, rfl⟩ := hty
    refine ⟨.jet (jetJF e name a b) (jetF e name a b), by simp [elabStep, pruneNode, jetF_envR, jetJF_envR], ?_⟩
    intro v o trI hv hev hS
    simp only [Node.children, pruneNode] at hev ⊢
    rw [evalT_jet_ok] at hev ⊢
    obtain ⟨hf, rfl⟩ := hev
    have hT : HasTy o b := jetF_hasTy hf
    rw [pr_self hv, pr_self hT]
    exact ⟨hT, hf, rfl⟩
  | hidden hh => simp [elabStep] at h

/-- what the bridge needs of the new arrows `a1`, the new witness bits `wit'` and the node selection
`mask` (in use: `inferM` of the pruned plan, `pruneV`-pruned witnesses, the reachable nodes) -/
structure Retyping (jt : JetTypes) (mask : Nat → Bool) : Prop where
  /-- the selection is closed under the children of the *pruned* plan -/
  closed : ∀ j nd', mask j = true → (prunePlan S ids cmf e.plan)[j]? = some nd' →
    ∀ c ∈ nd'.children, mask c = true
  size : ∀ j, mask j = true → j < a1.size
  /-- every selected node of the pruned plan satisfies its typing rule under `a1` -/
  typed : ∀ j nd', mask j = true → (prunePlan S ids cmf e.plan)[j]? = some nd' →
    NodeTyped jt (fun k => a1.getD k (.one, .one)) (a1.getD j (.one, .one)).1 (a1.getD j (.one, .one)).2 nd'
  /-- the new bits of a selected witness node are the compact bits of its pruned value -/
  wit : ∀ j, mask j = true → e.plan[j]? = some .witness → ∀ bits v0, e.wit j = some bits →
    valOfCompact (e.arrows.getD j (.one, .one)).2 bits = some v0 →
    ∃ w, pruneV v0 (a1.getD j (.one, .one)).2 = some w ∧ wit' j = some (compact w)
  /-- jets are typed by the table in the original plan -/
  jet : ∀ j name, e.plan[j]? = some (.jet name) → jt name = some (e.arrows.getD j (.one, .one))

theorem getD_of_getElem? {arr : Array (Ty × Ty)} {j : Nat} {ab : Ty × Ty} (h : arr[j]? = some ab) :
    arr.getD j (.one, .one) = ab := by
  simp [Array.getD_eq_getD_getElem?, h]

/-- **the re-typing bridge, every node**: if node `i` of the plan elaborates to `t`, then node `i`
of the pruned plan elaborates — with the arrows `a1` and the witness bits `wit'` — to a term `t'` at
the arrow `a1[i]`, and every run of `t` on a well-typed input whose sides are in `S` is mirrored by
`t'`: pruned input ↦ pruned output, same record (plan indices, relabelled by `ids'`) -/
theorem elabNode_retype (jt : JetTypes) (mask : Nat → Bool)
    (H : Retyping S ids cmf e a1 wit' jt mask) : ∀ (f i : Nat), mask i = true →
    ∀ x : Σ a b, Term a b, elabNode e f i = some x → ∀ a' b', a1.getD i (.one, .one) = (a', b') →
      ∃ t' : Term a' b', elabNode (envR S ids cmf e a1 wit') f i = some ⟨a', b', t'⟩ ∧
        RunOK S ids ids' x.2.2 t' (labOf e.plan (fun j => j) f i)
          (labOf (prunePlan S ids cmf e.plan) ids' f i) := by
  intro f
  induction f with
  | zero => intro i _ x h; simp [elabNode] at h
  | succ f ih =>
    intro i mi x h a' b' hA
    have IH : SubR S ids ids' cmf e a1 wit' mask f := by
      intro c mc a b t ht a'' b'' hA'
      simp only [subE, Option.bind_eq_bind, Option.bind_eq_some_iff] at ht
      obtain ⟨y, hy, hc⟩ := ht
      obtain ⟨t', h1, h2⟩ := ih c mc y hy a'' b'' hA'
      obtain ⟨ya, yb, yt⟩ := y
      obtain ⟨e1, e2, rfl⟩ := castT_some hc
      simp only at e1 e2
      subst e1; subst e2
      refine ⟨t', ?_, h2⟩
      simp [subE, h1, castT]
    rw [elabNode_succ] at h ⊢
    simp only [Option.bind_eq_bind, Option.bind_eq_some_iff] at h
    obtain ⟨nd, hnd, ab, hab, hstep⟩ := h
    have hnd' : (prunePlan S ids cmf e.plan)[i]? = some (pruneNode S (ids i) cmf nd) := by
      rw [prunePlan_getElem?, hnd]; rfl
    have hab' : a1[i]? = some (a', b') := by rw [getElem?_getD_of_lt a1 (H.size i mi), hA]
    have hgd := getD_of_getElem? hab
    have hty := H.typed i _ mi hnd'
    rw [hA] at hty
    obtain ⟨t', h1, h2⟩ := elabStep_retype S ids ids' cmf e a1 wit' jt mask f i nd ab.1 ab.2 x a' b' IH hnd hstep
      (H.closed i _ mi hnd') H.size hty
      (by
        intro hw bits v0 hb hv
        subst hw
        have := H.wit i mi hnd bits v0 hb (by rw [hgd]; exact hv)
        rw [hA] at this
        exact this)
      (by
        intro name hn
        subst hn
        have := H.jet i name hnd
        rw [hgd] at this
        exact this)
    refine ⟨t', ?_, h2⟩
    simp only [envR_plan, envR_arrows, hnd', hab', Option.bind_eq_bind, Option.bind_some]
    exact h1

end

end Prog
