/-
C11 — `impl PartialEq / Ord / Hash for Value` (and the derived ones of `Word`) as they are in
`src/value.rs` after the repair: equality on (type, compact bits); order = type order, then the
compact bits lexicographically; hash over a tag, the type and the compact bits.

Types are compared through a key `key : Ty → Nat` — in the code the TMR (32 bytes compared
lexicographically = the big-endian number).  The theorems take `key` injective as a hypothesis
(`KeyInj`, i.e. no TMR collision); nothing else is assumed about it.
-/
import SimplicityModel.ValueRVal2

namespace Vl

/-! ### lexicographic order on bit strings (`Iterator::cmp` on `bool`s) -/

def cmpBool : Bool → Bool → Ordering
  | false, true => .lt
  | true, false => .gt
  | _, _ => .eq

def cmpBits : List Bool → List Bool → Ordering
  | [], [] => .eq
  | [], _ :: _ => .lt
  | _ :: _, [] => .gt
  | a :: as, b :: bs => (cmpBool a b).then (cmpBits as bs)

theorem cmpBool_swap (a b : Bool) : (cmpBool a b).swap = cmpBool b a := by
  cases a <;> cases b <;> rfl
theorem cmpBool_eq_iff (a b : Bool) : cmpBool a b = .eq ↔ a = b := by
  cases a <;> cases b <;> simp [cmpBool]

theorem cmpBits_swap : ∀ (x y : List Bool), (cmpBits x y).swap = cmpBits y x
  | [], [] => rfl
  | [], _ :: _ => rfl
  | _ :: _, [] => rfl
  | a :: as, b :: bs => by
    simp only [cmpBits, Ordering.swap_then, cmpBool_swap, cmpBits_swap as bs]

theorem cmpBits_eq_iff : ∀ (x y : List Bool), cmpBits x y = .eq ↔ x = y
  | [], [] => by simp [cmpBits]
  | [], _ :: _ => by simp [cmpBits]
  | _ :: _, [] => by simp [cmpBits]
  | a :: as, b :: bs => by
    simp only [cmpBits, Ordering.then_eq_eq, cmpBool_eq_iff, cmpBits_eq_iff as bs, List.cons.injEq]

theorem cmpBits_lt_trans : ∀ (x y z : List Bool), cmpBits x y = .lt → cmpBits y z = .lt → cmpBits x z = .lt
  | [], [], _, h, _ => by simp [cmpBits] at h
  | [], _ :: _, [], _, h => by simp [cmpBits] at h
  | [], _ :: _, _ :: _, _, _ => rfl
  | _ :: _, [], _, h, _ => by simp [cmpBits] at h
  | _ :: _, _ :: _, [], _, h => by simp [cmpBits] at h
  | a :: as, b :: bs, c :: cs, h1, h2 => by
    simp only [cmpBits] at h1 h2 ⊢
    cases a <;> cases b <;> cases c <;> simp [cmpBool] at h1 h2 ⊢
    all_goals exact cmpBits_lt_trans as bs cs h1 h2

/-! ### the comparison traits of `Value` -/

/-- the type key is injective: no two types share a TMR -/
def KeyInj (key : Ty → Nat) : Prop := ∀ s t, key s = key t → s = t

namespace RVal

/-- `impl PartialEq for Value`: `self.ty == other.ty && self.iter_compact().eq(other.iter_compact())` -/
def eqV (key : Ty → Nat) (a b : RVal) : Bool :=
  (key a.ty == key b.ty) && (a.iterCompact == b.iterCompact)

/-- `impl Ord for Value`: `self.ty.cmp(&other.ty).then_with(|| self.iter_compact().cmp(other.iter_compact()))` -/
def cmpV (key : Ty → Nat) (a b : RVal) : Ordering :=
  (compare (key a.ty) (key b.ty)).then (cmpBits a.iterCompact b.iterCompact)

def le64 (n : Nat) : List Nat := (List.range 8).map fun i => (n >>> (8 * i)) % 256
def be32bytes (k : Nat) : List Nat := (List.range 32).map fun i => (k >>> (8 * (31 - i))) % 256
/-- `b"Simplicity\x1fValue"` -/
def hashTag : List Nat := [83, 105, 109, 112, 108, 105, 99, 105, 116, 121, 31, 86, 97, 108, 117, 101]

/-- what `impl Hash for Value` feeds to the hasher: the tag (a byte array: length prefix, then
the bytes), the type (its TMR, a byte array again), then one byte per compact bit -/
def hashInput (key : Ty → Nat) (a : RVal) : List Nat :=
  le64 16 ++ hashTag ++ (le64 32 ++ be32bytes (key a.ty)) ++ a.iterCompact.map fun b => if b then 1 else 0

/-- FNV-1a, 64 bit: the deterministic hasher the harness uses -/
def fnv1a (bytes : List Nat) : Nat :=
  (bytes.foldl (fun (h : UInt64) b => (h ^^^ b.toUInt64) * 0x100000001b3) 0xcbf29ce484222325).toNat

def hashV (key : Ty → Nat) (a : RVal) : Nat := fnv1a (hashInput key a)

/-! ### theorems -/

/-- **equality is semantic**: two well-formed values — whatever their buffers, offsets and
padding — are `==` exactly when they have the same type and denote the same element of it -/
theorem eq_iff_sem {key : Ty → Nat} (hk : KeyInj key) {a b : RVal} {x y : Val} (ha : a.Den x) (hb : b.Den y) :
    eqV key a b = true ↔ a.ty = b.ty ∧ x = y := by
  simp only [eqV, Bool.and_eq_true, beq_iff_eq, iterCompact_den ha, iterCompact_den hb]
  constructor
  · intro ⟨h1, h2⟩
    have e := hk _ _ h1
    exact ⟨e, compact_inj ha.hasTy (e ▸ hb.hasTy) h2⟩
  · intro ⟨h1, h2⟩
    exact ⟨by rw [h1], by rw [h2]⟩

/-- the same, with the element read off the padded bits by the type-directed decoder -/
theorem eq_iff_abs {key : Ty → Nat} (hk : KeyInj key) {a b : RVal} (ha : a.WF) (hb : b.WF) :
    eqV key a b = true ↔ a.ty = b.ty ∧ a.view.abs = b.view.abs := by
  obtain ⟨x, hx⟩ := ha.den
  obtain ⟨y, hy⟩ := hb.den
  rw [eq_iff_sem hk hx hy, hx.2.abs, hy.2.abs]
  simp

/-- equal values hash equally -/
theorem hash_congr {key : Ty → Nat} {a b : RVal} (h : eqV key a b = true) : hashV key a = hashV key b := by
  simp only [eqV, Bool.and_eq_true, beq_iff_eq] at h
  simp only [hashV, hashInput, h.1, h.2]

theorem cmp_refl (key : Ty → Nat) (a : RVal) : cmpV key a a = .eq := by
  simp [cmpV, (cmpBits_eq_iff _ _).2 rfl]

/-- the order agrees with equality -/
theorem cmp_eq_iff_eq (key : Ty → Nat) (a b : RVal) : cmpV key a b = .eq ↔ eqV key a b = true := by
  simp only [cmpV, eqV, Ordering.then_eq_eq, Nat.compare_eq_eq, cmpBits_eq_iff, Bool.and_eq_true, beq_iff_eq]

/-- antisymmetric and total: comparing the other way round gives the mirrored answer -/
theorem cmp_swap (key : Ty → Nat) (a b : RVal) : (cmpV key a b).swap = cmpV key b a := by
  simp only [cmpV, Ordering.swap_then, cmpBits_swap, Nat.compare_swap]

theorem cmp_lt_trans (key : Ty → Nat) (a b c : RVal) (h1 : cmpV key a b = .lt) (h2 : cmpV key b c = .lt) :
    cmpV key a c = .lt := by
  simp only [cmpV, Ordering.then_eq_lt, Nat.compare_eq_lt, Nat.compare_eq_eq] at h1 h2 ⊢
  rcases h1 with h1 | ⟨h1, h1'⟩
  · rcases h2 with h2 | ⟨h2, _⟩
    · left; omega
    · left; omega
  · rcases h2 with h2 | ⟨h2, h2'⟩
    · left; omega
    · right; exact ⟨by omega, cmpBits_lt_trans _ _ _ h1' h2'⟩

/-- equal values are interchangeable in comparisons -/
theorem cmp_congr_left {key : Ty → Nat} {a b : RVal} (h : eqV key a b = true) (c : RVal) :
    cmpV key a c = cmpV key b c := by
  simp only [eqV, Bool.and_eq_true, beq_iff_eq] at h
  simp only [cmpV, h.1, h.2]

theorem cmp_congr_right {key : Ty → Nat} {a b : RVal} (h : eqV key a b = true) (c : RVal) :
    cmpV key c a = cmpV key c b := by
  simp only [eqV, Bool.and_eq_true, beq_iff_eq] at h
  simp only [cmpV, h.1, h.2]

/-- `≤` is transitive (with `cmp_swap` and `cmp_eq_iff_eq`: a total order on values modulo `==`) -/
theorem cmp_le_trans (key : Ty → Nat) (a b c : RVal) (h1 : cmpV key a b ≠ .gt) (h2 : cmpV key b c ≠ .gt) :
    cmpV key a c ≠ .gt := by
  cases e1 : cmpV key a b with
  | gt => exact absurd e1 h1
  | eq =>
    rw [cmp_congr_left ((cmp_eq_iff_eq key a b).1 e1) c]; exact h2
  | lt =>
    cases e2 : cmpV key b c with
    | gt => exact absurd e2 h2
    | eq =>
      rw [← cmp_congr_right ((cmp_eq_iff_eq key b c).1 e2) a, e1]; simp
    | lt => rw [cmp_lt_trans key a b c e1 e2]; simp

end RVal

/-! ### `Word`: `#[derive(Eq, PartialEq, PartialOrd, Ord, Hash)] struct Word { value, n }` -/

structure WordM where
  value : RVal
  n : Nat

namespace WordM
/-- the invariant of `Word`: the value has type `2^(2^n)` -/
def Inv (w : WordM) : Prop := w.value.ty = Ty.word w.n

def eqW (key : Ty → Nat) (a b : WordM) : Bool := RVal.eqV key a.value b.value && (a.n == b.n)
def cmpW (key : Ty → Nat) (a b : WordM) : Ordering := (RVal.cmpV key a.value b.value).then (compare a.n b.n)
def hashW (key : Ty → Nat) (a : WordM) : Nat := RVal.fnv1a (RVal.hashInput key a.value ++ [a.n % 256])

theorem Ty.word_inj : ∀ (m n : Nat), Ty.word m = Ty.word n → m = n
  | 0, 0, _ => rfl
  | 0, n + 1, h => by simp [Ty.word] at h
  | m + 1, 0, h => by simp [Ty.word] at h
  | m + 1, n + 1, h => by
    simp only [Ty.word, Ty.prod.injEq] at h
    rw [Ty.word_inj m n h.1]

/-- for words the width field adds nothing: equality and order are those of the values -/
theorem eqW_iff {key : Ty → Nat} (hk : KeyInj key) {a b : WordM} (ha : a.Inv) (hb : b.Inv) :
    eqW key a b = RVal.eqV key a.value b.value := by
  simp only [eqW]
  cases h : RVal.eqV key a.value b.value with
  | false => rfl
  | true =>
    simp only [RVal.eqV, Bool.and_eq_true, beq_iff_eq] at h
    have e := hk _ _ h.1
    rw [ha, hb] at e
    simp [Ty.word_inj _ _ e]

theorem cmpW_eq {key : Ty → Nat} (hk : KeyInj key) {a b : WordM} (ha : a.Inv) (hb : b.Inv) :
    cmpW key a b = RVal.cmpV key a.value b.value := by
  simp only [cmpW]
  cases h : RVal.cmpV key a.value b.value with
  | lt => rfl
  | gt => rfl
  | eq =>
    have h' := (RVal.cmp_eq_iff_eq key _ _).1 h
    simp only [RVal.eqV, Bool.and_eq_true, beq_iff_eq] at h'
    have e := hk _ _ h'.1
    rw [ha, hb] at e
    simp [Ty.word_inj _ _ e]

theorem hashW_congr {key : Ty → Nat} {a b : WordM} (h : eqW key a b = true) : hashW key a = hashW key b := by
  simp only [eqW, Bool.and_eq_true, beq_iff_eq] at h
  have := h.1
  simp only [RVal.eqV, Bool.and_eq_true, beq_iff_eq] at this
  simp only [hashW, RVal.hashInput, this.1, this.2, h.2]

end WordM
end Vl
