import SimplicityModel.PostOrderProps
/-
Spike: C02 — the canonical-order check of `decode_expression` (`data.index != data.node.0` during
a pointer-sharing post-order walk of the index DAG) makes re-encoding reproduce the node list:
every node is reached, sits at its own index, and its children are re-encoded with the same
references.
-/
namespace PO

/-- the shape of a decoded node: children as absolute indices -/
inductive Sh | leaf | un (i : Nat) | bin (i j : Nat)
deriving DecidableEq, Repr

def T.id : T → Nat
  | .leaf i => i | .un i _ => i | .bin i _ _ => i

/-- the DAG handle of node `i` of the list (the tree unfolding of the index DAG), with fuel -/
def unfoldF (ns : List Sh) : Nat → Nat → T
  | 0, i => .leaf i
  | f+1, i => match ns[i]? with
    | some (.un j) => .un i (unfoldF ns f j)
    | some (.bin j k) => .bin i (unfoldF ns f j) (unfoldF ns f k)
    | _ => .leaf i

/-- every reference points strictly backwards (what `decode_node` guarantees, `Wire.NodesOk`) -/
def WellIdx (ns : List Sh) : Prop :=
  ∀ i : Nat, (∀ j, ns[i]? = some (Sh.un j) → j < i) ∧ (∀ j k, ns[i]? = some (Sh.bin j k) → j < i ∧ k < i)

theorem unfoldF_fuel2 (ns : List Sh) (hw : WellIdx ns) : ∀ (f f' i : Nat), i < f → i < f' →
    unfoldF ns f i = unfoldF ns f' i := by
  intro f
  induction f with
  | zero => intro f' i h; omega
  | succ f ih =>
    intro f' i h h'
    cases f' with
    | zero => omega
    | succ f' =>
      simp only [unfoldF]
      cases hn : ns[i]? with
      | none => rfl
      | some s =>
        cases s with
        | leaf => rfl
        | un j =>
          have hj := (hw i).1 j hn
          simp only []
          rw [ih f' j (by omega) (by omega)]
        | bin j k =>
          have hjk := (hw i).2 j k hn
          simp only []
          rw [ih f' j (by omega) (by omega), ih f' k (by omega) (by omega)]

theorem unfoldF_fuel (ns : List Sh) (hw : WellIdx ns) (f i : Nat) (h : i < f) :
    unfoldF ns f i = unfoldF ns (i+1) i := unfoldF_fuel2 ns hw f (i+1) i h (by omega)

def U (ns : List Sh) (i : Nat) : T := unfoldF ns (i+1) i

theorem U_id (ns : List Sh) (i : Nat) : (U ns i).id = i := by
  unfold U unfoldF
  cases ns[i]? with
  | none => rfl
  | some s => cases s <;> rfl

theorem U_eq (ns : List Sh) (hw : WellIdx ns) (i : Nat) :
    U ns i = match ns[i]? with
      | some (.un j) => .un i (U ns j)
      | some (.bin j k) => .bin i (U ns j) (U ns k)
      | _ => .leaf i := by
  unfold U
  conv => lhs; unfold unfoldF
  cases hn : ns[i]? with
  | none => rfl
  | some s =>
    cases s with
    | leaf => rfl
    | un j => simp only []; rw [unfoldF_fuel ns hw i j ((hw i).1 j hn)]
    | bin j k =>
      have hjk := (hw i).2 j k hn
      simp only []; rw [unfoldF_fuel ns hw i j hjk.1, unfoldF_fuel ns hw i k hjk.2]

/-- every node reachable from `U r` is the unfolding of its own index -/
theorem desc_U (ns : List Sh) (hw : WellIdx ns) {p d : T} (hd : Desc p d) :
    p = U ns p.id → d = U ns d.id := by
  induction hd with
  | refl t => exact id
  | @left p c d hl _ ih =>
    intro hp
    apply ih
    rw [hp, U_eq ns hw] at hl
    cases hn : ns[p.id]? with
    | none => simp [hn, T.left] at hl
    | some s =>
      cases s with
      | leaf => simp [hn, T.left] at hl
      | un j => simp [hn, T.left] at hl; rw [← hl, U_id]
      | bin j k => simp [hn, T.left] at hl; rw [← hl, U_id]
  | @right p c d hl _ ih =>
    intro hp
    apply ih
    rw [hp, U_eq ns hw] at hl
    cases hn : ns[p.id]? with
    | none => simp [hn, T.right] at hl
    | some s =>
      cases s with
      | leaf => simp [hn, T.right] at hl
      | un j => simp [hn, T.right] at hl
      | bin j k => simp [hn, T.right] at hl; rw [← hl, U_id]

/-- pointer sharing on the index DAG: the key is the index -/
def ptr : T → Option Nat := fun t => some t.id

/-- every yielded node is reachable from the visited handle -/
theorem visit_desc {K : Type} [DecidableEq K] (key : T → Option K) : ∀ (t : T) (seen : Seen K) (idx : Nat),
    ∀ o ∈ (visit key t seen idx).1, Desc t o.node := by
  have hfin : ∀ (t : T) (li ri outs seen idx), (∀ o ∈ outs, Desc t o.node) →
      ∀ o ∈ (visit.fin key t li ri outs seen idx).1, Desc t o.node := by
    intro t li ri outs seen idx h o ho
    unfold visit.fin at ho
    cases hr : record key seen t idx with
    | mk a s' =>
      rw [hr] at ho
      cases a with
      | some i => exact h o ho
      | none =>
        simp only [List.mem_append, List.mem_singleton] at ho
        rcases ho with ho | rfl
        · exact h o ho
        · exact .refl t
  intro t
  induction t with
  | leaf id => intro seen idx; simp only [visit]; exact hfin _ _ _ _ _ _ (by simp)
  | un id l ih =>
    intro seen idx
    simp only [visit]
    cases seenBefore key seen l with
    | some i => exact hfin _ _ _ _ _ _ (by simp)
    | none => exact hfin _ _ _ _ _ _ (fun o ho => .left rfl (ih _ _ o ho))
  | bin id l r ihl ihr =>
    intro seen idx
    simp only [visit]
    cases seenBefore key seen l <;> cases seenBefore key seen r
    · refine hfin _ _ _ _ _ _ (fun o ho => ?_)
      simp only [List.mem_append] at ho
      rcases ho with ho | ho
      · exact .left rfl (ihl _ _ o ho)
      · exact .right rfl (ihr _ _ o ho)
    · exact hfin _ _ _ _ _ _ (fun o ho => .left rfl (ihl _ _ o ho))
    · exact hfin _ _ _ _ _ _ (fun o ho => .right rfl (ihr _ _ o ho))
    · exact hfin _ _ _ _ _ _ (by simp)

/-- re-encoding of a yielded item: the shape with the reported child indices -/
def Out.shape (o : Out) : Sh :=
  match o.node, o.lidx, o.ridx with
  | .leaf _, _, _ => .leaf
  | .un _ _, some i, _ => .un i
  | .bin _ _ _, some i, some j => .bin i j
  | _, _, _ => .leaf

/-- **C02, canonical order**: if the pointer-sharing post-order walk from the last node yields
every item at its own index (the check `data.index == data.node.0`), then item `i` re-encodes to
exactly node `i` of the list — same shape, same child references. -/
theorem canonical_reencode (ns : List Sh) (hw : WellIdx ns) (root : Nat)
    (hcanon : ∀ (i : Nat) (o : Out), (visit ptr (U ns root) (fun _ => none) 0).1[i]? = some o → o.node.id = i) :
    ∀ (i : Nat) (o : Out), (visit ptr (U ns root) (fun _ => none) 0).1[i]? = some o →
      (ns[i]?).getD Sh.leaf = o.shape := by
  intro i o ho
  obtain ⟨hinv, _, _⟩ := visit_root ptr (U ns root)
  have hmem : o ∈ (visit ptr (U ns root) (fun _ => none) 0).1 := List.mem_of_getElem? ho
  have hdesc := visit_desc ptr (U ns root) (fun _ => none) 0 o hmem
  have hU := desc_U ns hw hdesc (by rw [U_id])
  have hid := hcanon i o ho
  rw [hid] at hU
  have hk := hinv.kids i o ho
  -- a child reported at index j' represents `U j`, so j' = j
  have key : ∀ j j', Rep ptr (visit ptr (U ns root) (fun _ => none) 0).1 j' (U ns j) → j' = j := by
    intro j j' ⟨o', ho', hs⟩
    have := hcanon j' o' ho'
    rcases hs with h | ⟨k, h1, h2⟩
    · rw [h, U_id] at this; exact this.symm
    · simp only [ptr, Option.some.injEq] at h1 h2
      rw [U_id] at h2; omega
  rw [U_eq ns hw] at hU
  unfold Out.shape
  cases hn : ns[i]? with
  | none => rw [hn] at hU; simp only [] at hU; rw [hU]; rfl
  | some s =>
    rw [hn] at hU
    cases s with
    | leaf => simp only [] at hU; rw [hU]; rfl
    | un j =>
      simp only [] at hU
      have h1 := hk.1
      rw [hU] at h1
      simp only [T.left, ChildOK] at h1
      obtain ⟨j', hl, _, hrep⟩ := h1
      rw [hU, hl, key j j' hrep]; rfl
    | bin j k =>
      simp only [] at hU
      have h1 := hk.1
      have h2 := hk.2
      rw [hU] at h1 h2
      simp only [T.left, T.right, ChildOK] at h1 h2
      obtain ⟨j', hl, _, hrep⟩ := h1
      obtain ⟨k', hr, _, hrep'⟩ := h2
      rw [hU, hl, hr, key j j' hrep, key k k' hrep']; rfl

theorem desc_id_le (ns : List Sh) (hw : WellIdx ns) {p d : T} (hd : Desc p d) :
    p = U ns p.id → d.id ≤ p.id := by
  induction hd with
  | refl t => exact fun _ => Nat.le_refl _
  | @left p c d hl hcd ih =>
    intro hp
    have hc : c = U ns c.id ∧ c.id < p.id := by
      rw [hp, U_eq ns hw] at hl
      cases hn : ns[p.id]? with
      | none => simp [hn, T.left] at hl
      | some s =>
        cases s with
        | leaf => simp [hn, T.left] at hl
        | un j => simp [hn, T.left] at hl; rw [← hl, U_id]; exact ⟨rfl, (hw _).1 j hn⟩
        | bin j k => simp [hn, T.left] at hl; rw [← hl, U_id]; exact ⟨rfl, ((hw _).2 j k hn).1⟩
    have := ih hc.1
    omega
  | @right p c d hl hcd ih =>
    intro hp
    have hc : c = U ns c.id ∧ c.id < p.id := by
      rw [hp, U_eq ns hw] at hl
      cases hn : ns[p.id]? with
      | none => simp [hn, T.right] at hl
      | some s =>
        cases s with
        | leaf => simp [hn, T.right] at hl
        | un j => simp [hn, T.right] at hl
        | bin j k => simp [hn, T.right] at hl; rw [← hl, U_id]; exact ⟨rfl, ((hw _).2 j k hn).2⟩
    have := ih hc.1
    omega

/-- **C02, no unused nodes**: under the canonical-order check the walk yields exactly `root + 1`
items, i.e. every node of the list is reachable from the last one -/
theorem canonical_all_used (ns : List Sh) (hw : WellIdx ns) (root : Nat)
    (hcanon : ∀ (i : Nat) (o : Out), (visit ptr (U ns root) (fun _ => none) 0).1[i]? = some o → o.node.id = i) :
    (visit ptr (U ns root) (fun _ => none) 0).1.length = root + 1 := by
  obtain ⟨hinv, hlen, ⟨o, ho, hs⟩⟩ := visit_root ptr (U ns root)
  have hci := hcanon _ o ho
  have hroot : o.node.id = root := by
    rcases hs with h | ⟨k, h1, h2⟩
    · rw [h, U_id]
    · simp only [ptr, Option.some.injEq] at h1 h2; rw [U_id] at h2; omega
  have hlt : root < (visit ptr (U ns root) (fun _ => none) 0).1.length := by
    rcases Nat.lt_or_ge root (visit ptr (U ns root) (fun _ => none) 0).1.length with h | h
    · exact h
    · rw [← hci, hroot] at ho; rw [List.getElem?_eq_none h] at ho; cases ho
  rcases Nat.lt_or_ge (root + 1) (visit ptr (U ns root) (fun _ => none) 0).1.length with h | h
  · exfalso
    have hget : (visit ptr (U ns root) (fun _ => none) 0).1[root + 1]? =
        some ((visit ptr (U ns root) (fun _ => none) 0).1[root + 1]) := List.getElem?_eq_getElem h
    have hid := hcanon _ _ hget
    have hd := visit_desc ptr (U ns root) (fun _ => none) 0 _ (List.mem_of_getElem? hget)
    have := desc_id_le ns hw hd (by rw [U_id])
    rw [U_id] at this
    omega
  · omega

#print axioms canonical_reencode
#print axioms canonical_all_used
end PO
