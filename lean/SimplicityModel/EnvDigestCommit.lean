/-
`sig_all_hash` commits to the whole view of the environment (`sigAll_commit`): the chain
`sigAllHash → txHash, tapEnvHash → the combining digests → the digests over the lists → the pieces →
the view of each input and output`, each step either the absence of a SHA-256 collision between two
strings hashed on the way (`NoCollision`) or the unique splitting of a concatenation of code words.
-/
import SimplicityModel.EnvDigestElem
namespace Env

/-! ### every piece is a non-empty word of a prefix code -/

theorem fixed_ne_nil {n : Nat} (hn : 0 < n) {x : Bytes} (h : Fixed n x) : x ≠ [] := by
  intro e; rw [e] at h; exact absurd h (by simp [Fixed]; omega)

theorem cat_ne_nil {P Q : Bytes → Prop} (hP : ∀ x, P x → x ≠ []) : ∀ x, Cat P Q x → x ≠ [] := by
  intro x h
  obtain ⟨a, b, rfl, pa, _⟩ := h
  intro e
  exact hP a pa (List.append_eq_nil_iff.mp e).1

def OutpointCode : Bytes → Prop := Cat (Cat OptCode (Fixed 32)) (Fixed 4)
def AssetAmtCode : Bytes → Prop := Cat OptCode AmtCode
/-- `[0, 0]`, or the byte 1, a 32-byte id and an amount -/
def IssAmtCode : Bytes → Prop := Tagged fun t r => if t = 0 then Fixed 1 r else Cat (Fixed 32) AmtCode r
/-- `[0]`, or the byte 1 and 64 bytes -/
def BlindCode : Bytes → Prop := Tagged fun t r => if t = 0 then Fixed 0 r else Fixed 64 r

theorem prefixCode_outpoint : PrefixCode OutpointCode :=
  prefixCode_cat (prefixCode_cat prefixCode_opt (prefixCode_fixed _)) (prefixCode_fixed _)
theorem prefixCode_assetAmt : PrefixCode AssetAmtCode := prefixCode_cat prefixCode_opt prefixCode_amt
theorem prefixCode_issAmt : PrefixCode IssAmtCode :=
  prefixCode_tagged fun t => by
    split
    · exact prefixCode_fixed _
    · exact prefixCode_cat (prefixCode_fixed _) prefixCode_amt
theorem prefixCode_blind : PrefixCode BlindCode :=
  prefixCode_tagged fun t => by split <;> exact prefixCode_fixed _

theorem outpoint_code (v : InView) : OutpointCode v.pieces.outpoint :=
  ⟨_, _, rfl, ⟨_, _, rfl, optPiece_code (opt_bytes_len v.pegin), v.prevTxid.len⟩, be32_length _⟩

theorem inAmt_code (v : InView) : AssetAmtCode v.pieces.amt :=
  ⟨_, _, rfl, serializeConf_code _ (Or.inl rfl) _, digAmount_code _⟩

theorem calculateAsset_length (e : Bytes) : (calculateAsset e).length = 32 := compressIV_length _
theorem calculateToken_length (e : Bytes) (c : Bool) : (calculateToken e c).length = 32 := compressIV_length _

theorem issAsset_code (v : InView) : IssAmtCode v.pieces.issAsset := by
  simp only [InView.pieces]
  cases v.iss with
  | none => exact ⟨0, [0], rfl, by simp [Fixed]⟩
  | new c a k ap kp =>
    exact ⟨1, _, rfl, by simpa using ⟨_, _, rfl, calculateAsset_length _, digAmount_code _⟩⟩
  | reissuance n e a ap =>
    exact ⟨1, _, rfl, by simpa using ⟨_, _, rfl, calculateAsset_length _, digAmount_code _⟩⟩

theorem issToken_code (v : InView) : IssAmtCode v.pieces.issToken := by
  simp only [InView.pieces]
  cases v.iss with
  | none => exact ⟨0, [0], rfl, by simp [Fixed]⟩
  | new c a k ap kp =>
    exact ⟨1, _, rfl, by simpa using ⟨_, _, rfl, calculateToken_length _ _, digAmount_code _⟩⟩
  | reissuance n e a ap =>
    exact ⟨1, _, rfl, by simpa using ⟨_, _, rfl, calculateToken_length _ _, digAmount_code _⟩⟩

theorem issBlind_code (v : InView) : BlindCode v.pieces.issBlind := by
  simp only [InView.pieces]
  cases v.iss with
  | none => exact ⟨0, [], rfl, by simp [Fixed]⟩
  | new c a k ap kp => exact ⟨1, _, rfl, by simp [Fixed, zeros32, c.len]⟩
  | reissuance n e a ap => exact ⟨1, _, rfl, by simp [Fixed, n.len, e.len]⟩

theorem issProof_code (v : InView) : Fixed 64 v.pieces.issProof := by
  simp [InView.pieces, Fixed, hash_len]

theorem outAmt_code (v : OutView) : AssetAmtCode v.pieces.amt :=
  ⟨_, _, rfl, serializeConf_code _ (Or.inl rfl) _, digAmount_code _⟩

/-! ### lists of pieces -/

theorem map_eq_get {α β} {f : α → β} {l1 l2 : List α} (h : l1.map f = l2.map f) :
    l1.length = l2.length ∧ ∀ i (h1 : i < l1.length) (h2 : i < l2.length), f l1[i] = f l2[i] := by
  constructor
  · simpa using congrArg List.length h
  · intro i h1 h2
    have := congrArg (fun l => l[i]?) h
    simpa [List.getElem?_map, h1, h2] using this

/-- equal concatenations of the pieces of two lists: equally many, and equal piece by piece -/
theorem pieces_get {α} {P : Bytes → Prop} (hP : PrefixCode P) (hne : ∀ x, P x → x ≠ []) (f : α → Bytes)
    (hf : ∀ a, P (f a)) {l1 l2 : List α} (h : l1.flatMap f = l2.flatMap f) :
    l1.length = l2.length ∧ ∀ i (h1 : i < l1.length) (h2 : i < l2.length), f l1[i] = f l2[i] :=
  map_eq_get (flatMap_code hP f hf (fun a => hne _ (hf a)) l1 l2 h)

theorem tagged_ne {Q : UInt8 → Bytes → Prop} : ∀ x, Tagged Q x → x ≠ [] := fun _ h => tagged_ne_nil h

/-- three digests side by side -/
theorem hash3_inj {a1 b1 c1 a2 b2 c2 : Bytes}
    (h : Sha256.hash a1 ++ Sha256.hash b1 ++ Sha256.hash c1 = Sha256.hash a2 ++ Sha256.hash b2 ++ Sha256.hash c2) :
    Sha256.hash a1 = Sha256.hash a2 ∧ Sha256.hash b1 = Sha256.hash b2 ∧ Sha256.hash c1 = Sha256.hash c2 := by
  rw [List.append_assoc, List.append_assoc] at h
  obtain ⟨h1, h⟩ := List.append_inj h (by rw [hash_len, hash_len])
  obtain ⟨h2, h3⟩ := List.append_inj h (by rw [hash_len, hash_len])
  exact ⟨h1, h2, h3⟩

theorem hash4_inj {a1 b1 c1 d1 a2 b2 c2 d2 : Bytes}
    (h : Sha256.hash a1 ++ Sha256.hash b1 ++ Sha256.hash c1 ++ Sha256.hash d1 =
         Sha256.hash a2 ++ Sha256.hash b2 ++ Sha256.hash c2 ++ Sha256.hash d2) :
    Sha256.hash a1 = Sha256.hash a2 ∧ Sha256.hash b1 = Sha256.hash b2 ∧ Sha256.hash c1 = Sha256.hash c2 ∧
      Sha256.hash d1 = Sha256.hash d2 := by
  rw [List.append_assoc, List.append_assoc, List.append_assoc, List.append_assoc] at h
  obtain ⟨h1, h⟩ := List.append_inj h (by rw [hash_len, hash_len])
  obtain ⟨h2, h⟩ := List.append_inj h (by rw [hash_len, hash_len])
  obtain ⟨h3, h4⟩ := List.append_inj h (by rw [hash_len, hash_len])
  exact ⟨h1, h2, h3, h4⟩

/-- what `txHashPre` is made of -/
theorem txHashPre_inj {v1 l1 v2 l2 : UInt32} {a1 b1 c1 d1 e1 a2 b2 c2 d2 e2 : Bytes}
    (h : txHashPre v1 l1 (Sha256.hash a1) (Sha256.hash b1) (Sha256.hash c1) (Sha256.hash d1) (Sha256.hash e1) =
         txHashPre v2 l2 (Sha256.hash a2) (Sha256.hash b2) (Sha256.hash c2) (Sha256.hash d2) (Sha256.hash e2)) :
    v1 = v2 ∧ l1 = l2 ∧ Sha256.hash a1 = Sha256.hash a2 ∧ Sha256.hash b1 = Sha256.hash b2 ∧
      Sha256.hash c1 = Sha256.hash c2 ∧ Sha256.hash d1 = Sha256.hash d2 ∧ Sha256.hash e1 = Sha256.hash e2 := by
  simp only [txHashPre, List.append_assoc] at h
  obtain ⟨h1, h⟩ := List.append_inj h (by rw [be32_length, be32_length])
  obtain ⟨h2, h⟩ := List.append_inj h (by rw [be32_length, be32_length])
  obtain ⟨h3, h⟩ := List.append_inj h (by rw [hash_len, hash_len])
  obtain ⟨h4, h⟩ := List.append_inj h (by rw [hash_len, hash_len])
  obtain ⟨h5, h⟩ := List.append_inj h (by rw [hash_len, hash_len])
  obtain ⟨h6, h7⟩ := List.append_inj h (by rw [hash_len, hash_len])
  exact ⟨be32_inj h1, be32_inj h2, h3, h4, h5, h6, h7⟩

abbrev pin (p : TxIn × Utxo) : InPieces := (inView p).pieces
abbrev pout (o : TxOut) : OutPieces := (outView o).pieces

/-- `tx_hash` determines version, lock time, and the view of every input (script signatures apart)
and output, given that SHA-256 does not collide on the strings hashed on the way -/
theorem tx_commit (s1 s2 : List (TxIn × Utxo)) (o1 o2 : List TxOut) (v1 l1 v2 l2 : UInt32) (t1 t2 : Bytes)
    (h : (txDigestsOf (s1.map pin) (o1.map pout) v1 l1 t1).txHash =
         (txDigestsOf (s2.map pin) (o2.map pout) v2 l2 t2).txHash)
    (htop : ∀ x y, TxHashed (s1.map pin) (o1.map pout) v1 l1 x → TxHashed (s2.map pin) (o2.map pout) v2 l2 y →
      Sha256.hash x = Sha256.hash y → x = y)
    (hin : ∀ a ∈ s1, ∀ b ∈ s2, ∀ x ∈ (inView a).hashed, ∀ y ∈ (inView b).hashed,
      Sha256.hash x = Sha256.hash y → x = y)
    (hout : ∀ a ∈ o1, ∀ b ∈ o2, ∀ x ∈ (outView a).hashed, ∀ y ∈ (outView b).hashed,
      Sha256.hash x = Sha256.hash y → x = y) :
    v1 = v2 ∧ l1 = l2 ∧ s1.map (fun p => (inView p).signed) = s2.map (fun p => (inView p).signed) ∧
      o1.map outView = o2.map outView := by
  -- the top level
  have e0 := htop _ _ .txHash .txHash h
  obtain ⟨hv, hl, hI, hO, hS, hJ, hU⟩ := txHashPre_inj e0
  -- the combining digests
  obtain ⟨hI1, hI2, hI3⟩ := hash3_inj (htop _ _ .inputsHash .inputsHash hI)
  obtain ⟨hO1, hO2, hO3, hO4⟩ := hash4_inj (htop _ _ .outputsHash .outputsHash hO)
  obtain ⟨hS1, hS2, hS3, hS4⟩ := hash4_inj (htop _ _ .issuancesHash .issuancesHash hS)
  obtain ⟨hU1, hU2⟩ := hash2_inj (htop _ _ .utxosHash .utxosHash hU)
  -- the digests over the lists
  have f1 := htop _ _ .outpoints .outpoints hI1
  have f2 := htop _ _ .sequences .sequences hI2
  have f3 := htop _ _ .annexes .annexes hI3
  have f4 := htop _ _ .amounts .amounts hU1
  have f5 := htop _ _ .scripts .scripts hU2
  have f6 := htop _ _ .issAssets .issAssets hS1
  have f7 := htop _ _ .issTokens .issTokens hS2
  have f8 := htop _ _ .issProofs .issProofs hS3
  have f9 := htop _ _ .issBlinds .issBlinds hS4
  have g1 := htop _ _ .outAmounts .outAmounts hO1
  have g2 := htop _ _ .outNonces .outNonces hO2
  have g3 := htop _ _ .outScripts .outScripts hO3
  have g4 := htop _ _ .outRanges .outRanges hO4
  have g5 := htop _ _ .outSurjs .outSurjs hJ
  simp only [List.flatMap_map] at f1 f2 f3 f4 f5 f6 f7 f8 f9 g1 g2 g3 g4 g5
  -- piece by piece
  obtain ⟨hlen, p1⟩ := pieces_get prefixCode_outpoint (cat_ne_nil (cat_ne_nil tagged_ne)) _ (fun p => outpoint_code (inView p)) f1
  obtain ⟨_, p2⟩ := pieces_get (prefixCode_fixed 4) (fun _ => fixed_ne_nil (by decide)) _ (fun p => be32_length (inView p).sequence) f2
  obtain ⟨_, p3⟩ := pieces_get prefixCode_opt tagged_ne _ (fun p => optPiece_code (opt_hash_len (inView p).annex)) f3
  obtain ⟨_, p4⟩ := pieces_get prefixCode_assetAmt (cat_ne_nil tagged_ne) _ (fun p => inAmt_code (inView p)) f4
  obtain ⟨_, p5⟩ := pieces_get (prefixCode_fixed 32) (fun _ => fixed_ne_nil (by decide)) _ (fun p => hash_len (inView p).scriptPubkey) f5
  obtain ⟨_, p6⟩ := pieces_get prefixCode_issAmt tagged_ne _ (fun p => issAsset_code (inView p)) f6
  obtain ⟨_, p7⟩ := pieces_get prefixCode_issAmt tagged_ne _ (fun p => issToken_code (inView p)) f7
  obtain ⟨_, p8⟩ := pieces_get (prefixCode_fixed 64) (fun _ => fixed_ne_nil (by decide)) _ (fun p => issProof_code (inView p)) f8
  obtain ⟨_, p9⟩ := pieces_get prefixCode_blind tagged_ne _ (fun p => issBlind_code (inView p)) f9
  obtain ⟨hlen', q1⟩ := pieces_get prefixCode_assetAmt (cat_ne_nil tagged_ne) _ (fun o => outAmt_code (outView o)) g1
  obtain ⟨_, q2⟩ := pieces_get prefixCode_opt tagged_ne _ (fun o => serializeConf_code _ (Or.inr rfl) (outView o).nonce) g2
  obtain ⟨_, q3⟩ := pieces_get (prefixCode_fixed 32) (fun _ => fixed_ne_nil (by decide)) _ (fun o => hash_len (outView o).scriptPubkey) g3
  obtain ⟨_, q4⟩ := pieces_get (prefixCode_fixed 32) (fun _ => fixed_ne_nil (by decide)) _ (fun o => hash_len (outView o).rangeproof) g4
  obtain ⟨_, q5⟩ := pieces_get (prefixCode_fixed 32) (fun _ => fixed_ne_nil (by decide)) _ (fun o => hash_len (outView o).surjectionProof) g5
  refine ⟨hv, hl, ?_, ?_⟩
  · apply List.ext_getElem (by simpa using hlen)
    intro i h1 h2
    have h1' : i < s1.length := by simpa using h1
    have h2' : i < s2.length := by simpa using h2
    simp only [List.getElem_map]
    exact inView_signed_inj _ _ (p1 i h1' h2') (p4 i h1' h2') (p5 i h1' h2') (p2 i h1' h2') (p3 i h1' h2')
      (p6 i h1' h2') (p7 i h1' h2') (p8 i h1' h2') (p9 i h1' h2')
      (hin _ (List.getElem_mem h1') _ (List.getElem_mem h2'))
  · apply List.ext_getElem (by simpa using hlen')
    intro i h1 h2
    have h1' : i < o1.length := by simpa using h1
    have h2' : i < o2.length := by simpa using h2
    simp only [List.getElem_map]
    exact outView_inj _ _ (q1 i h1' h2') (q2 i h1' h2') (q3 i h1' h2') (q4 i h1' h2') (q5 i h1' h2')
      (hout _ (List.getElem_mem h1') _ (List.getElem_mem h2'))

theorem b32_list_inj : ∀ {l1 l2 : List B32}, (l1.map (·.bytes)).flatten = (l2.map (·.bytes)).flatten → l1 = l2 := by
  intro l1 l2 h
  rw [← List.flatMap_def, ← List.flatMap_def] at h
  have hm := flatMap_code (prefixCode_fixed 32) (fun b : B32 => b.bytes) (fun b => b.len)
    (fun b => b.bytes_ne_nil) l1 l2 h
  obtain ⟨hlen, hget⟩ := map_eq_get hm
  exact List.ext_getElem hlen fun i h1 h2 => B32.eq_of_bytes (hget i h1 h2)

/-- **`sig_all_hash` determines everything the environment shows** (the script signatures apart):
two environments with the same `sig_all_hash` have the same view, unless SHA-256 collides on two of
the strings hashed on the way. -/
theorem sigAll_commit (e1 e2 : EnvArgs) (h : specSigAll e1 = specSigAll e2) (hnc : NoCollision e1 e2) :
    (envView e1).signed = (envView e2).signed := by
  have e0 := hnc _ _ .sigAll .sigAll h
  have hlenTx : ∀ e : EnvArgs, (specTx e).txHash.length = 32 := fun e => hash_len _
  have hlenTap : ∀ e : EnvArgs, (specTap e).tapEnvHash.length = 32 := fun e => hash_len _
  simp only [sigAllPre, List.append_assoc] at e0
  obtain ⟨hg, e0⟩ := List.append_inj e0 (by rw [e1.genesisHash.len, e2.genesisHash.len])
  obtain ⟨_, e0⟩ := List.append_inj e0 (by rw [e1.genesisHash.len, e2.genesisHash.len])
  obtain ⟨htx, e0⟩ := List.append_inj e0 (by rw [hlenTx, hlenTx])
  obtain ⟨htap, hix⟩ := List.append_inj e0 (by rw [hlenTap, hlenTap])
  -- the transaction
  obtain ⟨hv, hl, hins, houts⟩ := tx_commit e1.shown e2.shown e1.tx.outputs e2.tx.outputs _ _ _ _ _ _ htx
    (fun x y hx hy => hnc x y (.tx x hx) (.tx y hy))
    (fun a ha b hb x hx y hy => hnc x y (.input a x ha hx) (.input b y hb hy))
    (fun a ha b hb x hx y hy => hnc x y (.output a x ha hx) (.output b y hb hy))
  -- the taproot data
  have t0 := hnc _ _ .tapEnv .tapEnv htap
  rw [List.append_assoc, List.append_assoc] at t0
  obtain ⟨hleaf, t0⟩ := List.append_inj t0 (by
    show (Sha256.hash _).length = (Sha256.hash _).length
    rw [hash_len, hash_len])
  obtain ⟨hpath, hkey⟩ := List.append_inj t0 (by
    show (Sha256.hash _).length = (Sha256.hash _).length
    rw [hash_len, hash_len])
  have t1 := hnc _ _ .tapLeaf .tapLeaf hleaf
  rw [List.append_assoc, List.append_assoc, List.append_assoc, List.append_assoc] at t1
  have t1 := List.append_cancel_left (List.append_cancel_left t1)
  simp only [List.cons_append, List.nil_append, List.cons.injEq, true_and] at t1
  have t2 := b32_list_inj (hnc _ _ .tapPath .tapPath hpath)
  simp only [envView, EnvView.signed, EnvView.mk.injEq, List.map_map]
  exact ⟨B32.eq_of_bytes hg, be32_inj hix, hv, hl, hins, houts, t1.1, B32.eq_of_bytes t1.2, t2,
    B32.eq_of_bytes hkey⟩

end Env
