/-
Facts about the plan-level functions of `PrunePlan.lean` (the ones the driver runs).
-/
import SimplicityModel.PrunePlan

namespace Prog
open BM4

/-! ### the instrumented evaluator is the evaluator -/

def resOf {α β} (x : Except Fail (α × β)) : Except Fail α := x.map Prod.fst

@[simp] theorem resOf_ok {α β} (a : α) (b : β) : resOf (.ok (a, b) : Except Fail (α × β)) = .ok a := rfl
@[simp] theorem resOf_error {α β} (e : Fail) : resOf (.error e : Except Fail (α × β)) = .error e := rfl

theorem resOf_withNode (l : Lab) (r : Except Fail (Val × Trace)) : resOf (withNode l r) = resOf r := by
  cases r <;> rfl

theorem resOf_withSide (l : Lab) (b : Bool) (r : Except Fail (Val × Trace)) :
    resOf (withSide l b r) = resOf r := by
  cases r <;> rfl

theorem resOf_map_fst (g : Val → Val) (r : Except Fail (Val × Trace)) :
    resOf (r.map fun (o, tr) => (g o, tr)) = (resOf r).map g := by
  cases r <;> rfl

/-- **`evalT` computes exactly `evalK`** (same value, same failure kind), whatever the labels -/
theorem evalT_fst : ∀ {a b : Ty} (t : Term a b) (l : Lab) (v : Val), resOf (evalT t l v) = evalK t v := by
  intro a b t
  induction t with
  | iden => intro l v; rfl
  | unit => intro l v; rfl
  | injl t ih =>
    intro l v
    simp only [evalT, evalK, resOf_withNode]
    rw [resOf_map_fst, ih]
  | injr t ih =>
    intro l v
    simp only [evalT, evalK, resOf_withNode]
    rw [resOf_map_fst, ih]
  | take t ih =>
    intro l v
    cases v <;> simp only [evalT, evalK, resOf_withNode, ih, resOf_error]
  | drop t ih =>
    intro l v
    cases v <;> simp only [evalT, evalK, resOf_withNode, ih, resOf_error]
  | comp s t ihs iht =>
    intro l v
    simp only [evalT, evalK, resOf_withNode]
    rw [← ihs l.fst v]
    cases h : evalT s l.fst v with
    | error e => rfl
    | ok r =>
      obtain ⟨x, t1⟩ := r
      simp only [Except.bind, resOf_ok]
      rw [← iht l.snd x]
      cases evalT t l.snd x <;> rfl
  | case s t ihs iht =>
    intro l v
    cases v with
    | pair x z =>
      cases x <;> simp only [evalT, evalK, resOf_withSide, ihs, iht, resOf_error]
    | _ => simp only [evalT, evalK, resOf_error]
  | pair s t ihs iht =>
    intro l v
    simp only [evalT, evalK, resOf_withNode]
    rw [← ihs l.fst v]
    cases h : evalT s l.fst v with
    | error e => rfl
    | ok r =>
      obtain ⟨x, t1⟩ := r
      simp only [Except.bind, resOf_ok]
      rw [← iht l.snd v]
      cases evalT t l.snd v <;> rfl
  | fail => intro l v; rfl
  | witness w => intro l v; rfl
  | assertl s ih =>
    intro l v
    cases v with
    | pair x z =>
      cases x <;> simp only [evalT, evalK, resOf_withSide, ih, resOf_error]
    | _ => simp only [evalT, evalK, resOf_error]
  | assertr t ih =>
    intro l v
    cases v with
    | pair x z =>
      cases x <;> simp only [evalT, evalK, resOf_withSide, ih, resOf_error]
    | _ => simp only [evalT, evalK, resOf_error]
  | jet jf f =>
    intro l v
    simp only [evalT, evalK]
    cases f v <;> rfl
  | word w => intro l v; rfl
  | disconnect w cw s t ihs iht =>
    intro l v
    simp only [evalT, evalK, resOf_withNode]
    rw [← ihs l.fst (.pair cw v)]
    cases h : evalT s l.fst (.pair cw v) with
    | error e => rfl
    | ok r =>
      obtain ⟨xy, t1⟩ := r
      cases xy with
      | pair x y =>
        simp only [Except.bind, resOf_ok]
        rw [← iht l.snd y]
        cases evalT t l.snd y <;> rfl
      | _ => rfl

/-! ### commitment roots are unchanged by the `prune_case` table -/

/-- an assertion hashes like the case node it came from, the hidden child entering by its root -/
theorem cmrNode_assertl (jc : String → Option Nat) (cm : Nat → Nat) (a b : Nat) :
    cmrNode jc cm (.assertl a (cm b)) = cmrNode jc cm (.case a b) := rfl

theorem cmrNode_assertr (jc : String → Option Nat) (cm : Nat → Nat) (a b : Nat) :
    cmrNode jc cm (.assertr (cm a) b) = cmrNode jc cm (.case a b) := rfl

/-- **node level**: whatever the tracker holds, the rewritten node has the root of the original
node, provided the hidden child's root is taken from the same root table -/
theorem cmrNode_pruneNode (S : List (Nat × Bool)) (id : Nat) (jc : String → Option Nat)
    (cm : Nat → Nat) (nd : Node) : cmrNode jc cm (pruneNode S id cm nd) = cmrNode jc cm nd := by
  cases nd with
  | case a b =>
    simp only [pruneNode]
    cases decide ((id, false) ∈ S) <;> cases decide ((id, true) ∈ S) <;> rfl
  | _ => rfl

/-- more generally: the hidden roots may come from any table that agrees with `cm` on the
children of the node -/
theorem cmrNode_pruneNode' (S : List (Nat × Bool)) (id : Nat) (jc : String → Option Nat)
    (cm cm' : Nat → Nat) (nd : Node) (h : ∀ c ∈ nd.children, cm' c = cm c) :
    cmrNode jc cm (pruneNode S id cm' nd) = cmrNode jc cm nd := by
  cases nd with
  | case a b =>
    have ha : cm' a = cm a := h a (by simp [Node.children])
    have hb : cm' b = cm b := h b (by simp [Node.children])
    simp only [pruneNode]
    cases decide ((id, false) ∈ S) <;> cases decide ((id, true) ∈ S) <;>
      simp only [cmrNode, cmrNodeG, ha, hb]
  | _ => rfl

/-- one step of `cmrs` -/
def cmrStep (jc : String → Option Nat) (acc : Array Nat) (nd : Node) : Option (Array Nat) := do
  let c ← cmrNode jc (fun i => acc.getD i 0) nd
  pure (acc.push c)

theorem cmrsGo_eq_foldlM (jc : String → Option Nat) :
    ∀ (l : List Node) (acc : Array Nat), cmrsGo jc l acc = l.foldlM (cmrStep jc) acc
  | [], _ => rfl
  | nd :: rest, acc => by
    have ih := cmrsGo_eq_foldlM jc rest
    unfold cmrsGo at ih ⊢
    simp only [cmrsGoG, List.foldlM_cons, cmrStep]
    cases h : cmrNode jc (fun i => acc.getD i 0) nd with
    | none => simp [bind, Option.bind]
    | some c => simp only [bind, Option.bind, pure]; exact ih _

theorem cmrs_eq_foldlM (jc : String → Option Nat) (p : Plan) :
    cmrs jc p = p.toList.foldlM (cmrStep jc) #[] := by
  unfold cmrs
  exact cmrsGo_eq_foldlM jc p.toList #[]

theorem cmrStep_some {jc : String → Option Nat} {acc acc' : Array Nat} {nd : Node}
    (h : cmrStep jc acc nd = some acc') :
    ∃ c, cmrNode jc (fun i => acc.getD i 0) nd = some c ∧ acc' = acc.push c := by
  unfold cmrStep at h
  generalize cmrNode jc (fun i => acc.getD i 0) nd = o at h ⊢
  cases o with
  | none => simp at h
  | some c =>
    refine ⟨c, rfl, ?_⟩
    simp only [Option.bind_eq_bind, Option.bind_some, Option.pure_def, Option.some.injEq] at h
    exact h.symm

theorem getD_push_lt (acc : Array Nat) (c : Nat) {j : Nat} (h : j < acc.size) :
    (acc.push c).getD j 0 = acc.getD j 0 := by
  simp [Array.getD, h, Nat.lt_succ_of_lt h, Array.getElem_push_lt]

/-- the roots computed so far are never changed by later steps -/
theorem foldlM_cmrStep_prefix (jc : String → Option Nat) : ∀ (ns : List Node) (acc cm : Array Nat),
    ns.foldlM (cmrStep jc) acc = some cm → ∀ j, j < acc.size → cm.getD j 0 = acc.getD j 0 := by
  intro ns
  induction ns with
  | nil =>
    intro acc cm h j _
    simp only [List.foldlM_nil, Option.pure_def, Option.some.injEq] at h
    rw [h]
  | cons nd rest ih =>
    intro acc cm h j hj
    simp only [List.foldlM_cons, Option.bind_eq_bind] at h
    cases hs : cmrStep jc acc nd with
    | none => simp [hs] at h
    | some acc' =>
      simp only [hs, Option.bind_some] at h
      obtain ⟨c, _, rfl⟩ := cmrStep_some hs
      rw [ih _ _ h j (by simp; omega), getD_push_lt _ _ hj]

/-- **plan level**: `cmrs` of the pruned plan (hidden roots taken from the roots `cm` of the original
plan) is `cm` again — every node, not only the root — for plans whose children precede parents -/
theorem foldlM_cmrStep_pruneList (jc : String → Option Nat) (S : List (Nat × Bool)) (ids : Nat → Nat)
    (cm : Array Nat) : ∀ (ns : List Node) (acc : Array Nat),
    ns.foldlM (cmrStep jc) acc = some cm → wfFrom acc.size ns = true →
    (pruneList S ids (fun i => cm.getD i 0) acc.size ns).foldlM (cmrStep jc) acc = some cm := by
  intro ns
  induction ns with
  | nil => intro acc h _; simpa [pruneList] using h
  | cons nd rest ih =>
    intro acc h hwf
    simp only [List.foldlM_cons, Option.bind_eq_bind] at h
    cases hs : cmrStep jc acc nd with
    | none => simp [hs] at h
    | some acc' =>
      simp only [hs, Option.bind_some] at h
      obtain ⟨c, hc, rfl⟩ := cmrStep_some hs
      simp only [wfFrom, Bool.and_eq_true, List.all_eq_true, decide_eq_true_eq] at hwf
      have hpre := foldlM_cmrStep_prefix jc rest (acc.push c) cm h
      have hnode : cmrNode jc (fun i => acc.getD i 0)
          (pruneNode S (ids acc.size) (fun i => cm.getD i 0) nd) = some c := by
        rw [cmrNode_pruneNode' S _ jc _ _ nd ?_, hc]
        intro ch hch
        have hlt := hwf.1 ch hch
        show cm.getD ch 0 = acc.getD ch 0
        rw [hpre ch (by simp; omega), getD_push_lt _ _ hlt]
      have hstep : cmrStep jc acc (pruneNode S (ids acc.size) (fun i => cm.getD i 0) nd) = some (acc.push c) := by
        unfold cmrStep; rw [hnode]; rfl
      simp only [pruneList, List.foldlM_cons, Option.bind_eq_bind, hstep, Option.bind_some]
      have := ih (acc.push c) h (by simpa using hwf.2)
      simpa using this

theorem cmrs_prunePlan (jc : String → Option Nat) (S : List (Nat × Bool)) (ids : Nat → Nat)
    (p : Plan) (cm : Array Nat) (hwf : wf p = true) (h : cmrs jc p = some cm) :
    cmrs jc (prunePlan S ids (fun i => cm.getD i 0) p) = some cm := by
  rw [cmrs_eq_foldlM] at h ⊢
  have := foldlM_cmrStep_pruneList jc S ids cm p.toList #[] h (by simpa [wf] using hwf)
  simpa [prunePlan] using this

/-! ### typing constraints: pruning and masking only drop equations -/

open Inf (Eqn)

theorem constraintsMGo_all (jt : JetTypes) : ∀ (nodes : List Node) (i f : Nat) (acc : List Eqn),
    constraintsMGo jt (fun _ => true) i nodes f acc = constraints.go jt i nodes f acc := by
  intro nodes
  induction nodes with
  | nil => intro i f acc; simp [constraintsMGo, constraints.go]
  | cons nd rest ih =>
    intro i f acc
    simp only [constraintsMGo, constraints.go]
    cases nodeEqns jt i nd f with
    | none => rfl
    | some r => obtain ⟨es, f'⟩ := r; simp [ih]

/-- with every node selected, `constraintsM` is `Prog.constraints` (the constraints `Prog.infer`,
the model of C04, solves) -/
theorem constraintsM_all (jt : JetTypes) (p : Plan) (program : Bool) :
    constraintsM jt p (fun _ => true) program = constraints jt p program := by
  unfold constraintsM constraints
  rw [constraintsMGo_all]
  cases constraints.go jt 0 p.toList (2 * p.size) [] <;> rfl

/-- `nd'` contributes a subset of the equations of `nd` and uses up the same fresh variables -/
def NodeSub (jt : JetTypes) (nd' nd : Node) : Prop :=
  ∀ i f es g, nodeEqns jt i nd f = some (es, g) →
    ∃ es', nodeEqns jt i nd' f = some (es', g) ∧ ∀ e ∈ es', e ∈ es

theorem NodeSub.refl (jt : JetTypes) (nd : Node) : NodeSub jt nd nd :=
  fun _ _ es _ h => ⟨es, h, fun _ he => he⟩

inductive ListSub (jt : JetTypes) : List Node → List Node → Prop
  | nil : ListSub jt [] []
  | cons {nd' nd ns' ns} : NodeSub jt nd' nd → ListSub jt ns' ns → ListSub jt (nd' :: ns') (nd :: ns)

theorem ListSub.refl (jt : JetTypes) : ∀ ns, ListSub jt ns ns
  | [] => .nil
  | nd :: ns => .cons (NodeSub.refl jt nd) (ListSub.refl jt ns)

theorem ListSub.length {jt : JetTypes} {ns' ns : List Node} (h : ListSub jt ns' ns) : ns'.length = ns.length := by
  induction h with
  | nil => rfl
  | cons _ _ ih => simp [ih]

/-- the assertion keeps three of the five equations of the case node, with the same three fresh
variables -/
theorem nodeSub_pruneNode (jt : JetTypes) (S : List (Nat × Bool)) (id : Nat) (cm : Nat → Nat) (nd : Node) :
    NodeSub jt (pruneNode S id cm nd) nd := by
  cases nd with
  | case a b =>
    simp only [pruneNode]
    cases decide ((id, false) ∈ S) <;> cases decide ((id, true) ∈ S)
    · exact NodeSub.refl jt _
    · intro i f es g h
      simp only [nodeEqns, Option.some.injEq, Prod.mk.injEq] at h
      obtain ⟨rfl, rfl⟩ := h
      exact ⟨_, rfl, by intro e he; simp only [List.mem_cons, List.not_mem_nil, or_false] at he ⊢; rcases he with rfl | rfl | rfl <;> simp⟩
    · intro i f es g h
      simp only [nodeEqns, Option.some.injEq, Prod.mk.injEq] at h
      obtain ⟨rfl, rfl⟩ := h
      exact ⟨_, rfl, by intro e he; simp only [List.mem_cons, List.not_mem_nil, or_false] at he ⊢; rcases he with rfl | rfl | rfl <;> simp⟩
    · exact NodeSub.refl jt _
  | _ => exact NodeSub.refl jt _

theorem listSub_pruneList (jt : JetTypes) (S : List (Nat × Bool)) (ids : Nat → Nat) (cm : Nat → Nat) :
    ∀ (ns : List Node) (i : Nat), ListSub jt (pruneList S ids cm i ns) ns
  | [], _ => .nil
  | nd :: ns, i => .cons (nodeSub_pruneNode jt S (ids i) cm nd) (listSub_pruneList jt S ids cm ns (i + 1))

theorem constraintsMGo_sub (jt : JetTypes) {m' m : Nat → Bool} (hm : ∀ i, m' i = true → m i = true)
    {ns' ns : List Node} (hs : ListSub jt ns' ns) :
    ∀ (i f : Nat) (acc' acc E : List Eqn), (∀ e ∈ acc', e ∈ acc) →
      constraintsMGo jt m i ns f acc = some E →
      ∃ E', constraintsMGo jt m' i ns' f acc' = some E' ∧ ∀ e ∈ E', e ∈ E := by
  induction hs with
  | nil =>
    intro i f acc' acc E hacc h
    simp only [constraintsMGo, Option.some.injEq] at h
    subst h
    exact ⟨acc', rfl, hacc⟩
  | @cons nd' nd ns' ns hn _ ih =>
    intro i f acc' acc E hacc h
    simp only [constraintsMGo] at h
    cases hq : nodeEqns jt i nd f with
    | none => simp [hq] at h
    | some r =>
      obtain ⟨es, g⟩ := r
      simp only [hq] at h
      obtain ⟨es', hq', hsub⟩ := hn i f es g hq
      simp only [constraintsMGo, hq']
      refine ih (i + 1) g _ _ E ?_ h
      intro e he
      cases hm' : m' i with
      | true =>
        simp only [hm', if_true, List.mem_append] at he
        simp only [hm i hm', if_true, List.mem_append]
        rcases he with he | he
        · exact .inl (hacc e he)
        · exact .inr (hsub e he)
      | false =>
        simp only [hm', Bool.false_eq_true, if_false] at he
        cases m i with
        | true => simp only [if_true, List.mem_append]; exact .inl (hacc e he)
        | false => simpa using hacc e he

/-- dropping nodes (a smaller mask) and rewriting cases into assertions only removes equations -/
theorem constraintsM_sub (jt : JetTypes) {p' p : Plan} {m' m : Nat → Bool}
    (hm : ∀ i, m' i = true → m i = true) (hs : ListSub jt p'.toList p.toList) (program : Bool)
    {E : List Eqn} (h : constraintsM jt p m program = some E) :
    ∃ E', constraintsM jt p' m' program = some E' ∧ ∀ e ∈ E', e ∈ E := by
  have hsz : p'.size = p.size := by simpa using hs.length
  unfold constraintsM at h ⊢
  cases hg : constraintsMGo jt m 0 p.toList (2 * p.size) [] with
  | none => simp [hg] at h
  | some es =>
    simp only [hg, Option.some.injEq] at h
    obtain ⟨es', hg', hsub⟩ := constraintsMGo_sub jt hm hs 0 (2 * p.size) [] [] es (fun _ he => he) hg
    rw [hsz, hg']
    refine ⟨_, rfl, ?_⟩
    subst h
    cases program with
    | false => simpa using hsub
    | true =>
      intro e he
      simp only [if_true, List.mem_append] at he ⊢
      rcases he with he | he
      · exact .inl (hsub e he)
      · exact .inr he

/-! ### the inferred types can only shrink -/

theorem tyOfInf_le : ∀ {a b : Inf.Ty}, Inf.Le a b → Le (tyOfInf a) (tyOfInf b)
  | _, _, .one _ => .one _
  | _, _, .sum ha hb => .sum (tyOfInf_le ha) (tyOfInf_le hb)
  | _, _, .prod ha hb => .prod (tyOfInf_le ha) (tyOfInf_le hb)

theorem arrowsOf_getD (n : Nat) (ρ : Nat → Inf.Ty) {i : Nat} (h : i < n) :
    (arrowsOf n ρ).getD i (.one, .one) = (tyOfInf (ρ (2 * i)), tyOfInf (ρ (2 * i + 1))) := by
  simp [arrowsOf, Array.getD, h]

theorem inferM_ok {jt : JetTypes} {p : Plan} {m : Nat → Bool} {prog : Bool} {arr : Array (Ty × Ty)}
    (h : inferM jt p m prog = .ok arr) :
    ∃ es S, constraintsM jt p m prog = some es ∧ Inf.unify unifyFuel es [] = .ok S ∧
      arr = arrowsOf p.size (Inf.closeUnit S) := by
  unfold inferM at h
  cases hc : constraintsM jt p m prog with
  | none => simp [hc] at h
  | some es =>
    simp only [hc] at h
    cases hu : Inf.unify unifyFuel es [] with
    | ok S => simp only [hu, InferRes.ok.injEq] at h; exact ⟨es, S, rfl, hu, h.symm⟩
    | clash => simp [hu] at h
    | occurs => simp [hu] at h
    | fuel => simp [hu] at h

/-- **types shrink**: every arrow inferred for the smaller system is below (`≤`: unit below
everything, componentwise) the arrow of the same node in the larger one -/
theorem inferM_mono (jt : JetTypes) {p' p : Plan} {m' m : Nat → Bool}
    (hm : ∀ i, m' i = true → m i = true) (hs : ListSub jt p'.toList p.toList) (prog : Bool)
    {arr arr' : Array (Ty × Ty)} (h : inferM jt p m prog = .ok arr) (h' : inferM jt p' m' prog = .ok arr') :
    ∀ i, i < p.size →
      Le (arr'.getD i (.one, .one)).1 (arr.getD i (.one, .one)).1 ∧
      Le (arr'.getD i (.one, .one)).2 (arr.getD i (.one, .one)).2 := by
  obtain ⟨es, S, hc, hu, rfl⟩ := inferM_ok h
  obtain ⟨es', S', hc', hu', rfl⟩ := inferM_ok h'
  obtain ⟨E', hE', hsub⟩ := constraintsM_sub jt hm hs prog hc
  rw [hc'] at hE'
  cases hE'
  have hsz : p'.size = p.size := by simpa using hs.length
  have mono := Inf.least_mono hsub hu hu'
  intro i hi
  rw [arrowsOf_getD _ _ hi, arrowsOf_getD _ _ (hsz ▸ hi)]
  exact ⟨tyOfInf_le (mono _), tyOfInf_le (mono _)⟩

/-- **re-inference cannot fail**: if the larger system has a solution, the unifier does not answer
`clash`/`occurs` on the smaller one (the `expect("pruned types should check out …")` of the code) -/
theorem inferM_sub_succeeds (jt : JetTypes) {p' p : Plan} {m' m : Nat → Bool}
    (hm : ∀ i, m' i = true → m i = true) (hs : ListSub jt p'.toList p.toList) (prog : Bool)
    {arr : Array (Ty × Ty)} (h : inferM jt p m prog = .ok arr) :
    (∃ arr', inferM jt p' m' prog = .ok arr') ∨ inferM jt p' m' prog = .fuel := by
  obtain ⟨es, S, hc, hu, rfl⟩ := inferM_ok h
  obtain ⟨E', hE', hsub⟩ := constraintsM_sub jt hm hs prog hc
  have hsol : Inf.Sol (Inf.closeUnit S) E' := fun e he => (Inf.unify_least _ _ _ hu).1 e (hsub e he)
  unfold inferM
  rw [hE']
  cases hu' : Inf.unify unifyFuel E' [] with
  | ok S' => exact .inl ⟨arrowsOf p'.size (Inf.closeUnit S'), by simp only [hu']⟩
  | clash => exact (Inf.quotient_accepts hsol (.inl hu')).elim
  | occurs => exact (Inf.quotient_accepts hsol (.inr hu')).elim
  | fuel => exact .inr (by simp only [hu'])

/-! ### `Value::prune` -/

/-- pruning a well-typed value to a type below its own always succeeds (no panic in `Finalizer`) -/
theorem pruneV_of_le {v : Val} {t : Ty} (hv : HasTy v t) : ∀ {t' : Ty}, Le t' t → ∃ w, pruneV v t' = some w := by
  induction hv with
  | unit => intro t' h; cases h; exact ⟨.unit, rfl⟩
  | inl _ ih =>
    intro t' h
    cases h with
    | one => exact ⟨.unit, rfl⟩
    | sum ha _ => obtain ⟨w, hw⟩ := ih ha; exact ⟨.inl w, by simp [pruneV, hw]⟩
  | inr _ ih =>
    intro t' h
    cases h with
    | one => exact ⟨.unit, rfl⟩
    | sum _ hb => obtain ⟨w, hw⟩ := ih hb; exact ⟨.inr w, by simp [pruneV, hw]⟩
  | pair _ _ ih1 ih2 =>
    intro t' h
    cases h with
    | one => exact ⟨.unit, rfl⟩
    | prod ha hb =>
      obtain ⟨x', hx⟩ := ih1 ha
      obtain ⟨y', hy⟩ := ih2 hb
      exact ⟨.pair x' y', by simp [pruneV, hx, hy]⟩

/-- whenever it succeeds, the partial `pruneV` is the total `pr` of `Prune.lean` (the function
`eval_shrink` is stated with) -/
theorem pruneV_eq_pr : ∀ (v : Val) (t : Ty) (w : Val), pruneV v t = some w → w = pr t v := by
  intro v
  induction v with
  | unit =>
    intro t w h
    cases t <;> simp [pruneV] at h
    subst h; rfl
  | inl v ih =>
    intro t w h
    cases t with
    | one => simp [pruneV] at h; subst h; rfl
    | sum a b =>
      simp only [pruneV, Option.map_eq_some_iff] at h
      obtain ⟨w', hw', rfl⟩ := h
      simp [pr, ih a w' hw']
    | prod a b => simp [pruneV] at h
  | inr v ih =>
    intro t w h
    cases t with
    | one => simp [pruneV] at h; subst h; rfl
    | sum a b =>
      simp only [pruneV, Option.map_eq_some_iff] at h
      obtain ⟨w', hw', rfl⟩ := h
      simp [pr, ih b w' hw']
    | prod a b => simp [pruneV] at h
  | pair x y ihx ihy =>
    intro t w h
    cases t with
    | one => simp [pruneV] at h; subst h; rfl
    | sum a b => simp [pruneV] at h
    | prod a b =>
      simp only [pruneV] at h
      cases hx : pruneV x a with
      | none => simp [hx] at h
      | some x' =>
        cases hy : pruneV y b with
        | none => simp [hx, hy] at h
        | some y' =>
          simp [hx, hy] at h; subst h
          simp [pr, ihx a x' hx, ihy b y' hy]

/-- the result of a successful prune has exactly the target type -/
theorem pruneV_hasTy : ∀ (v : Val) (t : Ty) (w : Val), pruneV v t = some w → HasTy w t := by
  intro v
  induction v with
  | unit =>
    intro t w h
    cases t <;> simp [pruneV] at h
    subst h; exact .unit
  | inl v ih =>
    intro t w h
    cases t with
    | one => simp [pruneV] at h; subst h; exact .unit
    | sum a b =>
      simp only [pruneV, Option.map_eq_some_iff] at h
      obtain ⟨w', hw', rfl⟩ := h
      exact .inl (ih a w' hw')
    | prod a b => simp [pruneV] at h
  | inr v ih =>
    intro t w h
    cases t with
    | one => simp [pruneV] at h; subst h; exact .unit
    | sum a b =>
      simp only [pruneV, Option.map_eq_some_iff] at h
      obtain ⟨w', hw', rfl⟩ := h
      exact .inr (ih b w' hw')
    | prod a b => simp [pruneV] at h
  | pair x y ihx ihy =>
    intro t w h
    cases t with
    | one => simp [pruneV] at h; subst h; exact .unit
    | sum a b => simp [pruneV] at h
    | prod a b =>
      simp only [pruneV] at h
      cases hx : pruneV x a with
      | none => simp [hx] at h
      | some x' =>
        cases hy : pruneV y b with
        | none => simp [hx, hy] at h
        | some y' =>
          simp [hx, hy] at h; subst h
          exact .pair (ihx a x' hx) (ihy b y' hy)

/-! ### the table is idempotent -/

theorem pruneNode_idem (S : List (Nat × Bool)) (id : Nat) (cm : Nat → Nat) (nd : Node) :
    pruneNode S id cm (pruneNode S id cm nd) = pruneNode S id cm nd := by
  cases nd with
  | case a b =>
    simp only [pruneNode]
    cases h1 : decide ((id, false) ∈ S) <;> cases h2 : decide ((id, true) ∈ S) <;> simp [pruneNode, h1, h2]
  | _ => rfl

theorem pruneList_idem (S : List (Nat × Bool)) (ids : Nat → Nat) (cm : Nat → Nat) :
    ∀ (ns : List Node) (i : Nat), pruneList S ids cm i (pruneList S ids cm i ns) = pruneList S ids cm i ns
  | [], _ => rfl
  | nd :: ns, i => by simp [pruneList, pruneNode_idem, pruneList_idem S ids cm ns (i + 1)]

/-- for a fixed tracker content, identities and root table the rewriting is idempotent -/
theorem prunePlan_idem (S : List (Nat × Bool)) (ids : Nat → Nat) (cm : Nat → Nat) (p : Plan) :
    prunePlan S ids cm (prunePlan S ids cm p) = prunePlan S ids cm p := by
  simp [prunePlan, pruneList_idem]

/-- a plan in which no case node has exactly one side recorded is left alone -/
theorem pruneNode_fix (S : List (Nat × Bool)) (id : Nat) (cm : Nat → Nat) (nd : Node)
    (h : ∀ a b, nd = .case a b → ((id, false) ∈ S ↔ (id, true) ∈ S)) : pruneNode S id cm nd = nd := by
  cases nd with
  | case a b =>
    have := h a b rfl
    simp only [pruneNode]
    by_cases h1 : (id, false) ∈ S
    · simp [h1, this.1 h1]
    · have h2 : (id, true) ∉ S := fun h2 => h1 (this.2 h2)
      simp [h1, h2]
  | _ => rfl

end Prog
