/-
Facts about the plan-level functions of `PrunePlan.lean` (the ones the driver runs).
-/
import SimplicityModel.PrunePlan

namespace Prog
open BM4

/-! ### the instrumented evaluator is the evaluator -/

def resOf {α β} (x : Except Fail (α × β)) : Except Fail α := x.map Prod.fst

@[simp] theorem resOf_ok {α β} (a : α) (b : β) : resOf (.ok (a, b) : Except Fail (α × β)) = .ok a := rfl
@[simp] theorem resOf_error {α β} (e : Fail) : resOf (.error e : Except Fail (α × β)) = .error e := rfl

theorem resOf_withNode (l : Lab) (r : Except Fail (Val × Trace)) : resOf (withNode l r) = resOf r := by
  cases r <;> rfl

theorem resOf_withSide (l : Lab) (b : Bool) (r : Except Fail (Val × Trace)) :
    resOf (withSide l b r) = resOf r := by
  cases r <;> rfl

theorem resOf_map_fst (g : Val → Val) (r : Except Fail (Val × Trace)) :
    resOf (r.map fun (o, tr) => (g o, tr)) = (resOf r).map g := by
  cases r <;> rfl

/-- **`evalT` computes exactly `evalK`** (same value, same failure kind), whatever the labels -/
theorem evalT_fst : ∀ {a b : Ty} (t : Term a b) (l : Lab) (v : Val), resOf (evalT t l v) = evalK t v := by
  intro a b t
  induction t with
  | iden => intro l v; rfl
  | unit => intro l v; rfl
  | injl t ih =>
    intro l v
    simp only [evalT, evalK, resOf_withNode]
    rw [resOf_map_fst, ih]
  | injr t ih =>
    intro l v
    simp only [evalT, evalK, resOf_withNode]
    rw [resOf_map_fst, ih]
  | take t ih =>
    intro l v
    cases v <;> simp only [evalT, evalK, resOf_withNode, ih, resOf_error]
  | drop t ih =>
    intro l v
    cases v <;> simp only [evalT, evalK, resOf_withNode, ih, resOf_error]
  | comp s t ihs iht =>
    intro l v
    simp only [evalT, evalK, resOf_withNode]
    rw [← ihs l.fst v]
    cases h : evalT s l.fst v with
    | error e => rfl
    | ok r =>
      obtain ⟨x, t1⟩ := r
      simp only [Except.bind, resOf_ok]
      rw [← iht l.snd x]
      cases evalT t l.snd x <;> rfl
  | case s t ihs iht =>
    intro l v
    cases v with
    | pair x z =>
      cases x <;> simp only [evalT, evalK, resOf_withSide, ihs, iht, resOf_error]
    | _ => simp only [evalT, evalK, resOf_error]
  | pair s t ihs iht =>
    intro l v
    simp only [evalT, evalK, resOf_withNode]
    rw [← ihs l.fst v]
    cases h : evalT s l.fst v with
    | error e => rfl
    | ok r =>
      obtain ⟨x, t1⟩ := r
      simp only [Except.bind, resOf_ok]
      rw [← iht l.snd v]
      cases evalT t l.snd v <;> rfl
  | fail => intro l v; rfl
  | witness w => intro l v; rfl
  | assertl s ih =>
    intro l v
    cases v with
    | pair x z =>
      cases x <;> simp only [evalT, evalK, resOf_withSide, ih, resOf_error]
    | _ => simp only [evalT, evalK, resOf_error]
  | assertr t ih =>
    intro l v
    cases v with
    | pair x z =>
      cases x <;> simp only [evalT, evalK, resOf_withSide, ih, resOf_error]
    | _ => simp only [evalT, evalK, resOf_error]
  | jet jf f =>
    intro l v
    simp only [evalT, evalK]
    cases f v <;> rfl
  | word w => intro l v; rfl
  | disconnect w cw s t ihs iht =>
    intro l v
    simp only [evalT, evalK, resOf_withNode]
    rw [← ihs l.fst (.pair cw v)]
    cases h : evalT s l.fst (.pair cw v) with
    | error e => rfl
    | ok r =>
      obtain ⟨xy, t1⟩ := r
      cases xy with
      | pair x y =>
        simp only [Except.bind, resOf_ok]
        rw [← iht l.snd y]
        cases evalT t l.snd y <;> rfl
      | _ => rfl

/-! ### commitment roots are unchanged by the `prune_case` table -/

/-- an assertion hashes like the case node it came from, the hidden child entering by its root -/
theorem cmrNode_assertl (jc : String → Option Nat) (cm : Nat → Nat) (a b : Nat) :
    cmrNode jc cm (.assertl a (cm b)) = cmrNode jc cm (.case a b) := rfl

theorem cmrNode_assertr (jc : String → Option Nat) (cm : Nat → Nat) (a b : Nat) :
    cmrNode jc cm (.assertr (cm a) b) = cmrNode jc cm (.case a b) := rfl

/-- **node level**: whatever the tracker holds, the rewritten node has the root of the original
node, provided the hidden child's root is taken from the same root table -/
theorem cmrNode_pruneNode (S : List (Nat × Bool)) (id : Nat) (jc : String → Option Nat)
    (cm : Nat → Nat) (nd : Node) : cmrNode jc cm (pruneNode S id cm nd) = cmrNode jc cm nd := by
  cases nd with
  | case a b =>
    simp only [pruneNode]
    cases decide ((id, false) ∈ S) <;> cases decide ((id, true) ∈ S) <;> rfl
  | _ => rfl

/-- more generally: the hidden roots may come from any table that agrees with `cm` on the
children of the node -/
theorem cmrNode_pruneNode' (S : List (Nat × Bool)) (id : Nat) (jc : String → Option Nat)
    (cm cm' : Nat → Nat) (nd : Node) (h : ∀ c ∈ nd.children, cm' c = cm c) :
    cmrNode jc cm (pruneNode S id cm' nd) = cmrNode jc cm nd := by
  cases nd with
  | case a b =>
    have ha : cm' a = cm a := h a (by simp [Node.children])
    have hb : cm' b = cm b := h b (by simp [Node.children])
    simp only [pruneNode]
    cases decide ((id, false) ∈ S) <;> cases decide ((id, true) ∈ S) <;>
      simp only [cmrNode, ha, hb]
  | _ => rfl

/-- one step of `cmrs` -/
def cmrStep (jc : String → Option Nat) (acc : Array Nat) (nd : Node) : Option (Array Nat) := do
  let c ← cmrNode jc (fun i => acc.getD i 0) nd
  pure (acc.push c)

theorem cmrs_eq_foldlM (jc : String → Option Nat) (p : Plan) :
    cmrs jc p = p.toList.foldlM (cmrStep jc) #[] := by
  unfold cmrs
  rw [Array.foldlM_toList]
  rfl

theorem cmrStep_some {jc : String → Option Nat} {acc acc' : Array Nat} {nd : Node}
    (h : cmrStep jc acc nd = some acc') :
    ∃ c, cmrNode jc (fun i => acc.getD i 0) nd = some c ∧ acc' = acc.push c := by
  unfold cmrStep at h
  generalize cmrNode jc (fun i => acc.getD i 0) nd = o at h ⊢
  cases o with
  | none => simp at h
  | some c =>
    refine ⟨c, rfl, ?_⟩
    simp only [Option.bind_eq_bind, Option.bind_some, Option.pure_def, Option.some.injEq] at h
    exact h.symm

theorem getD_push_lt (acc : Array Nat) (c : Nat) {j : Nat} (h : j < acc.size) :
    (acc.push c).getD j 0 = acc.getD j 0 := by
  simp [Array.getD, h, Nat.lt_succ_of_lt h, Array.getElem_push_lt]

/-- the roots computed so far are never changed by later steps -/
theorem foldlM_cmrStep_prefix (jc : String → Option Nat) : ∀ (ns : List Node) (acc cm : Array Nat),
    ns.foldlM (cmrStep jc) acc = some cm → ∀ j, j < acc.size → cm.getD j 0 = acc.getD j 0 := by
  intro ns
  induction ns with
  | nil =>
    intro acc cm h j _
    simp only [List.foldlM_nil, Option.pure_def, Option.some.injEq] at h
    rw [h]
  | cons nd rest ih =>
    intro acc cm h j hj
    simp only [List.foldlM_cons, Option.bind_eq_bind] at h
    cases hs : cmrStep jc acc nd with
    | none => simp [hs] at h
    | some acc' =>
      simp only [hs, Option.bind_some] at h
      obtain ⟨c, _, rfl⟩ := cmrStep_some hs
      rw [ih _ _ h j (by simp; omega), getD_push_lt _ _ hj]

/-- **plan level**: `cmrs` of the pruned plan (hidden roots taken from the roots `cm` of the original
plan) is `cm` again — every node, not only the root — for plans whose children precede parents -/
theorem foldlM_cmrStep_pruneList (jc : String → Option Nat) (S : List (Nat × Bool)) (ids : Nat → Nat)
    (cm : Array Nat) : ∀ (ns : List Node) (acc : Array Nat),
    ns.foldlM (cmrStep jc) acc = some cm → wfFrom acc.size ns = true →
    (pruneList S ids (fun i => cm.getD i 0) acc.size ns).foldlM (cmrStep jc) acc = some cm := by
  intro ns
  induction ns with
  | nil => intro acc h _; simpa [pruneList] using h
  | cons nd rest ih =>
    intro acc h hwf
    simp only [List.foldlM_cons, Option.bind_eq_bind] at h
    cases hs : cmrStep jc acc nd with
    | none => simp [hs] at h
    | some acc' =>
      simp only [hs, Option.bind_some] at h
      obtain ⟨c, hc, rfl⟩ := cmrStep_some hs
      simp only [wfFrom, Bool.and_eq_true, List.all_eq_true, decide_eq_true_eq] at hwf
      have hpre := foldlM_cmrStep_prefix jc rest (acc.push c) cm h
      have hnode : cmrNode jc (fun i => acc.getD i 0)
          (pruneNode S (ids acc.size) (fun i => cm.getD i 0) nd) = some c := by
        rw [cmrNode_pruneNode' S _ jc _ _ nd ?_, hc]
        intro ch hch
        have hlt := hwf.1 ch hch
        show cm.getD ch 0 = acc.getD ch 0
        rw [hpre ch (by simp; omega), getD_push_lt _ _ hlt]
      have hstep : cmrStep jc acc (pruneNode S (ids acc.size) (fun i => cm.getD i 0) nd) = some (acc.push c) := by
        unfold cmrStep; rw [hnode]; rfl
      simp only [pruneList, List.foldlM_cons, Option.bind_eq_bind, hstep, Option.bind_some]
      have := ih (acc.push c) h (by simpa using hwf.2)
      simpa using this

theorem cmrs_prunePlan (jc : String → Option Nat) (S : List (Nat × Bool)) (ids : Nat → Nat)
    (p : Plan) (cm : Array Nat) (hwf : wf p = true) (h : cmrs jc p = some cm) :
    cmrs jc (prunePlan S ids (fun i => cm.getD i 0) p) = some cm := by
  rw [cmrs_eq_foldlM] at h ⊢
  have := foldlM_cmrStep_pruneList jc S ids cm p.toList #[] h (by simpa [wf] using hwf)
  simpa [prunePlan] using this

end Prog
