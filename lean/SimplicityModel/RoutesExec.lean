/-
C12 — `finalize_pruned` with its run *modelled* instead of supplied.

`Routes.routeP` takes the set of removed case branches (`Cut`) as a parameter.  Here that parameter
is computed by the model itself, as the code does it:

* `trackedRun`  the unpruned redemption program (`routeU`'s result: the plan, its inferred arrows and
                the converted witness values) is elaborated to the intrinsically typed term of the
                Bit Machine model (`Prog.elabNode`) and run on the unit input by the evaluator with the
                `SetTracker` record (`Prog.evalT`, labelled with the identity of the plan node each term
                node comes from).  `Props.C12` proves that this evaluator succeeds/fails exactly when
                the Bit Machine `BM4.execProgram` does, and that the machine cannot crash.
* `sidesOf`     the `Pruner::prune_case` table: of which case nodes the record contains exactly one side.
* `finalizePruned`  run failed ⇒ error; run succeeded ⇒ `routeP` with the cut `cutOf p (sidesOf …)`.

What stays a parameter is only what the run depends on besides the program (`RunEnv`): the identity
under which the tracker files a node (the IHR, a SHA-256 value — kept abstract in the proofs, computed
by `Prog.ihrs` in the driver), the commitment roots that `disconnect` feeds to its child, and the
jets of the environment (`JetSem`, from the calls recorded in the real run).
-/
import SimplicityModel.Routes
import SimplicityModel.PrunePlan

namespace Routes
open BM4 Prog

/-- the compact bits of the value a redemption program carries at witness node `i` -/
def witBits (r : Witnesses) (i : Nat) : Option (List Bool) :=
  (r.find? fun iv => iv.1 = i).map fun iv => compact iv.2

/-- what a run depends on besides the program -/
structure RunEnv where
  /-- the identity under which the tracker records plan node `i` (its IHR) -/
  ids : Nat → Nat
  /-- commitment roots (a `disconnect` node passes the root of its right child to its left child) -/
  cmr : Array Nat
  /-- the jets of the transaction environment -/
  jets : JetSem

/-- the unpruned redemption program as the input of elaboration -/
def envOf (p : Plan) (ar : Arrows) (r : Witnesses) (re : RunEnv) : Env :=
  { plan := p, arrows := ar, wit := witBits r, cmr := re.cmr, jets := re.jets }

inductive RunRes
  /-- the run succeeded; the tracker's record -/
  | ok (tr : Trace)
  /-- `ExecutionError`: an assertion, a `fail` node or a jet failed -/
  | failed (k : Fail)
  /-- the plan has no term (`finalize_pruned_run_defined`: impossible for a well-formed plan) -/
  | noTerm

/-- `BitMachine::for_program(&unpruned)` + `exec_with_tracker(&unpruned, env, &mut SetTracker)` -/
def trackedRun (p : Plan) (ar : Arrows) (r : Witnesses) (re : RunEnv) : RunRes :=
  match elabNode (envOf p ar r re) (p.size + 1) (p.size - 1) with
  | none => .noTerm
  | some ⟨_, _, t⟩ =>
    match evalT t (labOf p re.ids (p.size + 1) (p.size - 1)) .unit with
    | .ok (_, tr) => .ok tr
    | .error k => .failed k

/-- `Pruner::prune_case`: exactly the left side recorded ⇒ `assertl` (`some false`), exactly the
right side ⇒ `assertr` (`some true`), both or neither ⇒ the case node stays -/
def sidesOf (ids : Nat → Nat) (S : List (Nat × Bool)) (i : Nat) : Option Bool :=
  match decide ((ids i, false) ∈ S), decide ((ids i, true) ∈ S) with
  | true, false => some false
  | false, true => some true
  | _, _ => none

/-- `finalize_pruned(env)`: `finalize_unpruned`, the run, and — when it succeeds — pruning by its record -/
def finalizePruned (jt : JetTypes) (leak : Bool) (p : Plan) (program : Bool) (cand : Nat → Option Val)
    (re : RunEnv) : Outcome :=
  match routeU jt p program cand with
  | .ok ar r =>
    match trackedRun p ar r re with
    | .ok tr => routeP jt leak p program cand (cutOf p (sidesOf re.ids tr.sides))
    | .failed _ => .err
    | .noTerm => .illTyped
  | o => o

/-- the case sides the tracker of the modelled run recorded (`none`: no program, or the run failed) -/
def runSides (jt : JetTypes) (p : Plan) (program : Bool) (cand : Nat → Option Val) (re : RunEnv) :
    Option (List (Nat × Bool)) :=
  match routeU jt p program cand with
  | .ok ar r =>
    match trackedRun p ar r re with
    | .ok tr => some tr.sides
    | _ => none
  | _ => none

/-! ### well-formed plans: what the plan parser and the library's constructors guarantee -/

/-- the shape conditions on a single node: a `disconnect` has its right child, a word node has
`2^n` bits -/
def shapeOK : Node → Bool
  | .disconnect _ none => false
  | .word n bits => bits.length == 2 ^ n
  | _ => true

/-- children are earlier nodes; no wire-only node (`hidden`, a `disconnect` without right child);
a word node has `2^n` bits -/
def nodeOK (i : Nat) (nd : Node) : Bool :=
  nd.children.all (· < i) &&
    match nd with
    | .hidden _ => false
    | .disconnect _ none => false
    | .word n bits => bits.length == 2 ^ n
    | _ => true

def planOKFrom : Nat → List Node → Bool
  | _, [] => true
  | i, nd :: rest => nodeOK i nd && planOKFrom (i + 1) rest

def planOK (p : Plan) : Bool := p.size != 0 && planOKFrom 0 p.toList

end Routes
