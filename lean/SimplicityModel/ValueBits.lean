/-
C10 / C11 — bit-level layer.  A value is a *view* `(type, padded bits)`; the padding bits are
whatever the history of the value left there (constructors write zeros, decoders and the Bit
Machine copy what they were given).  This file has the operations of `src/value.rs` on such views
and the theorems that connect them with the abstract layer of `Value.lean` (`Val`, `Enc`, `compact`,
`strip`, `prune`).  The byte-buffer layer (`ValueBuf.lean`) refines every operation here.
-/
import SimplicityModel.Value

namespace Vl

/-! ### types: padding flag, abbreviations -/

/-- `Final::has_padding` -/
def Ty.hasPadding : Ty → Bool
  | .one => false
  | .sum a b => a.hasPadding || b.hasPadding || a.bw != b.bw
  | .prod a b => a.hasPadding || b.hasPadding

def Ty.size : Ty → Nat
  | .one => 1
  | .sum a b => 1 + a.size + b.size
  | .prod a b => 1 + a.size + b.size

/-- `2^(2^n)` -/
def Ty.word : Nat → Ty
  | 0 => .sum .one .one
  | n + 1 => .prod (Ty.word n) (Ty.word n)

theorem Ty.word_bw : ∀ n, (Ty.word n).bw = 2 ^ n
  | 0 => rfl
  | n + 1 => by simp [Ty.word, Ty.bw, Ty.word_bw n, Nat.pow_succ]; omega

theorem Ty.word_hasPadding : ∀ n, (Ty.word n).hasPadding = false
  | 0 => rfl
  | n + 1 => by simp [Ty.word, Ty.hasPadding, Ty.word_hasPadding n]

/-! ### more about the abstract layer -/

theorem Enc.hasTy {t v bs} (h : Enc t v bs) : HasTy v t := by
  induction h with
  | unit => exact .unit
  | inl _ _ ih => exact .inl ih
  | inr _ _ ih => exact .inr ih
  | pair _ _ ih1 ih2 => exact .pair ih1 ih2

/-- an encoding denotes one element only -/
theorem Enc.unique {t v w bs} (h : Enc t v bs) (h' : Enc t w bs) : v = w := by
  have a := decPadded_enc h []
  have b := decPadded_enc h' []
  rw [a] at b; cases b; rfl

/-- every bit string of the type's width is the padded encoding of some element -/
theorem enc_of_length : ∀ (t : Ty) (bs : List Bool), bs.length = t.bw → ∃ v, Enc t v bs
  | .one, bs, h => by
    have : bs = [] := List.eq_nil_of_length_eq_zero h
    subst this; exact ⟨.unit, .unit⟩
  | .sum a b, [], h => by simp [Ty.bw] at h; omega
  | .sum a b, false :: bs, h => by
    have hl : bs.length = max a.bw b.bw := by simp [Ty.bw] at h; omega
    obtain ⟨v, hv⟩ := enc_of_length a (bs.drop (padL a b)) (by simp [hl, padL]; omega)
    refine ⟨.inl v, ?_⟩
    have := Enc.inl (b := b) (pad := bs.take (padL a b)) hv (by simp [hl, padL])
    simpa using this
  | .sum a b, true :: bs, h => by
    have hl : bs.length = max a.bw b.bw := by simp [Ty.bw] at h; omega
    obtain ⟨v, hv⟩ := enc_of_length b (bs.drop (padR a b)) (by simp [hl, padR]; omega)
    refine ⟨.inr v, ?_⟩
    have := Enc.inr (a := a) (pad := bs.take (padR a b)) hv (by simp [hl, padR])
    simpa using this
  | .prod a b, bs, h => by
    have hl : bs.length = a.bw + b.bw := by simpa [Ty.bw] using h
    obtain ⟨x, hx⟩ := enc_of_length a (bs.take a.bw) (by simp [hl])
    obtain ⟨y, hy⟩ := enc_of_length b (bs.drop a.bw) (by simp [hl])
    refine ⟨.pair x y, ?_⟩
    have := Enc.pair hx hy
    simpa using this

/-- a type of width zero has one element, and its compact encoding is empty -/
theorem compact_of_bw_zero {t v} (h : HasTy v t) (hz : t.bw = 0) : compact v = [] := by
  induction h with
  | unit => rfl
  | inl _ _ => simp [Ty.bw] at hz
  | inr _ _ => simp [Ty.bw] at hz
  | pair _ _ ih1 ih2 =>
    simp only [Ty.bw] at hz
    simp [compact, ih1 (by omega), ih2 (by omega)]

theorem hasPadding_false_compact {t v} (h : HasTy v t) (hp : t.hasPadding = false) :
    compact v = padded t v := by
  induction h with
  | unit => rfl
  | @inl v a b _ ih =>
    simp only [Ty.hasPadding, Bool.or_eq_false_iff, bne_eq_false_iff_eq] at hp
    simp [compact, padded, padL, ih hp.1.1, hp.2]
  | @inr v a b _ ih =>
    simp only [Ty.hasPadding, Bool.or_eq_false_iff, bne_eq_false_iff_eq] at hp
    simp [compact, padded, padR, ih hp.1.2, hp.2]
  | pair _ _ ih1 ih2 =>
    simp only [Ty.hasPadding, Bool.or_eq_false_iff] at hp
    simp [compact, padded, ih1 hp.1, ih2 hp.2]

/-- without padding there is one encoding -/
theorem enc_eq_padded_of_no_padding {t v bs} (h : Enc t v bs) (hp : t.hasPadding = false) :
    bs = padded t v := by
  induction h with
  | unit => rfl
  | @inl a b v bs pad _ hl ih =>
    simp only [Ty.hasPadding, Bool.or_eq_false_iff, bne_eq_false_iff_eq] at hp
    have : pad = [] := List.eq_nil_of_length_eq_zero (by rw [hl, padL, hp.2]; omega)
    subst this
    simp [padded, padL, hp.2, ← ih hp.1.1]
  | @inr a b v bs pad _ hl ih =>
    simp only [Ty.hasPadding, Bool.or_eq_false_iff, bne_eq_false_iff_eq] at hp
    have : pad = [] := List.eq_nil_of_length_eq_zero (by rw [hl, padR, hp.2]; omega)
    subst this
    simp [padded, padR, hp.2, ← ih hp.1.2]
  | pair _ _ ih1 ih2 =>
    simp only [Ty.hasPadding, Bool.or_eq_false_iff] at hp
    simp [padded, ← ih1 hp.1, ← ih2 hp.2]

/-! ### truncation: what pruning keeps -/

/-- `Trunc w v`: `w` is `v` with some sub-values replaced by the unit value — the same sum tags,
the same pairs, the same leaves wherever `w` still has them. -/
inductive Trunc : Val → Val → Prop
  | unit (v) : Trunc .unit v
  | inl {w v} : Trunc w v → Trunc (.inl w) (.inl v)
  | inr {w v} : Trunc w v → Trunc (.inr w) (.inr v)
  | pair {w1 w2 v1 v2} : Trunc w1 v1 → Trunc w2 v2 → Trunc (.pair w1 w2) (.pair v1 v2)

theorem Trunc.refl : ∀ v, Trunc v v
  | .unit => .unit _
  | .inl v => .inl (Trunc.refl v)
  | .inr v => .inr (Trunc.refl v)
  | .pair a b => .pair (Trunc.refl a) (Trunc.refl b)

theorem prune_trunc : ∀ (v : Val) (t : Ty) (w : Val), prune v t = some w → Trunc w v := by
  intro v
  induction v with
  | unit =>
    intro t w h
    cases t <;> simp [prune] at h
    subst h; exact .unit _
  | inl v ih =>
    intro t w h
    cases t with
    | one => simp [prune] at h; subst h; exact .unit _
    | sum a b =>
      simp only [prune, Option.map_eq_some_iff] at h
      obtain ⟨w', hw', rfl⟩ := h
      exact .inl (ih a w' hw')
    | prod a b => simp [prune] at h
  | inr v ih =>
    intro t w h
    cases t with
    | one => simp [prune] at h; subst h; exact .unit _
    | sum a b =>
      simp only [prune, Option.map_eq_some_iff] at h
      obtain ⟨w', hw', rfl⟩ := h
      exact .inr (ih b w' hw')
    | prod a b => simp [prune] at h
  | pair x y ihx ihy =>
    intro t w h
    cases t with
    | one => simp [prune] at h; subst h; exact .unit _
    | sum a b => simp [prune] at h
    | prod a b =>
      simp only [prune] at h
      cases hx : prune x a with
      | none => simp [hx] at h
      | some x' =>
        cases hy : prune y b with
        | none => simp [hx, hy] at h
        | some y' =>
          simp [hx, hy] at h; subst h
          exact .pair (ihx a x' hx) (ihy b y' hy)

/-- the truncation of `v` that has type `t`, if there is one, is what `prune` returns -/
theorem prune_of_trunc {w v} (h : Trunc w v) : ∀ {t}, HasTy w t → prune v t = some w := by
  induction h with
  | unit v => intro t ht; cases ht; cases v <;> rfl
  | inl _ ih => intro t ht; cases ht with | inl h' => simp [prune, ih h']
  | inr _ ih => intro t ht; cases ht with | inr h' => simp [prune, ih h']
  | pair _ _ ih1 ih2 => intro t ht; cases ht with | pair h1 h2 => simp [prune, ih1 h1, ih2 h2]

/-- **pruning, characterised**: `prune v t` is the truncation of `v` of type exactly `t`; it is
`none` exactly when no truncation of `v` has that type. -/
theorem prune_eq_some_iff (v : Val) (t : Ty) (w : Val) :
    prune v t = some w ↔ HasTy w t ∧ Trunc w v :=
  ⟨fun h => ⟨prune_hasTy v t w h, prune_trunc v t w h⟩, fun ⟨h1, h2⟩ => prune_of_trunc h2 h1⟩

theorem prune_eq_none_iff (v : Val) (t : Ty) :
    prune v t = none ↔ ¬ ∃ w, HasTy w t ∧ Trunc w v := by
  constructor
  · intro h ⟨w, hw⟩
    rw [(prune_eq_some_iff v t w).2 hw] at h; cases h
  · intro h
    cases hp : prune v t with
    | none => rfl
    | some w => exact absurd ⟨w, (prune_eq_some_iff v t w).1 hp⟩ h

/-! ### views -/

/-- a value as the code sees it, minus the buffer: its type and the `bit_width` bits of its
padded form, padding included -/
structure BV where
  ty : Ty
  bits : List Bool
deriving DecidableEq, Repr

namespace BV

/-- the view has exactly the bits of its type -/
def WF (v : BV) : Prop := v.bits.length = v.ty.bw

/-- the view denotes the abstract element `x` (with any padding content) -/
def Den (v : BV) (x : Val) : Prop := Enc v.ty x v.bits

/-- the element denoted, by the type-directed reading of the padded form -/
def abs (v : BV) : Option Val := (decPadded v.ty v.bits).map Prod.fst

theorem Den.wf {v x} (h : Den v x) : v.WF := Enc.length h
theorem Den.hasTy {v x} (h : Den v x) : HasTy x v.ty := Enc.hasTy h
theorem Den.abs {v x} (h : Den v x) : v.abs = some x := by
  have := decPadded_enc h []
  simp only [List.append_nil] at this
  simp [BV.abs, this]
theorem WF.den {v : BV} (h : v.WF) : ∃ x, v.Den x := enc_of_length v.ty v.bits h
theorem Den.unique {v x y} (h : Den v x) (h' : Den v y) : x = y := Enc.unique h h'
theorem den_iff {v x} : Den v x ↔ v.WF ∧ v.abs = some x := by
  constructor
  · intro h; exact ⟨h.wf, h.abs⟩
  · intro ⟨hw, ha⟩
    obtain ⟨y, hy⟩ := hw.den
    rw [hy.abs] at ha; cases ha; exact hy

/-! #### constructors (`Value::unit/left/right/product`) -/

def unit : BV := ⟨.one, []⟩
/-- tag 0, zero padding, the inner bits -/
def left (v : BV) (b : Ty) : BV := ⟨.sum v.ty b, false :: (List.replicate (padL v.ty b) false ++ v.bits)⟩
/-- tag 1, zero padding, the inner bits -/
def right (a : Ty) (v : BV) : BV := ⟨.sum a v.ty, true :: (List.replicate (padR a v.ty) false ++ v.bits)⟩
def product (l r : BV) : BV := ⟨.prod l.ty r.ty, l.bits ++ r.bits⟩
/-- `Value::zero` -/
def zero (t : Ty) : BV := ⟨t, List.replicate t.bw false⟩

/-! #### accessors (`ValueRef::as_left/as_right/as_product`) -/

def asLeft (v : BV) : Option BV :=
  match v.ty, v.bits with
  | .sum a b, false :: rest => some ⟨a, rest.drop (padL a b)⟩
  | _, _ => none

def asRight (v : BV) : Option BV :=
  match v.ty, v.bits with
  | .sum a b, true :: rest => some ⟨b, rest.drop (padR a b)⟩
  | _, _ => none

def asProduct (v : BV) : Option (BV × BV) :=
  match v.ty with
  | .prod a b => some (⟨a, v.bits.take a.bw⟩, ⟨b, v.bits.drop a.bw⟩)
  | _ => none

/-! #### encodings -/

def iterPadded (v : BV) : List Bool := v.bits
/-- the compact form: the padded form with all sum padding removed -/
def iterCompact (v : BV) : List Bool := strip v.ty v.bits

/-! #### decoders -/

/-- `Value::from_padded_bits`: take `bit_width` bits as they come -/
def fromPadded (t : Ty) (inp : List Bool) : Option (BV × List Bool) :=
  if inp.length < t.bw then none else some (⟨t, inp.take t.bw⟩, inp.drop t.bw)

/-- `Value::from_compact_bits`: types without padding are read in one go (the fast path);
otherwise a tag bit, the chosen side, and the constructor, which writes zero padding -/
def fromCompact : Ty → List Bool → Option (BV × List Bool)
  | .one, inp => fromPadded .one inp
  | .sum a b, inp =>
    if (Ty.sum a b).hasPadding = false then fromPadded (.sum a b) inp else
    match inp with
    | [] => none
    | false :: r => (fromCompact a r).map fun (v, r') => (v.left b, r')
    | true :: r => (fromCompact b r).map fun (v, r') => (BV.right a v, r')
  | .prod a b, inp =>
    if (Ty.prod a b).hasPadding = false then fromPadded (.prod a b) inp else
    match fromCompact a inp with
    | none => none
    | some (x, r) => (fromCompact b r).map fun (y, r') => (x.product y, r')

/-! #### prune -/

/-- `Value::prune`: a value that already has the target type is returned as it is (padding
included); otherwise the target's shape is followed, reading the value's own tags -/
def prune : Ty → BV → Option BV
  | .one, v => if v.ty = .one then some v else some unit
  | .sum a b, v =>
    if v.ty = .sum a b then some v else
    match v.asLeft with
    | some l => (prune a l).map fun w => w.left b
    | none =>
      match v.asRight with
      | some r => (prune b r).map fun w => BV.right a w
      | none => none
  | .prod a b, v =>
    if v.ty = .prod a b then some v else
    match v.asProduct with
    | none => none
    | some (l, r) =>
      match prune a l, prune b r with
      | some x, some y => some (x.product y)
      | _, _ => none

/-! ### theorems: constructors -/

theorem den_unit : unit.Den .unit := Enc.unit
theorem den_left {v x} (h : Den v x) (b : Ty) : (v.left b).Den (.inl x) :=
  Enc.inl h (by simp)
theorem den_right {v x} (a : Ty) (h : Den v x) : (BV.right a v).Den (.inr x) :=
  Enc.inr h (by simp)
theorem den_product {l r x y} (hl : Den l x) (hr : Den r y) : (l.product r).Den (.pair x y) :=
  Enc.pair hl hr

@[simp] theorem left_ty (v : BV) (b : Ty) : (v.left b).ty = .sum v.ty b := rfl
@[simp] theorem right_ty (a : Ty) (v : BV) : (BV.right a v).ty = .sum a v.ty := rfl
@[simp] theorem product_ty (l r : BV) : (l.product r).ty = .prod l.ty r.ty := rfl

/-! ### theorems: accessors undo constructors (bit for bit) -/

theorem asLeft_left (v : BV) (b : Ty) : (v.left b).asLeft = some v := by
  cases v; simp [left, asLeft]
theorem asRight_left (v : BV) (b : Ty) : (v.left b).asRight = none := by
  simp [left, asRight]
theorem asProduct_left (v : BV) (b : Ty) : (v.left b).asProduct = none := by
  simp [left, asProduct]
theorem asRight_right (a : Ty) (v : BV) : (BV.right a v).asRight = some v := by
  cases v; simp [right, asRight]
theorem asLeft_right (a : Ty) (v : BV) : (BV.right a v).asLeft = none := by
  simp [right, asLeft]
theorem asProduct_right (a : Ty) (v : BV) : (BV.right a v).asProduct = none := by
  simp [right, asProduct]
theorem asProduct_product (l r : BV) (hl : l.WF) : (l.product r).asProduct = some (l, r) := by
  cases l; cases r
  simp only [WF] at hl
  simp [product, asProduct, ← hl]
theorem asLeft_product (l r : BV) : (l.product r).asLeft = none := by
  simp [product, asLeft]
theorem asRight_product (l r : BV) : (l.product r).asRight = none := by
  simp [product, asRight]
theorem asLeft_unit : unit.asLeft = none := rfl
theorem asRight_unit : unit.asRight = none := rfl
theorem asProduct_unit : unit.asProduct = none := rfl

/-! ### theorems: accessors on any value, however it was obtained -/

theorem den_inl_inv {v x} (h : Den v (.inl x)) :
    ∃ l, v.asLeft = some l ∧ l.Den x ∧ v.asRight = none ∧ v.asProduct = none := by
  obtain ⟨t, bs⟩ := v
  simp only [Den] at h
  cases h with
  | @inl a b _ bs' pad h' hp =>
    refine ⟨⟨a, bs'⟩, ?_, h', ?_, ?_⟩
    · simp [asLeft, ← hp]
    · simp [asRight]
    · simp [asProduct]

theorem den_inr_inv {v x} (h : Den v (.inr x)) :
    ∃ r, v.asRight = some r ∧ r.Den x ∧ v.asLeft = none ∧ v.asProduct = none := by
  obtain ⟨t, bs⟩ := v
  simp only [Den] at h
  cases h with
  | @inr a b _ bs' pad h' hp =>
    refine ⟨⟨b, bs'⟩, ?_, h', ?_, ?_⟩
    · simp [asRight, ← hp]
    · simp [asLeft]
    · simp [asProduct]

theorem den_pair_inv {v x y} (h : Den v (.pair x y)) :
    ∃ l r, v.asProduct = some (l, r) ∧ l.Den x ∧ r.Den y ∧ v.asLeft = none ∧ v.asRight = none := by
  obtain ⟨t, bs⟩ := v
  simp only [Den] at h
  cases h with
  | @pair a b _ _ bx by' h1 h2 =>
    have hl := h1.length
    refine ⟨⟨a, bx⟩, ⟨b, by'⟩, ?_, h1, h2, ?_, ?_⟩
    · simp [asProduct, ← hl]
    · simp [asLeft]
    · simp [asRight]

theorem den_unit_inv {v} (h : Den v .unit) :
    v.ty = .one ∧ v.asLeft = none ∧ v.asRight = none ∧ v.asProduct = none := by
  obtain ⟨t, bs⟩ := v
  simp only [Den] at h
  cases h
  exact ⟨rfl, rfl, rfl, rfl⟩

/-- sub-values of a well-formed view are well-formed views -/
theorem asLeft_wf {v l : BV} (hv : v.WF) (h : v.asLeft = some l) : l.WF := by
  obtain ⟨x, hx⟩ := hv.den
  cases x with
  | inl x => obtain ⟨l', h1, h2, _⟩ := den_inl_inv hx; rw [h1] at h; cases h; exact h2.wf
  | inr x => obtain ⟨_, _, _, h3, _⟩ := den_inr_inv hx; rw [h3] at h; cases h
  | pair x y => obtain ⟨_, _, _, _, _, h3, _⟩ := den_pair_inv hx; rw [h3] at h; cases h
  | unit => rw [(den_unit_inv hx).2.1] at h; cases h

theorem asRight_wf {v r : BV} (hv : v.WF) (h : v.asRight = some r) : r.WF := by
  obtain ⟨x, hx⟩ := hv.den
  cases x with
  | inr x => obtain ⟨l', h1, h2, _⟩ := den_inr_inv hx; rw [h1] at h; cases h; exact h2.wf
  | inl x => obtain ⟨_, _, _, h3, _⟩ := den_inl_inv hx; rw [h3] at h; cases h
  | pair x y => obtain ⟨_, _, _, _, _, _, h3⟩ := den_pair_inv hx; rw [h3] at h; cases h
  | unit => rw [(den_unit_inv hx).2.2.1] at h; cases h

theorem asProduct_wf {v l r : BV} (hv : v.WF) (h : v.asProduct = some (l, r)) : l.WF ∧ r.WF := by
  obtain ⟨x, hx⟩ := hv.den
  cases x with
  | pair x y =>
    obtain ⟨l', r', h1, h2, h3, _⟩ := den_pair_inv hx
    rw [h1] at h; cases h; exact ⟨h2.wf, h3.wf⟩
  | inl x => obtain ⟨_, _, _, _, h3⟩ := den_inl_inv hx; rw [h3] at h; cases h
  | inr x => obtain ⟨_, _, _, _, h3⟩ := den_inr_inv hx; rw [h3] at h; cases h
  | unit => rw [(den_unit_inv hx).2.2.2] at h; cases h

/-! ### theorems: encodings -/

/-- the padded form has exactly the width of the type -/
theorem iterPadded_length {v x} (h : Den v x) : v.iterPadded.length = v.ty.bw := h.wf

/-- the compact form is the compact encoding of the element denoted; by definition it is the
padded form with the sum padding removed (`strip`) -/
theorem iterCompact_den {v x} (h : Den v x) : v.iterCompact = compact x := strip_enc h

/-! ### theorems: decoders -/

theorem fromPadded_wf {v : BV} (h : v.WF) (rest : List Bool) :
    fromPadded v.ty (v.bits ++ rest) = some (v, rest) := by
  obtain ⟨t, bs⟩ := v
  simp only [WF] at h
  simp [fromPadded, ← h]

theorem fromPadded_enc {t x bs} (h : Enc t x bs) (rest : List Bool) :
    ∃ v, fromPadded t (bs ++ rest) = some (v, rest) ∧ v.ty = t ∧ v.Den x ∧ v.bits = bs :=
  ⟨⟨t, bs⟩, fromPadded_wf (v := ⟨t, bs⟩) h.length rest, rfl, h, rfl⟩

theorem fromPadded_none {t inp} : fromPadded t inp = none ↔ inp.length < t.bw := by
  simp [fromPadded]

theorem fromPadded_some {t inp v r} (h : fromPadded t inp = some (v, r)) :
    v.ty = t ∧ v.WF ∧ inp = v.bits ++ r := by
  simp only [fromPadded] at h
  split at h
  · cases h
  · cases h
    refine ⟨rfl, ?_, by simp⟩
    simp [WF]; omega

theorem fromCompact_compact {t x} (h : HasTy x t) (rest : List Bool) :
    ∃ v, fromCompact t (compact x ++ rest) = some (v, rest) ∧ v.ty = t ∧ v.Den x := by
  induction h generalizing rest with
  | unit => exact ⟨⟨.one, []⟩, by simp [fromCompact, fromPadded, compact, Ty.bw], rfl, Enc.unit⟩
  | @inl v a b hv ih =>
    by_cases hp : (Ty.sum a b).hasPadding = false
    · have e := hasPadding_false_compact (HasTy.inl (b := b) hv) hp
      obtain ⟨w, h1, h2, h3, _⟩ := fromPadded_enc (enc_padded (HasTy.inl (b := b) hv)) rest
      exact ⟨w, by simp only [fromCompact, hp, if_true, e, h1], h2, h3⟩
    · obtain ⟨w, h1, h2, h3⟩ := ih rest
      have hp' : (Ty.sum a b).hasPadding = true := by simpa using hp
      refine ⟨w.left b, ?_, by simp [h2], den_left h3 b⟩
      simp [fromCompact, hp', compact, h1]
  | @inr v a b hv ih =>
    by_cases hp : (Ty.sum a b).hasPadding = false
    · have e := hasPadding_false_compact (HasTy.inr (a := a) hv) hp
      obtain ⟨w, h1, h2, h3, _⟩ := fromPadded_enc (enc_padded (HasTy.inr (a := a) hv)) rest
      exact ⟨w, by simp only [fromCompact, hp, if_true, e, h1], h2, h3⟩
    · obtain ⟨w, h1, h2, h3⟩ := ih rest
      have hp' : (Ty.sum a b).hasPadding = true := by simpa using hp
      refine ⟨BV.right a w, ?_, by simp [h2], den_right a h3⟩
      simp [fromCompact, hp', compact, h1]
  | @pair x y a b hx hy ih1 ih2 =>
    by_cases hp : (Ty.prod a b).hasPadding = false
    · have e := hasPadding_false_compact (HasTy.pair hx hy) hp
      obtain ⟨w, h1, h2, h3, _⟩ := fromPadded_enc (enc_padded (HasTy.pair hx hy)) rest
      exact ⟨w, by simp only [fromCompact, hp, if_true, e, h1], h2, h3⟩
    · obtain ⟨w1, h1, h2, h3⟩ := ih1 (compact y ++ rest)
      obtain ⟨w2, k1, k2, k3⟩ := ih2 rest
      have hp' : (Ty.prod a b).hasPadding = true := by simpa using hp
      refine ⟨w1.product w2, ?_, by simp [h2, k2], den_product h3 k3⟩
      simp [fromCompact, hp', compact, h1, k1]

/-- whatever the compact decoder accepts is the compact encoding of the element it returns,
followed by exactly the rest; too short an input is an error, never a shorter value -/
theorem fromCompact_some : ∀ (t : Ty) (inp : List Bool) (v : BV) (r : List Bool),
    fromCompact t inp = some (v, r) → v.ty = t ∧ ∃ x, v.Den x ∧ inp = compact x ++ r
  | .one, inp, v, r, h => by
    obtain ⟨h1, h2, h3⟩ := fromPadded_some (by simpa [fromCompact] using h)
    obtain ⟨x, hx⟩ := h2.den
    refine ⟨h1, x, hx, ?_⟩
    rw [h3, ← iterCompact_den hx, iterCompact, h1]; simp [strip, WF, h1, Ty.bw] at h2 ⊢; simp [h2]
  | .sum a b, inp, v, r, h => by
    by_cases hp : (Ty.sum a b).hasPadding = false
    · simp only [fromCompact, hp, if_true] at h
      obtain ⟨h1, h2, h3⟩ := fromPadded_some h
      obtain ⟨x, hx⟩ := h2.den
      refine ⟨h1, x, hx, ?_⟩
      have hx' : Enc (.sum a b) x v.bits := by simpa [Den, h1] using hx
      rw [h3, hasPadding_false_compact hx'.hasTy hp, ← enc_eq_padded_of_no_padding hx' hp]
    · have hp' : (Ty.sum a b).hasPadding = true := by simpa using hp
      cases inp with
      | nil => simp [fromCompact, hp'] at h
      | cons c inp' =>
        cases c with
        | false =>
          simp only [fromCompact, hp', Bool.true_eq_false, if_false, Option.map_eq_some_iff] at h
          obtain ⟨⟨w, r'⟩, h1, h2⟩ := h
          cases h2
          obtain ⟨e, x, hx, hi⟩ := fromCompact_some a inp' w r' h1
          exact ⟨by simp [e], .inl x, den_left hx b, by simp [compact, hi]⟩
        | true =>
          simp only [fromCompact, hp', Bool.true_eq_false, if_false, Option.map_eq_some_iff] at h
          obtain ⟨⟨w, r'⟩, h1, h2⟩ := h
          cases h2
          obtain ⟨e, x, hx, hi⟩ := fromCompact_some b inp' w r' h1
          exact ⟨by simp [e], .inr x, den_right a hx, by simp [compact, hi]⟩
  | .prod a b, inp, v, r, h => by
    by_cases hp : (Ty.prod a b).hasPadding = false
    · simp only [fromCompact, hp, if_true] at h
      obtain ⟨h1, h2, h3⟩ := fromPadded_some h
      obtain ⟨x, hx⟩ := h2.den
      refine ⟨h1, x, hx, ?_⟩
      have hx' : Enc (.prod a b) x v.bits := by simpa [Den, h1] using hx
      rw [h3, hasPadding_false_compact hx'.hasTy hp, ← enc_eq_padded_of_no_padding hx' hp]
    · have hp' : (Ty.prod a b).hasPadding = true := by simpa using hp
      simp only [fromCompact, hp', Bool.true_eq_false, if_false] at h
      cases h1 : fromCompact a inp with
      | none => simp [h1] at h
      | some p =>
        obtain ⟨w1, r1⟩ := p
        rw [h1] at h
        simp only [Option.map_eq_some_iff] at h
        obtain ⟨⟨w2, r2⟩, h2, h3⟩ := h
        cases h3
        obtain ⟨e1, x, hx, hi1⟩ := fromCompact_some a inp w1 r1 h1
        obtain ⟨e2, y, hy, hi2⟩ := fromCompact_some b r1 w2 r2 h2
        exact ⟨by simp [e1, e2], .pair x y, den_product hx hy, by simp [compact, hi1, hi2]⟩

/-! ### theorems: prune -/

/-- the bit-level prune computes the abstract prune of the element denoted: it fails exactly
when the abstract one does, and otherwise returns a view of exactly the target type that
denotes the abstract result -/
theorem prune_den : ∀ (t : Ty) (v : BV) (x : Val), v.Den x →
    (prune t v = none ∧ Vl.prune x t = none) ∨
    (∃ w y, prune t v = some w ∧ Vl.prune x t = some y ∧ w.ty = t ∧ w.Den y)
  | .one, v, x, h => by
    right
    by_cases e : v.ty = .one
    · refine ⟨v, .unit, by simp [prune, e], by cases x <;> rfl, e, ?_⟩
      have := h.hasTy; rw [e] at this; cases this; exact h
    · exact ⟨unit, .unit, by simp [prune, e], by cases x <;> rfl, rfl, den_unit⟩
  | .sum a b, v, x, h => by
    by_cases e : v.ty = .sum a b
    · right
      exact ⟨v, x, by simp [prune, e], prune_self (e ▸ h.hasTy), e, h⟩
    · simp only [prune, e, if_false]
      cases x with
      | inl x =>
        obtain ⟨l, h1, h2, _⟩ := den_inl_inv h
        rcases prune_den a l x h2 with ⟨p1, p2⟩ | ⟨w, y, p1, p2, p3, p4⟩
        · left; simp [h1, p1, Vl.prune, p2]
        · right
          exact ⟨w.left b, .inl y, by simp [h1, p1], by simp [Vl.prune, p2], by simp [p3], den_left p4 b⟩
      | inr x =>
        obtain ⟨r, h1, h2, h3, _⟩ := den_inr_inv h
        rcases prune_den b r x h2 with ⟨p1, p2⟩ | ⟨w, y, p1, p2, p3, p4⟩
        · left; simp [h1, h3, p1, Vl.prune, p2]
        · right
          exact ⟨BV.right a w, .inr y, by simp [h1, h3, p1], by simp [Vl.prune, p2], by simp [p3],
            den_right a p4⟩
      | pair x y =>
        obtain ⟨_, _, _, _, _, h3, h4⟩ := den_pair_inv h
        left; simp [h3, h4, Vl.prune]
      | unit =>
        obtain ⟨_, h3, h4, _⟩ := den_unit_inv h
        left; simp [h3, h4, Vl.prune]
  | .prod a b, v, x, h => by
    by_cases e : v.ty = .prod a b
    · right
      exact ⟨v, x, by simp [prune, e], prune_self (e ▸ h.hasTy), e, h⟩
    · simp only [prune, e, if_false]
      cases x with
      | pair x y =>
        obtain ⟨l, r, h1, h2, h3, _⟩ := den_pair_inv h
        rcases prune_den a l x h2 with ⟨p1, p2⟩ | ⟨w1, y1, p1, p2, p3, p4⟩
        · left; simp [h1, p1, Vl.prune, p2]
        · rcases prune_den b r y h3 with ⟨q1, q2⟩ | ⟨w2, y2, q1, q2, q3, q4⟩
          · left; simp [h1, p1, q1, Vl.prune, p2, q2]
          · right
            exact ⟨w1.product w2, .pair y1 y2, by simp [h1, p1, q1], by simp [Vl.prune, p2, q2],
              by simp [p3, q3], den_product p4 q4⟩
      | inl x =>
        obtain ⟨_, _, _, _, h3⟩ := den_inl_inv h
        left; simp [h3, Vl.prune]
      | inr x =>
        obtain ⟨_, _, _, _, h3⟩ := den_inr_inv h
        left; simp [h3, Vl.prune]
      | unit =>
        obtain ⟨_, _, _, h3⟩ := den_unit_inv h
        left; simp [h3, Vl.prune]

end BV
end Vl
