/-
C16 — lock-time answers of an environment with one input: what the jets `check_lock_height` and
`broken_do_not_use_check_lock_distance` accept (C: `lockHeight`, `obsolete_lockDistance` of
`elements/elementsJets.c`, `elements/env.c`), and the answers of the library's helper satisfiers
`(ctx, LockTime)` / `(ctx, Sequence)` of `src/policy/satisfy.rs`.
-/
import SimplicityModel.PolicySat

namespace Pol

/-- transaction lock time (consensus `u32`), sequence of the one input, transaction version -/
structure Env where
  lockTime : Nat
  seq : Nat
  version : Nat

namespace Env
/-- `tx->isFinal`: every input has sequence `0xffffffff` -/
def isFinal (e : Env) : Bool := e.seq == 0xffffffff
/-- `lockHeight(tx)` -/
def lockHeight (e : Env) : Nat := if !e.isFinal && decide (e.lockTime < 500000000) then e.lockTime else 0
/-- relative lock enabled (bit 31 clear) and counted in blocks (bit 22 clear) -/
def relBlocks (e : Env) : Bool := decide (e.seq < 0x80000000) && (e.seq / 0x400000) % 2 == 0
/-- `obsolete_lockDistance(tx)` -/
def lockDistance (e : Env) : Nat := if decide (2 ≤ e.version) && e.relBlocks then e.seq % 0x10000 else 0

/-- the jets' verdicts -/
def jetAfter (e : Env) (n : Nat) : Bool := decide (n ≤ e.lockHeight)
def jetOlder (e : Env) (n : Nat) : Bool := decide (n ≤ e.lockDistance)

/-- `Satisfier for (ctx, LockTime)::check_after(Blocks(n))` on the transaction's lock time, guarded by
"the sequence is not final" (the helper itself compares heights only) -/
def helperAfter (e : Env) (n : Nat) : Bool :=
  !e.isFinal && (decide (e.lockTime < 500000000) && decide (n ≤ e.lockTime))
/-- `Satisfier for (ctx, Sequence)::check_older(Sequence(n))`, `n : u16`, on the input's sequence,
guarded by "version ≥ 2" -/
def helperOlder (e : Env) (n : Nat) : Bool :=
  decide (2 ≤ e.version) && (e.relBlocks && decide (n ≤ e.seq % 0x10000))

/-- the guarded helpers never claim a lock time the jets refuse -/
theorem helperAfter_sound (e : Env) (n : Nat) (h : e.helperAfter n = true) : e.jetAfter n = true := by
  simp only [helperAfter, Bool.and_eq_true, decide_eq_true_eq] at h
  simp [jetAfter, lockHeight, h.1, h.2.1, h.2.2]
theorem helperOlder_sound (e : Env) (n : Nat) (h : e.helperOlder n = true) : e.jetOlder n = true := by
  simp only [helperOlder, Bool.and_eq_true, decide_eq_true_eq] at h
  simp [jetOlder, lockDistance, h.1, h.2.1, h.2.2]
end Env

/-- the answers of the two honest satisfiers the harness uses: `exact` = the jets' verdicts,
otherwise the guarded library helpers -/
def availOf (sigs pres : List Nat) (e : Env) (exact : Bool) : Avail where
  sig := fun x => sigs.contains x
  pre := fun x => pres.contains x
  after := fun n => if exact then e.jetAfter n else e.helperAfter n
  older := fun n => if exact then e.jetOlder n else e.helperOlder n

end Pol
