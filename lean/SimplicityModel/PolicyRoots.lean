/-
C16 — the two instances of the constructor algebra that `Policy::commit` and `Policy::cmr` use, over
the abstract compression function of `Cmr.lean`: real nodes (`Cmr.C`, the committed structure) and
roots only (`ConstructibleCmr`), and "root of" as a homomorphism between them.
-/
import SimplicityModel.Cmr
import SimplicityModel.PolicySatThm

namespace Pol

/-- what the root computation needs besides `Cmr.Params`: the roots of the jets and of the constant
words (both tabulated / computed elsewhere: `P.J`), and the two halves of a fail node's entropy -/
structure RootParams (P : Cmr.Params) where
  jet : Jet → P.J
  word : Nat → Nat → P.J
  ent : Nat → P.H × P.H

variable {P : Cmr.Params} (Q : RootParams P)

/-- real nodes: `ConstructNode`/`CommitNode` as far as the root sees them -/
def nodeAlg : Alg (Cmr.C P) P.H where
  iden := .leaf .iden
  unit := .leaf .unit
  witness := fun _ => .leaf .witness
  drop := fun x => .un .drop x
  comp := fun x y => .bin .comp x y
  pair := fun x y => .bin .pair x y
  case := fun x y => .bin .case x y
  assertl := fun x h => .bin .case x (.hidden h)
  assertr := fun h y => .bin .case (.hidden h) y
  fail := fun e => .fail (Q.ent e).1 (Q.ent e).2
  word := fun w v => .jet (Q.word w v)
  jet := fun j => .jet (Q.jet j)

/-- roots only: `ConstructibleCmr` (`Cmr::comp`, `Cmr::case`, …) -/
def cmrAlg : Alg P.H P.H where
  iden := Cmr.iv P (.l .iden)
  unit := Cmr.iv P (.l .unit)
  witness := fun _ => Cmr.iv P (.l .witness)
  drop := fun x => P.compress (Cmr.iv P (.u .drop)) (P.zero, x)
  comp := fun x y => P.compress (Cmr.iv P (.b .comp)) (x, y)
  pair := fun x y => P.compress (Cmr.iv P (.b .pair)) (x, y)
  case := fun x y => P.compress (Cmr.iv P (.b .case)) (x, y)
  assertl := fun x h => P.compress (Cmr.iv P (.b .case)) (x, h)
  assertr := fun h y => P.compress (Cmr.iv P (.b .case)) (h, y)
  fail := fun e => P.compress (Cmr.iv P .fail) ((Q.ent e).1, (Q.ent e).2)
  word := fun w v => P.jetCmr (Q.word w v)
  jet := fun j => P.jetCmr (Q.jet j)

/-- "root of" commutes with every constructor -/
theorem cmr_rootHom : RootHom (nodeAlg Q) (cmrAlg Q) (Cmr.cmr P) where
  iden := rfl
  unit := rfl
  witness := fun _ => rfl
  drop := fun _ => rfl
  comp := fun _ _ => rfl
  pair := fun _ _ => rfl
  case := fun _ _ => rfl
  fail := fun _ => rfl
  word := fun _ _ => rfl
  jet := fun _ => rfl
  assertl := fun _ _ => rfl
  assertr := fun _ _ => rfl
  witness_irrel := fun _ => rfl

/-- the satisfied program as a committed structure: a "hidden" result is a hidden node -/
def Hid.toC : Hid (Cmr.C P) P.H → Cmr.C P
  | .node n => n
  | .hidden h => .hidden h

theorem Hid.cmr_toC (x : Hid (Cmr.C P) P.H) : Cmr.cmr P x.toC = x.root (Cmr.cmr P) := by
  cases x <;> rfl

end Pol
