/-
Arithmetic, logic and comparison jets: their specified functions on naturals (the Simplicity
reference semantics of the core word jets), as functions from the compact input bits to the
compact output bits.  Words are flat (a `2^n`-bit word is its big-endian binary numeral), so a
jet's input is the concatenation of its word arguments.
-/
namespace JetSpec

def natOfBits (bs : List Bool) : Nat := bs.foldl (fun acc b => acc * 2 + (if b then 1 else 0)) 0

/-- `n` as a big-endian numeral of exactly `w` bits (truncated modulo `2^w`) -/
def bitsOfNat (w n : Nat) : List Bool := (List.range w).map fun i => (n >>> (w - 1 - i)) % 2 = 1

/-- split the input into fields of the given widths -/
def fields : List Nat → List Bool → Option (List Nat)
  | [], [] => some []
  | [], _ :: _ => none
  | w :: ws, bs =>
    if bs.length < w then none
    else (fields ws (bs.drop w)).map fun r => natOfBits (bs.take w) :: r

def b2n (b : Bool) : Nat := if b then 1 else 0

/-- specification of jet `base_n` on its input bits -/
def spec (base : String) (n : Nat) (inp : List Bool) : Option (List Bool) :=
  let m := 2 ^ n
  let un (f : Nat → List Bool) : Option (List Bool) := (fields [n] inp).bind fun | [a] => some (f a) | _ => none
  let bin (f : Nat → Nat → List Bool) : Option (List Bool) :=
    (fields [n, n] inp).bind fun | [a, b] => some (f a b) | _ => none
  let cbin (f : Nat → Nat → Nat → List Bool) : Option (List Bool) :=
    (fields [1, n, n] inp).bind fun | [c, a, b] => some (f c a b) | _ => none
  let cun (f : Nat → Nat → List Bool) : Option (List Bool) :=
    (fields [1, n] inp).bind fun | [c, a] => some (f c a) | _ => none
  let tern (f : Nat → Nat → Nat → List Bool) : Option (List Bool) :=
    (fields [n, n, n] inp).bind fun | [a, b, c] => some (f a b c) | _ => none
  let nul (v : Nat) : Option (List Bool) := if inp.isEmpty then some (bitsOfNat n v) else none
  match base with
  | "add" => bin fun a b => bitsOfNat (n + 1) (a + b)
  | "full_add" => cbin fun c a b => bitsOfNat (n + 1) (a + b + c)
  | "subtract" => bin fun a b => decide (a < b) :: bitsOfNat n (a + m - b)
  | "full_subtract" => cbin fun c a b => decide (a < b + c) :: bitsOfNat n (a + 2 * m - b - c)
  | "multiply" => bin fun a b => bitsOfNat (2 * n) (a * b)
  | "full_multiply" =>
    (fields [n, n, n, n] inp).bind fun | [a, b, c, d] => some (bitsOfNat (2 * n) (a * b + c + d)) | _ => none
  | "and" => bin fun a b => bitsOfNat n (a &&& b)
  | "or" => bin fun a b => bitsOfNat n (a ||| b)
  | "xor" => bin fun a b => bitsOfNat n (a ^^^ b)
  | "complement" => un fun a => bitsOfNat n (m - 1 - a)
  | "maj" => tern fun a b c => bitsOfNat n ((a &&& b) ||| (a &&& c) ||| (b &&& c))
  | "ch" => tern fun a b c => bitsOfNat n ((a &&& b) ||| ((m - 1 - a) &&& c))
  | "xor_xor" => tern fun a b c => bitsOfNat n (a ^^^ b ^^^ c)
  | "eq" => bin fun a b => [decide (a = b)]
  | "lt" => bin fun a b => [decide (a < b)]
  | "le" => bin fun a b => [decide (a ≤ b)]
  | "min" => bin fun a b => bitsOfNat n (min a b)
  | "max" => bin fun a b => bitsOfNat n (max a b)
  | "median" => tern fun a b c => bitsOfNat n (max (min a b) (min (max a b) c))
  | "increment" => un fun a => bitsOfNat (n + 1) (a + 1)
  | "full_increment" => cun fun c a => bitsOfNat (n + 1) (a + c)
  | "decrement" => un fun a => decide (a < 1) :: bitsOfNat n (a + m - 1)
  | "full_decrement" => cun fun c a => decide (a < c) :: bitsOfNat n (a + m - c)
  | "negate" => un fun a => decide (a ≠ 0) :: bitsOfNat n (m - a)
  | "is_zero" => un fun a => [decide (a = 0)]
  | "is_one" => un fun a => [decide (a = 1)]
  | "some" => un fun a => [decide (a ≠ 0)]
  | "all" => un fun a => [decide (a = m - 1)]
  | "low" => nul 0
  | "high" => nul (m - 1)
  | "one" => nul 1
  | "divide" => bin fun a b => bitsOfNat n (a / b)
  | "modulo" => bin fun a b => bitsOfNat n (a % b)
  | "div_mod" => bin fun a b => bitsOfNat n (a / b) ++ bitsOfNat n (a % b)
  | "divides" => bin fun a b => [decide (b % a = 0)]
  | _ => none

/-- `name` = `<base>_<n>` with `n ∈ {8, 16, 32, 64}` -/
def specByName (name : String) (inp : List Bool) : Option (List Bool) :=
  match (name.splitOn "_").reverse with
  | w :: rest =>
    match w.toNat? with
    | some n => if n = 8 ∨ n = 16 ∨ n = 32 ∨ n = 64 then spec ("_".intercalate rest.reverse) n inp else none
    | none => none
  | [] => none

/-! a few laws of the specifications themselves (they are what "specified function" means here) -/

theorem natOfBits_append_single (bs : List Bool) (b : Bool) :
    natOfBits (bs ++ [b]) = natOfBits bs * 2 + b2n b := by
  simp [natOfBits, List.foldl_append, b2n]

example : spec "add" 8 (bitsOfNat 8 200 ++ bitsOfNat 8 100) = some (bitsOfNat 9 300) := by decide
example : spec "subtract" 8 (bitsOfNat 8 5 ++ bitsOfNat 8 7) = some (true :: bitsOfNat 8 254) := by decide
example : spec "full_multiply" 8 (bitsOfNat 8 255 ++ bitsOfNat 8 255 ++ bitsOfNat 8 255 ++ bitsOfNat 8 255)
    = some (bitsOfNat 16 65535) := by decide
example : spec "divide" 8 (bitsOfNat 8 7 ++ bitsOfNat 8 0) = some (bitsOfNat 8 0) := by decide
example : spec "modulo" 8 (bitsOfNat 8 7 ++ bitsOfNat 8 0) = some (bitsOfNat 8 7) := by decide

end JetSpec
