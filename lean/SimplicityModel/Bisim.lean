import SimplicityModel.PostOrderProps
/-
Spike: the post-order walk commutes with DAG isomorphism: two handles related by a bisimulation that
respects the sharing keys are walked in lock step (same indices, same child indices).
-/
namespace PO
variable {K K' : Type} [DecidableEq K] [DecidableEq K'] (key : T → Option K) (key' : T → Option K')

structure Bisim (R : T → T → Prop) : Prop where
  shape : ∀ {t u}, R t u → (t.left = none ↔ u.left = none) ∧ (t.right = none ↔ u.right = none)
  left : ∀ {t u c c'}, R t u → t.left = some c → u.left = some c' → R c c'
  right : ∀ {t u c c'}, R t u → t.right = some c → u.right = some c' → R c c'
  /-- related nodes are in one class on one side iff on the other -/
  keys : ∀ {t u t' u'}, R t u → R t' u' →
    ((∃ k, key t = some k ∧ key t' = some k) ↔ (∃ k, key' u = some k ∧ key' u' = some k))

def SeenRel (R : T → T → Prop) (seen : Seen K) (seen' : Seen K') : Prop :=
  ∀ t u, R t u → seenBefore key seen t = seenBefore key' seen' u

/-- index data of an output, forgetting the handle -/
def Out.strip (o : Out) : Nat × Option Nat × Option Nat := (o.index, o.lidx, o.ridx)

/-- what lock-step means for two results -/
structure Step (R : T → T → Prop) (a : List Out × Seen K × Nat × Nat) (b : List Out × Seen K' × Nat × Nat) : Prop where
  outs : a.1.map Out.strip = b.1.map Out.strip
  nodes : ∀ (i : Nat) (o o' : Out), a.1[i]? = some o → b.1[i]? = some o' → R o.node o'.node
  idx : a.2.2.1 = b.2.2.1
  ci : a.2.2.2 = b.2.2.2
  seen : SeenRel key key' R a.2.1 b.2.1

theorem keyed_iff {R : T → T → Prop} (hb : Bisim key key' R) {t u : T} (h : R t u) :
    (key t = none ↔ key' u = none) := by
  have := hb.keys h h
  constructor
  · intro hn
    cases hk : key' u with
    | none => rfl
    | some k' =>
      obtain ⟨k, h1, _⟩ := this.2 ⟨k', hk, hk⟩
      rw [hn] at h1; cases h1
  · intro hn
    cases hk : key t with
    | none => rfl
    | some k =>
      obtain ⟨k', h1, _⟩ := this.1 ⟨k, hk, hk⟩
      rw [hn] at h1; cases h1

/-- the `fin` step in lock step -/
theorem fin_step {R : T → T → Prop} (hb : Bisim key key' R) {t u : T} (hR : R t u)
    (li ri : Option Nat) (sub : List Out) (sub' : List Out) (seen : Seen K) (seen' : Seen K') (idx : Nat)
    (hsub : sub.map Out.strip = sub'.map Out.strip)
    (hnodes : ∀ (i : Nat) (o o' : Out), sub[i]? = some o → sub'[i]? = some o' → R o.node o'.node)
    (hs : SeenRel key key' R seen seen') :
    Step key key' R (visit.fin key t li ri sub seen idx) (visit.fin key' u li ri sub' seen' idx) := by
  have hlen : sub.length = sub'.length := by
    have := congrArg List.length hsub; simpa using this
  have hsb := hs t u hR
  unfold visit.fin record
  cases hk : key t with
  | none =>
    have hk' := (keyed_iff key key' hb hR).1 hk
    simp only [hk']
    refine ⟨by simp [hsub, Out.strip], ?_, rfl, rfl, hs⟩
    intro i o o' ho ho'
    by_cases hi : i < sub.length
    · rw [List.getElem?_append_left hi] at ho
      rw [List.getElem?_append_left (by omega)] at ho'
      exact hnodes i o o' ho ho'
    · rw [List.getElem?_append_right (by omega)] at ho
      rw [List.getElem?_append_right (by omega)] at ho'
      rw [hlen] at ho
      cases hj : i - sub'.length with
      | zero => rw [hj] at ho ho'; simp at ho ho'; subst ho ho'; exact hR
      | succ n => rw [hj] at ho; simp at ho
  | some k =>
    cases hk' : key' u with
    | none => exact absurd ((keyed_iff key key' hb hR).2 hk') (by simp [hk])
    | some k' =>
      have hsk : seen k = seen' k' := by
        simpa [seenBefore, hk, hk'] using hsb
      simp only []
      cases hsv : seen k with
      | some i =>
        rw [hsk] at hsv
        simp only [hsv]
        exact ⟨hsub, hnodes, rfl, rfl, hs⟩
      | none =>
        rw [hsk] at hsv
        simp only [hsv]
        refine ⟨by simp [hsub, Out.strip], ?_, rfl, rfl, ?_⟩
        · intro i o o' ho ho'
          by_cases hi : i < sub.length
          · rw [List.getElem?_append_left hi] at ho
            rw [List.getElem?_append_left (by omega)] at ho'
            exact hnodes i o o' ho ho'
          · rw [List.getElem?_append_right (by omega)] at ho
            rw [List.getElem?_append_right (by omega)] at ho'
            rw [hlen] at ho
            cases hj : i - sub'.length with
            | zero => rw [hj] at ho ho'; simp at ho ho'; subst ho ho'; exact hR
            | succ n => rw [hj] at ho; simp at ho
        · intro t2 u2 hR2
          have h2 := hs t2 u2 hR2
          have hkk := hb.keys hR hR2
          unfold seenBefore at h2 ⊢
          cases hk2 : key t2 with
          | none =>
            have := (keyed_iff key key' hb hR2).1 hk2
            simp [this]
          | some k2 =>
            cases hk2' : key' u2 with
            | none => exact absurd ((keyed_iff key key' hb hR2).2 hk2') (by simp [hk2])
            | some k2' =>
              simp only [hk2, hk2', Option.bind] at h2 ⊢
              by_cases he : k2 = k
              · subst he
                obtain ⟨kk, h1, h3⟩ := hkk.1 ⟨k2, hk, hk2⟩
                rw [hk'] at h1; rw [hk2'] at h3
                cases h1; cases h3
                simp
              · have he' : k2' ≠ k' := by
                  intro e; subst e
                  obtain ⟨kk, h1, h3⟩ := hkk.2 ⟨k2', hk', hk2'⟩
                  rw [hk] at h1; rw [hk2] at h3
                  cases h1; cases h3; exact he rfl
                simp only [if_neg he, if_neg he']
                exact h2

theorem nodes_append {R : T → T → Prop} {a a' b b' : List Out}
    (hl : a.map Out.strip = a'.map Out.strip)
    (ha : ∀ (i : Nat) (o o' : Out), a[i]? = some o → a'[i]? = some o' → R o.node o'.node)
    (hbn : ∀ (i : Nat) (o o' : Out), b[i]? = some o → b'[i]? = some o' → R o.node o'.node) :
    ∀ (i : Nat) (o o' : Out), (a ++ b)[i]? = some o → (a' ++ b')[i]? = some o' → R o.node o'.node := by
  have hlen : a.length = a'.length := by have := congrArg List.length hl; simpa using this
  intro i o o' ho ho'
  by_cases hi : i < a.length
  · rw [List.getElem?_append_left hi] at ho
    rw [List.getElem?_append_left (by omega)] at ho'
    exact ha i o o' ho ho'
  · rw [List.getElem?_append_right (by omega)] at ho
    rw [List.getElem?_append_right (by omega)] at ho'
    rw [hlen] at ho
    exact hbn _ o o' ho ho'

/-- **the post-order walk commutes with key-respecting bisimulation** -/
theorem visit_bisim {R : T → T → Prop} (hb : Bisim key key' R) :
    ∀ (t u : T) (seen : Seen K) (seen' : Seen K') (idx : Nat), R t u → SeenRel key key' R seen seen' →
      Step key key' R (visit key t seen idx) (visit key' u seen' idx) := by
  intro t
  induction t with
  | leaf id =>
    intro u seen seen' idx hR hs
    have hsh := hb.shape hR
    cases u with
    | leaf id' => simp only [visit]; exact fin_step key key' hb hR none none [] [] seen seen' idx rfl (by simp) hs
    | un id' l' => have := hsh.1.1 rfl; simp [T.left] at this
    | bin id' l' r' => have := hsh.1.1 rfl; simp [T.left] at this
  | un id l ih =>
    intro u seen seen' idx hR hs
    have hsh := hb.shape hR
    cases u with
    | leaf id' => have := hsh.1.2 rfl; simp [T.left] at this
    | bin id' l' r' => have := hsh.2.1 rfl; simp [T.right] at this
    | un id' l' =>
      have hRl : R l l' := hb.left hR rfl rfl
      have hsl := hs l l' hRl
      simp only [visit]
      rw [← hsl]
      cases hq : seenBefore key seen l with
      | some i => exact fin_step key key' hb hR (some i) none [] [] seen seen' idx rfl (by simp) hs
      | none =>
        have st := ih l' seen seen' idx hRl hs
        simp only []
        rw [← st.ci, ← st.idx]
        exact fin_step key key' hb hR _ none _ _ _ _ _ st.outs st.nodes st.seen
  | bin id l r ihl ihr =>
    intro u seen seen' idx hR hs
    have hsh := hb.shape hR
    cases u with
    | leaf id' => have := hsh.1.2 rfl; simp [T.left] at this
    | un id' l' => have := hsh.2.2 rfl; simp [T.right] at this
    | bin id' l' r' =>
      have hRl : R l l' := hb.left hR rfl rfl
      have hRr : R r r' := hb.right hR rfl rfl
      have hsl := hs l l' hRl
      have hsr := hs r r' hRr
      simp only [visit]
      rw [← hsl, ← hsr]
      cases hql : seenBefore key seen l with
      | some li =>
        cases hqr : seenBefore key seen r with
        | some ri => exact fin_step key key' hb hR (some li) (some ri) [] [] seen seen' idx rfl (by simp) hs
        | none =>
          have st := ihr r' seen seen' idx hRr hs
          simp only []
          rw [← st.ci, ← st.idx]
          exact fin_step key key' hb hR _ _ _ _ _ _ _ st.outs st.nodes st.seen
      | none =>
        cases hqr : seenBefore key seen r with
        | some ri =>
          have st := ihl l' seen seen' idx hRl hs
          simp only []
          rw [← st.ci, ← st.idx]
          exact fin_step key key' hb hR _ _ _ _ _ _ _ st.outs st.nodes st.seen
        | none =>
          have sa := ihl l' seen seen' idx hRl hs
          simp only []
          rw [← sa.ci, ← sa.idx]
          have sb := ihr r' (visit key l seen idx).2.1 (visit key' l' seen' idx).2.1
            (visit key l seen idx).2.2.1 hRr sa.seen
          rw [← sb.ci, ← sb.idx]
          refine fin_step key key' hb hR _ _ _ _ _ _ _ ?_ ?_ sb.seen
          · rw [List.map_append, List.map_append, sa.outs, sb.outs]
          · exact nodes_append sa.outs sa.nodes sb.nodes

#print axioms visit_bisim
end PO
