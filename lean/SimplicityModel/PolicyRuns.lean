/-
C16 — the program returned by the satisfier runs successfully: leaves under an honest satisfier, the
selection of a threshold (exactly `k` distinct children, all of them satisfied), and the induction
over the policy.
-/
import SimplicityModel.PolicyEval

namespace Pol

/-! ### leaves -/

section leaves
variable (E : JetEnv) {H : Type}
local notation "S" => semAlg E H

theorem sem_witness (w : Option Val) (v : Val) : (S).witness w v = w := rfl

theorem eval_keyF (x : Nat) (s : Val) (h : E.verifyOk x s = true) :
    keyF S x (some s) .unit = some .unit := by
  simp [keyF, sem_comp, sem_pair, sem_word, sem_jet, sem_witness, E.sigAllHash, E.bip0340, h]

theorem eval_afterF (n : Nat) (h : n ≤ E.lockHeight) : afterF S n .unit = some .unit := by
  simp [afterF, sem_comp, sem_word, sem_jet, E.checkLockHeight, h]

theorem eval_olderF (n : Nat) (h : n ≤ E.lockDistance) : olderF S n .unit = some .unit := by
  simp [olderF, sem_comp, sem_word, sem_jet, E.checkLockDistance, h]

theorem eval_sha256F (x : Nat) (w : Val) (h : E.fin (E.add E.ctx0 w) = x) :
    sha256F S x (some w) .unit = some .unit := by
  simp [sha256F, verifyBexp, computeSha256, sem_comp, sem_pair, sem_word, sem_jet, sem_witness,
    E.sha256Init, E.sha256Add32, E.sha256Finalize, E.eq256, E.verify, h]
end leaves

/-- the satisfier is honest: what it hands out is true of the environment — its signatures verify,
its preimages hash to the images, the lock times it confirms are reached -/
structure Honest (E : JetEnv) (W : Secrets) (a : Avail) : Prop where
  sig : ∀ x, a.sig x = true → E.verifyOk x (W.sigVal x) = true
  pre : ∀ x, a.pre x = true → E.fin (E.add E.ctx0 (W.preVal x)) = x
  after : ∀ n, a.after n = true → n ≤ E.lockHeight
  older : ∀ n, a.older n = true → n ≤ E.lockDistance

theorem eval_leafF (E : JetEnv) {H : Type} (W : Secrets) (a : Avail) (hon : Honest E W a)
    (t x : Nat) (h : leafSat a t x = true) :
    leafF (semAlg E H) t x (leafWit W a t x) .unit = some .unit := by
  unfold leafSat at h
  unfold leafF leafWit
  by_cases h0 : t = 0
  · subst h0; simp at h
  by_cases h1 : t = 1
  · subst h1; rfl
  by_cases h2 : t = 2
  · subst h2
    simp only [show (2 : Nat) ≠ 1 by decide, if_false, if_true] at h
    simp only [show (2 : Nat) ≠ 0 by decide, if_false, if_true, h]
    exact eval_keyF E x _ (hon.sig x h)
  by_cases h3 : t = 3
  · subst h3
    simp only [show (3 : Nat) ≠ 1 by decide, show (3 : Nat) ≠ 2 by decide, if_false, if_true] at h
    simp only [show (3 : Nat) ≠ 0 by decide, show (3 : Nat) ≠ 2 by decide, if_false, if_true]
    exact eval_afterF E x (hon.after x h)
  by_cases h4 : t = 4
  · subst h4
    simp only [show (4 : Nat) ≠ 1 by decide, show (4 : Nat) ≠ 2 by decide, show (4 : Nat) ≠ 3 by decide,
      if_false, if_true] at h
    simp only [show (4 : Nat) ≠ 0 by decide, show (4 : Nat) ≠ 2 by decide, show (4 : Nat) ≠ 3 by decide,
      if_false, if_true]
    exact eval_olderF E x (hon.older x h)
  by_cases h5 : t = 5
  · subst h5
    simp only [show (5 : Nat) ≠ 1 by decide, show (5 : Nat) ≠ 2 by decide, show (5 : Nat) ≠ 3 by decide,
      show (5 : Nat) ≠ 4 by decide, if_false, if_true] at h
    simp only [show (5 : Nat) ≠ 0 by decide, show (5 : Nat) ≠ 2 by decide, show (5 : Nat) ≠ 3 by decide,
      show (5 : Nat) ≠ 4 by decide, if_false, if_true, h]
    exact eval_sha256F E x _ (hon.pre x h)
  · simp [h1, h2, h3, h4, h5] at h

theorem hom_orF {N M H : Type} {A : Alg N H} {B : Alg M H} {h : N → M} (hh : Hom A B h) (x y : N)
    (w : Option Val) : h (orF A x y w) = orF B (h x) (h y) w := by
  simp only [orF, selector, hh.comp, hh.pair, hh.case, hh.drop, hh.witness, hh.unit]

/-! ### the selection of a threshold -/

section selection
variable (k : Nat) (items : List Thresh.Item)

/-- `sort_by_key(|i| costs[i])` on (item, index) pairs -/
abbrev idxLe : Thresh.Item × Nat → Thresh.Item × Nat → Bool := fun a b => Thresh.le a.1 b.1
local notation "R" => idxLe

theorem sorted_fst :
    (items.zipIdx.mergeSort R).map (·.1) = items.mergeSort Thresh.le := by
  have := List.map_mergeSort (r := idxLe) (s := Thresh.le) (f := Prod.fst) (l := items.zipIdx)
    (fun a _ b _ => rfl)
  rw [List.zipIdx_map_fst] at this
  exact this

theorem selIdx_length : (selIdx k items).length = min k items.length := by
  simp [selIdx]

theorem selIdx_nodup : (selIdx k items).Nodup := by
  unfold selIdx
  rw [List.map_take]
  apply (List.take_sublist _ _).nodup
  have hp : ((items.zipIdx.mergeSort R).map (·.2)).Perm (items.zipIdx.map (·.2)) :=
    (List.mergeSort_perm _ _).map _
  rw [hp.nodup_iff]
  have : items.zipIdx.map (·.2) = List.range' 0 items.length := List.zipIdx_map_snd 0 items
  rw [this]
  exact List.nodup_range'

theorem selIdx_mem {i : Nat} (h : i ∈ selIdx k items) :
    ∃ x, (x, i) ∈ (items.zipIdx.mergeSort R).take k ∧ items[i]? = some x := by
  unfold selIdx at h
  rw [List.mem_map] at h
  obtain ⟨⟨x, j⟩, hp, hj⟩ := h
  simp only at hj
  subst hj
  refine ⟨x, hp, ?_⟩
  have h1 := List.mem_of_mem_take hp
  rw [List.mem_mergeSort] at h1
  exact List.mem_zipIdx_iff_getElem?.1 h1

theorem selIdx_lt {i : Nat} (h : i ∈ selIdx k items) : i < items.length := by
  obtain ⟨x, _, hx⟩ := selIdx_mem k items h
  exact (List.getElem?_eq_some_iff.1 hx).1

/-- when the satisfier's test passes, every selected index points at a satisfied child -/
theorem selIdx_ok (hs : Thresh.selectedOk k items = true) {i : Nat} (h : i ∈ selIdx k items) :
    ∃ x, items[i]? = some x ∧ x.2 = true := by
  obtain ⟨x, hp, hx⟩ := selIdx_mem k items h
  refine ⟨x, hx, ?_⟩
  unfold Thresh.selectedOk at hs
  rw [← sorted_fst, ← List.map_take, List.all_eq_true] at hs
  exact hs x (List.mem_map.2 ⟨(x, i), hp, rfl⟩)

/-- the number of selector bits that are set is the number of selected indices -/
theorem count_selBits (sel : List Nat) (n : Nat) (hnd : sel.Nodup) (hlt : ∀ i ∈ sel, i < n) :
    (((List.range n).map fun i => sel.contains i).count true) = sel.length := by
  rw [List.count_eq_countP, List.countP_map, List.countP_eq_length_filter]
  apply List.Perm.length_eq
  rw [List.perm_ext_iff_of_nodup ((List.filter_sublist).nodup List.nodup_range) hnd]
  intro a
  simp only [List.mem_filter, List.mem_range, Function.comp, List.contains_eq_mem, beq_iff_eq,
    decide_eq_true_eq]
  constructor
  · intro h; exact h.2
  · intro h; exact ⟨hlt a h, h⟩
end selection

theorem selBits_eq (sel : List Nat) (n : Nat) :
    selBits sel n = bitsOf ((List.range n).map fun i => sel.contains i) := by
  simp [selBits, bitsOf, List.map_map, Function.comp]

theorem takeRight_true {N H : Type} (cost : N → Nat) (L R : Hid N H) (h : takeRight cost L R = true) :
    R.isNode = true := by
  cases L <;> cases R <;> simp_all [takeRight, Hid.isNode]

theorem takeRight_false {N H : Type} (cost : N → Nat) (L R : Hid N H) (h : takeRight cost L R = false)
    (h2 : (L.isNode || R.isNode) = true) : L.isNode = true := by
  cases L <;> cases R <;> simp_all [takeRight, Hid.isNode]

/-! ### the induction -/

mutual
/-- every threshold has fewer than `2^32` children (the compiled sum is a 32-bit word; `Policy::
serialize_no_witness` `expect`s as much) -/
def small : P → Bool
  | .leaf _ _ => true
  | .and l r => small l && small r
  | .or l r => small l && small r
  | .thr _ s => decide (lenL s < 2 ^ 32) && smallL s
def smallL : List P → Bool
  | [] => true
  | p :: ps => small p && smallL ps
end

section main
variable (E : JetEnv) {H : Type} (C : Alg H H) (r : Sem → H) (cost : Sem → Nat) (W : Secrets)
  (a : Avail)

local notation "S" => semAlg E H
local notation "SI" => satisfyInternal (semAlg E H) C r cost W a
local notation "SIL" => satisfyInternalL (semAlg E H) C r cost W a

mutual
theorem satisfied_runs (hon : Honest E W a) (hc : ∀ n, cost n < Thresh.MAX) :
    ∀ (p : P), dom p = true → small p = true → sat a p = true → evalH (SI p) .unit = some .unit
  | .leaf t x, _, _, hs => by
    simp only [sat] at hs
    simp only [satisfyInternal]
    split
    · next h0 => subst h0; simp [leafSat] at hs
    · rw [evalH_okIf, hs, if_pos rfl, (evalH_hom E C r).leafF]
      exact eval_leafF E W a hon t x hs
  | .and l r', hd, hsm, hs => by
    simp only [dom, Bool.and_eq_true] at hd
    simp only [small, Bool.and_eq_true] at hsm
    simp only [sat, Bool.and_eq_true] at hs
    simp only [satisfyInternal, andF, (evalH_hom E C r).comp]
    exact eval_andF E _ _ (satisfied_runs hon hc l hd.1 hsm.1 hs.1)
      (satisfied_runs hon hc r' hd.2 hsm.2 hs.2)
  | .or l r', hd, hsm, hs => by
    simp only [dom, Bool.and_eq_true] at hd
    simp only [small, Bool.and_eq_true] at hsm
    have hl := satisfyInternal_isNode S C r cost W hc a l hd.1
    have hr := satisfyInternal_isNode S C r cost W hc a r' hd.2
    simp only [sat] at hs
    simp only [satisfyInternal]
    rw [evalH_okIf, hl, hr, hs, if_pos rfl, hom_orF (evalH_hom E C r), eval_orF]
    have il := fun h => satisfied_runs hon hc l hd.1 hsm.1 h
    have ir := fun h => satisfied_runs hon hc r' hd.2 hsm.2 h
    generalize htr : takeRight cost (SI l) (SI r') = tr
    cases tr with
    | true =>
      rw [if_pos rfl]
      exact ir (by rw [← hr]; exact takeRight_true cost _ _ htr)
    | false =>
      rw [if_neg (by decide)]
      exact il (by rw [← hl]; exact takeRight_false cost _ _ htr (by rw [hl, hr]; exact hs))
  | .thr k s, hd, hsm, hs => by
    have hiff := satisfyInternal_isNode S C r cost W hc a (.thr k s) hd
    simp only [dom, Bool.and_eq_true, decide_eq_true_eq] at hd
    obtain ⟨⟨hk, hn⟩, hds⟩ := hd
    simp only [small, Bool.and_eq_true, decide_eq_true_eq] at hsm
    have hlen := satisfyInternalL_length' S C r cost W a s
    -- the satisfier's test passed
    have hsel : Thresh.selectedOk k ((SIL s).map (item cost)) = true := by
      rw [hs] at hiff
      simp only [satisfyInternal, isNode_okIf, Bool.and_eq_true] at hiff
      exact hiff.1
    simp only [satisfyInternal]
    rw [evalH_okIf, hsel, if_pos rfl, (evalH_hom E C r).thresholdF, selBits_eq]
    have hilen : ((SIL s).map (item cost)).length = lenL s := by rw [List.length_map, hlen]
    apply eval_thresholdF
    · -- every selected child runs
      intro p hp hb
      obtain ⟨i, hi, hpi⟩ := List.mem_iff_getElem.1 hp
      have hi' := hi
      simp only [List.length_zip, List.length_map, List.length_range, Nat.min_self] at hi'
      rw [List.getElem_zip] at hpi
      subst hpi
      simp only [List.getElem_map, List.getElem_range, List.contains_eq_mem, decide_eq_true_eq] at hb ⊢
      obtain ⟨x, hx, hx2⟩ := selIdx_ok k _ hsel hb
      rw [List.getElem?_map, List.getElem?_eq_getElem hi', Option.map_some, Option.some.injEq] at hx
      subst hx
      rw [item_snd] at hx2
      exact satisfied_runsL hon hc s hds hsm.2 _ (List.getElem_mem hi') hx2
    · simp
    · rw [List.length_map, hlen]; exact hn
    · rw [List.length_map, hlen]; exact hsm.1
    · rw [count_selBits _ _ (selIdx_nodup k _)
        (fun i hi => by have := selIdx_lt k _ hi; rwa [List.length_map] at this),
        selIdx_length, hilen]
      exact Nat.min_eq_left hk
theorem satisfied_runsL (hon : Honest E W a) (hc : ∀ n, cost n < Thresh.MAX) :
    ∀ (s : List P), domL s = true → smallL s = true →
      ∀ x ∈ SIL s, x.isNode = true → evalH x .unit = some .unit
  | [], _, _, x, hx, _ => by simp [satisfyInternalL] at hx
  | p :: ps, hd, hsm, x, hx, hn => by
    simp only [domL, Bool.and_eq_true] at hd
    simp only [smallL, Bool.and_eq_true] at hsm
    simp only [satisfyInternalL, List.mem_cons] at hx
    rcases hx with rfl | hx
    · rw [satisfyInternal_isNode S C r cost W hc a p hd.1] at hn
      exact satisfied_runs hon hc p hd.1 hsm.1 hn
    · exact satisfied_runsL hon hc ps hd.2 hsm.2 x hx hn
end
end main

end Pol
