/-
C08, idempotence ingredients at the plan level: pruning a value to its own type changes nothing;
re-inference and the reachable set depend only on the selected / reachable nodes (a second
`prunePlan` that leaves those alone leaves types and reachability alone).
-/
import SimplicityModel.PruneAntiDos

namespace Prog
open BM4
open Inf (Eqn)

/-- pruning a value to its own type is the identity -/
theorem pruneV_self {v : Val} {t : Ty} (h : HasTy v t) : pruneV v t = some v := by
  induction h with
  | unit => rfl
  | inl _ ih => simp [pruneV, ih]
  | inr _ ih => simp [pruneV, ih]
  | pair _ _ ih1 ih2 => simp [pruneV, ih1, ih2]

/-- the witness bits of an already pruned program are left alone by a second pruning to the same types -/
theorem pruneWit_self (wit : Nat → Option (List Bool)) (a1 : Array (Ty × Ty)) (j : Nat) (w : Val)
    (hw : HasTy w (a1.getD j (.one, .one)).2) (h : wit j = some (compact w)) :
    pruneWit wit a1 a1 j = some (compact w) := by
  simp only [pruneWit, h, valOfCompact_compact hw, pruneV_self hw, Option.bind_eq_bind, Option.bind_some,
    Option.pure_def]

/-! ### re-inference depends on the selected nodes only -/

/-- the table never changes how many fresh variables a node uses (nor whether its jet is known) -/
theorem nodeEqns_pruneNode_fresh (jt : JetTypes) (S : List (Nat × Bool)) (id : Nat) (cm : Nat → Nat)
    (i : Nat) (nd : Node) (f : Nat) :
    (nodeEqns jt i (pruneNode S id cm nd) f).map Prod.snd = (nodeEqns jt i nd f).map Prod.snd := by
  cases nd with
  | case a b =>
    simp only [pruneNode]
    cases decide ((id, false) ∈ S) <;> cases decide ((id, true) ∈ S) <;> rfl
  | _ => rfl

theorem constraintsMGo_pruneList (jt : JetTypes) (mask : Nat → Bool) (S : List (Nat × Bool)) (ids : Nat → Nat)
    (cm : Nat → Nat) : ∀ (ns : List Node) (i f : Nat) (acc : List Eqn),
    (∀ k nd, ns[k]? = some nd → mask (i + k) = true → pruneNode S (ids (i + k)) cm nd = nd) →
    constraintsMGo jt mask i (pruneList S ids cm i ns) f acc = constraintsMGo jt mask i ns f acc := by
  intro ns
  induction ns with
  | nil => intro i f acc _; rfl
  | cons nd rest ih =>
    intro i f acc h
    have hrest : ∀ k nd', rest[k]? = some nd' → mask (i + 1 + k) = true →
        pruneNode S (ids (i + 1 + k)) cm nd' = nd' := by
      intro k nd' hk hm
      have e : i + 1 + k = i + (k + 1) := by omega
      rw [e] at hm ⊢
      exact h (k + 1) nd' (by simpa using hk) hm
    simp only [pruneList, constraintsMGo]
    cases hm : mask i with
    | true =>
      have : pruneNode S (ids i) cm nd = nd := h 0 nd (by simp) (by simpa using hm)
      rw [this]
      cases nodeEqns jt i nd f with
      | none => rfl
      | some r => exact ih (i + 1) r.2 _ hrest
    | false =>
      have hf := nodeEqns_pruneNode_fresh jt S (ids i) cm i nd f
      cases h1 : nodeEqns jt i nd f with
      | none =>
        rw [h1] at hf
        cases h2 : nodeEqns jt i (pruneNode S (ids i) cm nd) f with
        | none => rfl
        | some r => rw [h2] at hf; cases hf
      | some r =>
        rw [h1] at hf
        cases h2 : nodeEqns jt i (pruneNode S (ids i) cm nd) f with
        | none => rw [h2] at hf; cases hf
        | some r' =>
          rw [h2] at hf
          simp only [Option.map_some, Option.some.injEq] at hf
          simp only [Bool.false_eq_true, if_false]
          rw [hf]
          exact ih (i + 1) r.2 acc hrest

/-- a second pruning that leaves the selected nodes alone leaves the re-inferred arrows alone -/
theorem inferM_prunePlan_agree (jt : JetTypes) (mask : Nat → Bool) (S : List (Nat × Bool)) (ids : Nat → Nat)
    (cm : Nat → Nat) (p : Plan) (prog : Bool)
    (h : ∀ j nd, p[j]? = some nd → mask j = true → pruneNode S (ids j) cm nd = nd) :
    inferM jt (prunePlan S ids cm p) mask prog = inferM jt p mask prog := by
  have hsz := prunePlan_size S ids cm p
  have hc : constraintsM jt (prunePlan S ids cm p) mask prog = constraintsM jt p mask prog := by
    unfold constraintsM
    rw [hsz]
    have : (prunePlan S ids cm p).toList = pruneList S ids cm 0 p.toList := by simp [prunePlan]
    rw [this, constraintsMGo_pruneList jt mask S ids cm p.toList 0 _ []
      (fun k nd hk hm => by
        simp only [Nat.zero_add] at hm ⊢
        exact h k nd (by simpa using hk) hm)]
  unfold inferM
  rw [hc, hsz]

/-! ### the reachable set depends on the reachable nodes only -/

theorem rgo_congr (p q : Plan) (r : Nat) (h : ∀ j, Reach p r j → q.getD j .unit = p.getD j .unit) :
    ∀ (k : Nat) (m : Array Bool), (∀ j, bitAt m j = true → Reach p r j) → rgo q k m = rgo p k m
  | 0, _, _ => rfl
  | k+1, m, hm => by
    simp only [rgo]
    have hs : rstep q m k = rstep p m k := by
      unfold rstep
      by_cases hb : m.getD k false = true
      · rw [if_pos hb, if_pos hb, h k (hm k hb)]
      · rw [if_neg hb, if_neg hb]
    rw [hs]
    exact rgo_congr p q r h k _ (rstep_sound p r m k hm)

/-- two plans of the same size that agree on the nodes reachable in the first have the same
reachable set -/
theorem reachable_congr (p q : Plan) (hsz : q.size = p.size)
    (h : ∀ j, Reach p (p.size - 1) j → q.getD j .unit = p.getD j .unit) : reachable q = reachable p := by
  rw [reachable_eq_rgo, reachable_eq_rgo, hsz]
  refine rgo_congr p q (p.size - 1) h p.size _ ?_
  intro k hk
  rw [bitAt_set] at hk
  simp only [Bool.or_eq_true, Bool.and_eq_true, decide_eq_true_eq] at hk
  rcases hk with hk | ⟨rfl, _⟩
  · exfalso
    simp only [bitAt, Array.getD_eq_getD_getElem?] at hk
    by_cases h2 : k < p.size
    · simp [h2] at hk
    · simp [Array.getElem?_eq_none, Nat.le_of_not_lt h2] at hk
  · exact .root

end Prog
