/-
C10 / C11 — byte-buffer layer.  `RVal` is the `Value` of `src/value.rs`: a byte buffer, a bit offset
into it, and a type; the operations below follow the Rust functions statement by statement
(`first_bit`, `as_left/as_right/as_product`, `RawByteIter`, `right_shift_1`, `copy_bits`,
`product`, `Value::{unit,left,right,product,zero}`, word constructors).  Bytes are `Nat`s below 256
(an invariant, part of `RVal.WF`).  Bit `i` of a buffer is bit `7 - i % 8` of byte `i / 8`
(`Bytes.getBit`).  Every operation is shown to refine the bit-level operation of `ValueBits.lean`
on the *view* `(type, bits off .. off+width)` — whatever else the buffer holds.
-/
import SimplicityModel.ValueBits
import SimplicityModel.Bytes

namespace Vl
open Bytes (getBit setBit)

/-! ### windows of a buffer -/

/-- bits `off .. off+n` of the buffer (zero beyond its end) -/
def window (buf : List Nat) : Nat → Nat → List Bool
  | _, 0 => []
  | off, n + 1 => getBit buf off :: window buf (off + 1) n

@[simp] theorem window_length (buf : List Nat) : ∀ (n off : Nat), (window buf off n).length = n
  | 0, _ => rfl
  | n + 1, off => by simp [window, window_length buf n]

theorem window_getElem? (buf : List Nat) : ∀ (n off i : Nat),
    (window buf off n)[i]? = if i < n then some (getBit buf (off + i)) else none
  | 0, _, i => by simp [window]
  | n + 1, off, 0 => by simp [window]
  | n + 1, off, i + 1 => by
    simp only [window, List.getElem?_cons_succ, window_getElem? buf n (off + 1) i]
    by_cases h : i < n
    · simp [h]; congr 1; omega
    · simp [h]

theorem eq_window {buf : List Nat} {off n : Nat} {l : List Bool} (hl : l.length = n)
    (h : ∀ i, i < n → l[i]? = some (getBit buf (off + i))) : l = window buf off n := by
  apply List.ext_getElem?
  intro i
  rw [window_getElem?]
  by_cases hi : i < n
  · rw [if_pos hi, h i hi]
  · rw [if_neg hi]; exact List.getElem?_eq_none (by omega)

theorem window_congr {b1 b2 : List Nat} {o1 o2 n : Nat}
    (h : ∀ i, i < n → getBit b1 (o1 + i) = getBit b2 (o2 + i)) : window b1 o1 n = window b2 o2 n := by
  apply eq_window (by simp)
  intro i hi
  rw [window_getElem?, if_pos hi, h i hi]

theorem window_add (buf : List Nat) : ∀ (m off n : Nat),
    window buf off (m + n) = window buf off m ++ window buf (off + m) n
  | 0, off, n => by simp [window]
  | m + 1, off, n => by
    have : m + 1 + n = (m + n) + 1 := by omega
    rw [this]
    simp only [window, List.cons_append, window_add buf m (off + 1) n]
    congr 3; omega

theorem window_succ (buf : List Nat) (off n : Nat) :
    window buf off (n + 1) = getBit buf off :: window buf (off + 1) n := rfl

theorem window_take (buf : List Nat) (off m n : Nat) :
    (window buf off (m + n)).take m = window buf off m := by
  rw [window_add]; simp

theorem window_drop (buf : List Nat) (off m n : Nat) :
    (window buf off (m + n)).drop m = window buf (off + m) n := by
  rw [window_add]; simp

/-- a zeroed buffer -/
theorem getBit_replicate_zero (k i : Nat) : getBit (List.replicate k 0) i = false := by
  unfold getBit
  rw [List.getD_eq_getElem?_getD]
  by_cases h : i / 8 < k
  · simp [List.getElem?_replicate, h]
  · simp [List.getElem?_replicate, h]

theorem window_replicate_zero (k : Nat) (off n : Nat) :
    window (List.replicate k 0) off n = List.replicate n false := by
  apply List.ext_getElem?
  intro i
  rw [window_getElem?]
  by_cases h : i < n
  · simp [h, getBit_replicate_zero]
  · simp [h]

/-- bytes are bytes -/
def BytesOK (buf : List Nat) : Prop := ∀ x ∈ buf, x < 256

theorem bytesOK_replicate (k : Nat) : BytesOK (List.replicate k 0) := by
  intro x hx; simp [List.mem_replicate] at hx; omega

theorem bytesOK_getD {buf : List Nat} (h : BytesOK buf) (i : Nat) : buf.getD i 0 < 256 := by
  rw [List.getD_eq_getElem?_getD]
  cases hi : buf[i]? with
  | none => simp
  | some x => simp; exact h x (List.mem_of_getElem? hi)

theorem bytesOK_set {buf : List Nat} (h : BytesOK buf) (i v : Nat) (hv : v < 256) :
    BytesOK (buf.set i v) := by
  intro x hx
  rcases List.mem_or_eq_of_mem_set hx with h1 | h1
  · exact h x h1
  · omega

/-! ### the Rust helpers -/

/-- `right_shift_1(inner, bit_offset, new_bit)`: with a non-zero offset the bit before the value
is used (the buffer is shared when that bit is already right, otherwise copied and the bit set
with `|= mask` or cleared with `&= !mask`); with offset zero a byte holding the bit is put in
front and the offset becomes 7 -/
def rightShift1 (buf : List Nat) (off : Nat) (b : Bool) : List Nat × Nat :=
  if off > 0 then
    let o := off - 1
    let cur := getBit buf o
    if cur = b then (buf, o)
    else if b then (setBit buf o true, o)
    else (setBit buf o false, o)
  else ((if b then 1 else 0) :: buf, 7)

/-- `dst[i / 8] |= bit << (7 - i % 8)` -/
def orBit (data : List Nat) (i : Nat) (bit : Bool) : List Nat :=
  data.set (i / 8) (data.getD (i / 8) 0 ||| ((if bit then 1 else 0) <<< (7 - i % 8)))

/-- `copy_bits(src, src_offset, dst, dst_offset, nbits)`: bit by bit, in ascending order -/
def copyBits (src : List Nat) (so : Nat) (dst : List Nat) (d : Nat) : Nat → List Nat
  | 0 => dst
  | n + 1 => orBit (copyBits src so dst d n) (d + n) (getBit src (so + n))

/-- the free function `product(left, left_bit_length, right, right_bit_length)`; `none` is padding -/
def bufProduct (left : Option (List Nat × Nat)) (lw : Nat) (right : Option (List Nat × Nat)) (rw : Nat) :
    List Nat × Nat :=
  if lw = 0 then
    match right with
    | some (rb, ro) => (rb, ro)
    | none => if rw = 0 then ([], 0) else (List.replicate ((rw + 7) / 8) 0, 0)
  else if rw = 0 then
    match left with
    | some (lb, lo) => (lb, lo)
    | none => (List.replicate ((lw + 7) / 8) 0, 0)
  else
    let bx := List.replicate ((lw + rw + 7) / 8) 0
    let bx := match left with
      | some (lb, lo) => copyBits lb lo bx 0 lw
      | none => bx
    let bx := match right with
      | some (rb, ro) => copyBits rb ro bx lw rw
      | none => bx
    (bx, 0)

/-! ### byte lemmas -/

theorem testBit_lt_256 {c i : Nat} (hc : c < 256) (hi : 8 ≤ i) : c.testBit i = false := by
  apply Nat.testBit_lt_two_pow
  calc c < 2 ^ 8 := hc
    _ ≤ 2 ^ i := Nat.pow_le_pow_right (by decide) hi

theorem setBit_length (data : List Nat) (i : Nat) (b : Bool) : (setBit data i b).length = data.length := by
  simp [setBit]

theorem bytesOK_setBit {data : List Nat} (h : BytesOK data) (i : Nat) (b : Bool) :
    BytesOK (setBit data i b) := by
  unfold setBit
  apply bytesOK_set h
  have hx := bytesOK_getD h (i / 8)
  cases b with
  | true =>
    simp only [if_true]
    apply Nat.or_lt_two_pow (n := 8) hx
    rw [Nat.one_shiftLeft]
    exact Nat.pow_lt_pow_right (by decide) (by omega)
  | false =>
    simp only [Bool.false_eq_true, if_false]
    exact Nat.lt_of_le_of_lt Nat.and_le_left hx

theorem orBit_length (data : List Nat) (i : Nat) (b : Bool) : (orBit data i b).length = data.length := by
  simp [orBit]

theorem bytesOK_orBit {data : List Nat} (h : BytesOK data) (i : Nat) (b : Bool) :
    BytesOK (orBit data i b) := by
  unfold orBit
  apply bytesOK_set h
  have hx := bytesOK_getD h (i / 8)
  apply Nat.or_lt_two_pow (n := 8) hx
  cases b with
  | true =>
    simp only [if_true, Nat.one_shiftLeft]
    exact Nat.pow_lt_pow_right (by decide) (by omega)
  | false => simp

theorem getBit_orBit (data : List Nat) (i j : Nat) (b : Bool) (h : i / 8 < data.length) :
    getBit (orBit data i b) j = if j = i then (getBit data j || b) else getBit data j := by
  unfold getBit orBit
  by_cases hb : j / 8 = i / 8
  · rw [hb, List.getD_eq_getElem?_getD, List.getElem?_set_self h]
    simp only [Option.getD_some, Nat.testBit_or]
    by_cases hji : j = i
    · subst hji
      simp only [if_true]
      cases b with
      | true => simp [Bytes.testBit_mask]
      | false => simp
    · rw [if_neg hji]
      have hne : 7 - i % 8 ≠ 7 - j % 8 := by omega
      cases b with
      | true => simp only [if_true, Bytes.testBit_mask, hne, decide_false, Bool.or_false]
      | false => simp
  · have hji : j ≠ i := fun e => hb (by rw [e])
    rw [if_neg hji, List.getD_eq_getElem?_getD, List.getElem?_set_ne (Ne.symm hb),
      ← List.getD_eq_getElem?_getD]

theorem copyBits_length (src : List Nat) (so : Nat) (dst : List Nat) (d : Nat) :
    ∀ n, (copyBits src so dst d n).length = dst.length
  | 0 => rfl
  | n + 1 => by simp [copyBits, orBit_length, copyBits_length src so dst d n]

theorem bytesOK_copyBits {dst : List Nat} (src : List Nat) (so d : Nat) (h : BytesOK dst) :
    ∀ n, BytesOK (copyBits src so dst d n)
  | 0 => h
  | n + 1 => bytesOK_orBit (bytesOK_copyBits src so d h n) _ _

/-- `copy_bits` ORs `nbits` source bits into the destination and leaves the rest alone -/
theorem getBit_copyBits (src : List Nat) (so : Nat) (dst : List Nat) (d : Nat) :
    ∀ (n j : Nat), d + n ≤ 8 * dst.length →
      getBit (copyBits src so dst d n) j =
        if d ≤ j ∧ j < d + n then (getBit dst j || getBit src (so + (j - d))) else getBit dst j
  | 0, j, _ => by simp only [copyBits]; rw [if_neg (by omega)]
  | n + 1, j, h => by
    simp only [copyBits]
    rw [getBit_orBit _ _ _ _ (by rw [copyBits_length]; omega),
      getBit_copyBits src so dst d n j (by omega)]
    by_cases hj : j = d + n
    · subst hj
      have h1 : ¬ (d ≤ d + n ∧ d + n < d + n) := by omega
      have h2 : d ≤ d + n ∧ d + n < d + (n + 1) := by omega
      simp only [if_true, if_neg h1, if_pos h2]
      congr 2; omega
    · rw [if_neg hj]
      by_cases h1 : d ≤ j ∧ j < d + n
      · have h2 : d ≤ j ∧ j < d + (n + 1) := by omega
        rw [if_pos h1, if_pos h2]
      · have h2 : ¬ (d ≤ j ∧ j < d + (n + 1)) := by omega
        rw [if_neg h1, if_neg h2]

/-- copying into a zeroed destination gives the source window -/
theorem window_copyBits_zero (src : List Nat) (so k d n : Nat) (h : d + n ≤ 8 * k) :
    window (copyBits src so (List.replicate k 0) d n) d n = window src so n := by
  apply window_congr
  intro i hi
  rw [getBit_copyBits _ _ _ _ _ _ (by simpa using h)]
  have : d ≤ d + i ∧ d + i < d + n := by omega
  rw [if_pos this, getBit_replicate_zero]
  simp

/-! ### `right_shift_1` puts one bit in front of a window -/

theorem getBit_cons (x : Nat) (buf : List Nat) (i : Nat) : getBit (x :: buf) (8 + i) = getBit buf i := by
  unfold getBit
  have h1 : (8 + i) / 8 = i / 8 + 1 := by omega
  have h2 : (8 + i) % 8 = i % 8 := by omega
  rw [h1, h2]; simp

theorem rightShift1_spec (buf : List Nat) (off n : Nat) (b : Bool) (hc : off + n ≤ 8 * buf.length)
    (hb : BytesOK buf) :
    let s := rightShift1 buf off b
    window s.1 s.2 (n + 1) = b :: window buf off n ∧ s.2 + (n + 1) ≤ 8 * s.1.length ∧ BytesOK s.1 := by
  unfold rightShift1
  by_cases h0 : off > 0
  · simp only [h0, if_true]
    have hlen : (off - 1) / 8 < buf.length := by omega
    have tail : ∀ (b' : Bool), window (setBit buf (off - 1) b') (off - 1 + 1) n = window buf off n := by
      intro b'
      apply window_congr
      intro i _
      rw [Bytes.getBit_setBit _ _ _ _ hlen, if_neg (by omega)]
      congr 1; omega
    by_cases hcur : getBit buf (off - 1) = b
    · simp only [hcur, if_true, window_succ]
      refine ⟨?_, by omega, hb⟩
      congr 2; omega
    · simp only [hcur, if_false]
      cases b with
      | true =>
        simp only [if_true, window_succ, tail, setBit_length]
        refine ⟨?_, by omega, bytesOK_setBit hb _ _⟩
        rw [Bytes.getBit_setBit _ _ _ _ hlen]; simp
      | false =>
        simp only [Bool.false_eq_true, if_false, window_succ, tail, setBit_length]
        refine ⟨?_, by omega, bytesOK_setBit hb _ _⟩
        rw [Bytes.getBit_setBit _ _ _ _ hlen]; simp
  · have h0' : off = 0 := by omega
    subst h0'
    simp only [Nat.lt_irrefl, if_false, window_succ]
    refine ⟨?_, by simp; omega, ?_⟩
    · congr 1
      · cases b <;> simp [getBit]
      · apply window_congr
        intro i _
        rw [show 7 + 1 + i = 8 + i by omega, getBit_cons]; simp
    · intro x hx
      rcases List.mem_cons.1 hx with h1 | h1
      · subst h1; cases b <;> simp
      · exact hb x h1

/-! ### `product` concatenates two windows -/

/-- what an optional (buffer, offset) argument of `product` stands for: its window, or zeros -/
def optWindow (o : Option (List Nat × Nat)) (w : Nat) : List Bool :=
  match o with
  | some (b, off) => window b off w
  | none => List.replicate w false

/-- an optional argument covers its width -/
def OptOK (o : Option (List Nat × Nat)) (w : Nat) : Prop :=
  match o with
  | some (b, off) => off + w ≤ 8 * b.length ∧ BytesOK b
  | none => True

theorem window_zero (buf : List Nat) (off : Nat) : window buf off 0 = [] := rfl

theorem optWindow_zero (o : Option (List Nat × Nat)) : optWindow o 0 = [] := by
  cases o with
  | none => rfl
  | some p => rfl

/-- bit `j` of an optional argument -/
def optBit (o : Option (List Nat × Nat)) (j : Nat) : Bool :=
  match o with
  | some (b, off) => getBit b (off + j)
  | none => false

theorem optWindow_eq (o : Option (List Nat × Nat)) (w : Nat) (buf : List Nat) (off : Nat)
    (h : ∀ i, i < w → getBit buf (off + i) = optBit o i) : window buf off w = optWindow o w := by
  cases o with
  | some p => obtain ⟨b, bo⟩ := p; exact window_congr h
  | none =>
    apply List.ext_getElem?
    intro i
    rw [window_getElem?]
    by_cases hi : i < w
    · simp [optWindow, hi, h i hi, optBit]
    · simp [optWindow, hi]

/-- one `if let Some(..) = arg { copy_bits(..) }` step of `product` -/
def copyOpt (o : Option (List Nat × Nat)) (bx : List Nat) (d w : Nat) : List Nat :=
  match o with
  | some (b, off) => copyBits b off bx d w
  | none => bx

theorem copyOpt_length (o : Option (List Nat × Nat)) (bx : List Nat) (d w : Nat) :
    (copyOpt o bx d w).length = bx.length := by
  cases o with
  | none => rfl
  | some p => exact copyBits_length _ _ _ _ _

theorem bytesOK_copyOpt (o : Option (List Nat × Nat)) {bx : List Nat} (d w : Nat) (h : BytesOK bx) :
    BytesOK (copyOpt o bx d w) := by
  cases o with
  | none => exact h
  | some p => exact bytesOK_copyBits _ _ _ h _

theorem getBit_copyOpt (o : Option (List Nat × Nat)) (bx : List Nat) (d w j : Nat) (h : d + w ≤ 8 * bx.length) :
    getBit (copyOpt o bx d w) j =
      if d ≤ j ∧ j < d + w then (getBit bx j || optBit o (j - d)) else getBit bx j := by
  cases o with
  | none => simp [copyOpt, optBit]
  | some p => obtain ⟨b, off⟩ := p; exact getBit_copyBits _ _ _ _ _ _ h

theorem bufProduct_spec (left : Option (List Nat × Nat)) (lw : Nat) (right : Option (List Nat × Nat)) (rw : Nat)
    (hl : OptOK left lw) (hr : OptOK right rw) :
    let p := bufProduct left lw right rw
    window p.1 p.2 (lw + rw) = optWindow left lw ++ optWindow right rw ∧
      p.2 + (lw + rw) ≤ 8 * p.1.length ∧ BytesOK p.1 := by
  unfold bufProduct
  by_cases h1 : lw = 0
  · subst h1
    simp only [if_true, Nat.zero_add, optWindow_zero, List.nil_append]
    cases right with
    | some p => obtain ⟨rb, ro⟩ := p; exact ⟨rfl, hr.1, hr.2⟩
    | none =>
      by_cases h2 : rw = 0
      · subst h2; simp only [if_true]; exact ⟨rfl, by simp, by intro x hx; cases hx⟩
      · simp only [h2, if_false, optWindow]
        exact ⟨window_replicate_zero _ _ _, by simp; omega, bytesOK_replicate _⟩
  · simp only [h1, if_false]
    by_cases h2 : rw = 0
    · subst h2
      simp only [if_true, Nat.add_zero, optWindow_zero, List.append_nil]
      cases left with
      | some p => obtain ⟨lb, lo⟩ := p; exact ⟨rfl, hl.1, hl.2⟩
      | none =>
        simp only [optWindow]
        exact ⟨window_replicate_zero _ _ _, by simp; omega, bytesOK_replicate _⟩
    · simp only [h2, if_false]
      have hk : lw + rw ≤ 8 * ((lw + rw + 7) / 8) := by omega
      change window (copyOpt right (copyOpt left (List.replicate ((lw + rw + 7) / 8) 0) 0 lw) lw rw) 0 (lw + rw)
          = _ ∧ 0 + (lw + rw) ≤ 8 * (copyOpt right (copyOpt left (List.replicate ((lw + rw + 7) / 8) 0) 0 lw) lw rw).length
          ∧ BytesOK (copyOpt right (copyOpt left (List.replicate ((lw + rw + 7) / 8) 0) 0 lw) lw rw)
      have hlen1 : (copyOpt left (List.replicate ((lw + rw + 7) / 8) 0) 0 lw).length = (lw + rw + 7) / 8 := by
        rw [copyOpt_length]; simp
      have bit : ∀ j, getBit (copyOpt right (copyOpt left (List.replicate ((lw + rw + 7) / 8) 0) 0 lw) lw rw) j =
          if j < lw then optBit left j else if j < lw + rw then optBit right (j - lw) else false := by
        intro j
        rw [getBit_copyOpt _ _ _ _ _ (by rw [hlen1]; omega),
          getBit_copyOpt _ _ _ _ _ (by simp; omega), getBit_replicate_zero]
        by_cases c1 : j < lw
        · have : ¬ (lw ≤ j ∧ j < lw + rw) := by omega
          have c1' : 0 ≤ j ∧ j < 0 + lw := by omega
          simp [this, c1, c1']
        · by_cases c2 : j < lw + rw
          · have : lw ≤ j ∧ j < lw + rw := by omega
            have c1' : ¬ (0 ≤ j ∧ j < 0 + lw) := by omega
            simp [this, c1, c2, c1']
          · have : ¬ (lw ≤ j ∧ j < lw + rw) := by omega
            have c1' : ¬ (0 ≤ j ∧ j < 0 + lw) := by omega
            simp [this, c1, c2, c1']
      refine ⟨?_, ?_, ?_⟩
      · rw [window_add]
        congr 1
        · apply optWindow_eq
          intro i hi
          rw [bit, Nat.zero_add, if_pos hi]
        · apply optWindow_eq
          intro i hi
          rw [bit, if_neg (by omega), if_pos (by omega)]
          congr 1; omega
      · rw [copyOpt_length, hlen1]; omega
      · exact bytesOK_copyOpt _ _ _ (bytesOK_copyOpt _ _ _ (bytesOK_replicate _))

end Vl
