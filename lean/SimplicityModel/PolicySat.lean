/-
C16 — policies: truth of a policy under a satisfier (`sat`), the fragment compilers of
`src/policy/serialize.rs` over an arbitrary constructor algebra (`compile` = `serialize_no_witness`),
the hiding wrapper of `src/node/hiding.rs` (`hidAlg`) and the satisfier of `src/policy/satisfy.rs`
(`satisfyInternal`) with its cost-ordered threshold choice (`Thresh.selectedOk`).

The policy type is `Pol.P` of `Policy.lean`; a leaf `leaf tag x` carries the constructor index of the
Rust enum (`Unsatisfiable` 0, `Trivial` 1, `Key` 2, `After` 3, `Older` 4, `Sha256` 5 — the order the
derived `Ord` uses) and its payload as a number (key / hash / entropy bytes read big-endian: for byte
strings of one length the lexicographic order of the bytes is the order of the numbers).
-/
import SimplicityModel.Policy
import SimplicityModel.Thresh

namespace Pol

/-! ### truth of a policy under the answers of a satisfier -/

/-- what the satisfier answers: `lookup_signature(k).is_some()`, `lookup_sha256(h).is_some()`,
`check_after(n)`, `check_older(n)` -/
structure Avail where
  sig : Nat → Bool
  pre : Nat → Bool
  after : Nat → Bool
  older : Nat → Bool

def leafSat (a : Avail) (t x : Nat) : Bool :=
  if t = 1 then true
  else if t = 2 then a.sig x
  else if t = 3 then a.after x
  else if t = 4 then a.older x
  else if t = 5 then a.pre x
  else false

mutual
/-- and-both, or-either, threshold-at-least-k -/
def sat (a : Avail) : P → Bool
  | .leaf t x => leafSat a t x
  | .and l r => sat a l && sat a r
  | .or l r => sat a l || sat a r
  | .thr k s => decide (k ≤ countSat a s)
def countSat (a : Avail) : List P → Nat
  | [] => 0
  | p :: ps => (if sat a p then 1 else 0) + countSat a ps
end

mutual
/-- the domain of `serialize::threshold` (it asserts `k ≤ n` and `n ≠ 0`; `cmr`, `commit` and
`satisfy` panic outside) -/
def dom : P → Bool
  | .leaf _ _ => true
  | .and l r => dom l && dom r
  | .or l r => dom l && dom r
  | .thr k s => decide (k ≤ lenL s) && decide (1 ≤ lenL s) && domL s
def domL : List P → Bool
  | [] => true
  | p :: ps => dom p && domL ps
def lenL : List P → Nat
  | [] => 0
  | _ :: ps => lenL ps + 1
end

theorem lenL_eq (s : List P) : lenL s = s.length := by
  induction s with
  | nil => rfl
  | cons a s ih => simp [lenL, ih]

/-! ### the constructor algebra and the fragment compilers (`serialize.rs`) -/

/-- the jets the fragments use -/
inductive Jet
  | sigAllHash | bip0340Verify | checkLockHeight | checkLockDistance
  | sha256Init | sha256Add32 | sha256Finalize | verify | eq256 | add32 | eq32
  deriving DecidableEq

/-- values, as far as the fragments see them: words are kept as numbers with their width, a bit
(`Value::u1`) is `inl unit` / `inr unit` -/
inductive Val where
  | unit
  | inl (v : Val)
  | inr (v : Val)
  | pair (a b : Val)
  | word (bits n : Nat)

/-- `Value::u1` -/
def Val.bit (b : Bool) : Val := if b then .inr .unit else .inl .unit

/-- the constructors of `CoreConstructible`/`WitnessConstructible` that `serialize.rs` and the hiding
wrapper call, for a node type `N` and a root type `H`; a witness node carries `Option<Value>` -/
structure Alg (N : Type) (H : Type) where
  iden : N
  unit : N
  witness : Option Val → N
  drop : N → N
  comp : N → N → N
  pair : N → N → N
  case : N → N → N
  assertl : N → H → N
  assertr : H → N → N
  fail : Nat → N
  word : Nat → Nat → N      -- `const_word`: width in bits, value
  jet : Jet → N

section fragments
variable {N H : Type} (A : Alg N H)

def keyF (x : Nat) (w : Option Val) : N :=
  A.comp (A.pair (A.pair (A.word 256 x) (A.jet .sigAllHash)) (A.witness w)) (A.jet .bip0340Verify)
def afterF (n : Nat) : N := A.comp (A.word 32 n) (A.jet .checkLockHeight)
def olderF (n : Nat) : N := A.comp (A.word 16 n) (A.jet .checkLockDistance)
def computeSha256 (w : N) : N :=
  A.comp (A.comp (A.pair (A.jet .sha256Init) w) (A.jet .sha256Add32)) (A.jet .sha256Finalize)
def verifyBexp (input bexp : N) : N := A.comp (A.comp input bexp) (A.jet .verify)
def sha256F (x : Nat) (w : Option Val) : N :=
  verifyBexp A (A.pair (A.word 256 x) (computeSha256 A (A.witness w))) (A.jet .eq256)
def andF (l r : N) : N := A.comp l r
def selector (w : Option Val) : N := A.pair (A.witness w) A.unit
def orF (l r : N) (w : Option Val) : N := A.comp (selector A w) (A.case (A.drop l) (A.drop r))
def summand (child : N) (w : Option Val) : N :=
  A.comp (selector A w) (A.case (A.drop (A.word 32 0)) (A.drop (A.comp child (A.word 32 1))))
def addF (sum s : N) : N := A.comp (A.comp (A.pair sum s) (A.jet .add32)) (A.drop A.iden)
def threshVerify (sum : N) (k : Nat) : N := verifyBexp A (A.pair (A.word 32 k) sum) (A.jet .eq32)
/-- `sum = summand(subs[0], bits[0]); for (sub, bit) in subs[1..].zip(bits[1..]) { sum = add(sum,
summand(sub, bit)) }` -/
def sumF : N → List N → List (Option Val) → N
  | acc, s :: ss, b :: bs => sumF (addF A acc (summand A s b)) ss bs
  | acc, _, _ => acc
/-- `serialize::threshold` (panics on the empty list; the model returns `unit` there) -/
def thresholdF (k : Nat) : List N → List (Option Val) → N
  | s :: ss, b :: bs => threshVerify A (sumF A (summand A s b) ss bs) k
  | _, _ => A.unit

def leafF (t x : Nat) (w : Option Val) : N :=
  if t = 0 then A.fail x
  else if t = 2 then keyF A x w
  else if t = 3 then afterF A x
  else if t = 4 then olderF A x
  else if t = 5 then sha256F A x w
  else A.unit

mutual
/-- `Policy::serialize_no_witness` for any node type: `commit()` runs it on real nodes,
`Policy::cmr` on `ConstructibleCmr` -/
def compile : P → N
  | .leaf t x => leafF A t x none
  | .and l r => andF A (compile l) (compile r)
  | .or l r => orF A (compile l) (compile r) none
  | .thr k s => thresholdF A k (compileL s) (List.replicate (lenL s) none)
def compileL : List P → List N
  | [] => []
  | p :: ps => compile p :: compileL ps
end
end fragments

/-! ### homomorphisms of constructor algebras -/

structure Hom {N M H : Type} (A : Alg N H) (B : Alg M H) (h : N → M) : Prop where
  iden : h A.iden = B.iden
  unit : h A.unit = B.unit
  witness : ∀ w, h (A.witness w) = B.witness w
  drop : ∀ x, h (A.drop x) = B.drop (h x)
  comp : ∀ x y, h (A.comp x y) = B.comp (h x) (h y)
  pair : ∀ x y, h (A.pair x y) = B.pair (h x) (h y)
  case : ∀ x y, h (A.case x y) = B.case (h x) (h y)
  fail : ∀ e, h (A.fail e) = B.fail e
  word : ∀ w v, h (A.word w v) = B.word w v
  jet : ∀ j, h (A.jet j) = B.jet j

section hom
variable {N M H : Type} {A : Alg N H} {B : Alg M H} {h : N → M}

theorem Hom.summand (hh : Hom A B h) (c : N) (w : Option Val) :
    h (summand A c w) = summand B (h c) w := by
  simp only [Pol.summand, selector, hh.comp, hh.pair, hh.case, hh.drop, hh.word, hh.witness, hh.unit]

theorem Hom.sumF (hh : Hom A B h) : ∀ (ss : List N) (bs : List (Option Val)) (acc : N),
    h (sumF A acc ss bs) = Pol.sumF B (h acc) (ss.map h) bs
  | [], _, _ => by simp only [Pol.sumF, List.map]
  | _ :: _, [], _ => by simp only [Pol.sumF, List.map]
  | s :: ss, b :: bs, acc => by
    simp only [Pol.sumF, List.map]
    rw [Hom.sumF hh ss bs]
    simp only [addF, hh.comp, hh.pair, hh.jet, hh.drop, hh.iden, hh.summand]

theorem Hom.thresholdF (hh : Hom A B h) (k : Nat) : ∀ (ss : List N) (bs : List (Option Val)),
    h (thresholdF A k ss bs) = Pol.thresholdF B k (ss.map h) bs
  | [], _ => by simp only [Pol.thresholdF, List.map]; exact hh.unit
  | _ :: _, [] => by simp only [Pol.thresholdF, List.map]; exact hh.unit
  | s :: ss, b :: bs => by
    simp only [Pol.thresholdF, List.map, threshVerify, verifyBexp, hh.comp, hh.pair, hh.jet,
      hh.word, hh.sumF, hh.summand]

theorem Hom.leafF (hh : Hom A B h) (t x : Nat) (w : Option Val) :
    h (leafF A t x w) = leafF B t x w := by
  unfold Pol.leafF
  split
  · exact hh.fail x
  split
  · simp only [keyF, hh.comp, hh.pair, hh.word, hh.jet, hh.witness]
  split
  · simp only [afterF, hh.comp, hh.word, hh.jet]
  split
  · simp only [olderF, hh.comp, hh.word, hh.jet]
  split
  · simp only [sha256F, verifyBexp, computeSha256, hh.comp, hh.pair, hh.word, hh.jet, hh.witness]
  · exact hh.unit

mutual
/-- any two instances of the constructor algebra related by a homomorphism give related results:
with `A` = real nodes, `B` = roots only and `h` = "root of" this is
`commit().cmr() = Policy::cmr()` -/
theorem constructible_hom (hh : Hom A B h) : ∀ (p : P), h (compile A p) = compile B p
  | .leaf t x => by simp only [compile]; exact hh.leafF t x none
  | .and l r => by
    simp only [compile, andF, hh.comp, constructible_hom hh l, constructible_hom hh r]
  | .or l r => by
    simp only [compile, orF, selector, hh.comp, hh.pair, hh.case, hh.drop, hh.witness, hh.unit,
      constructible_hom hh l, constructible_hom hh r]
  | .thr k s => by
    simp only [compile]; rw [hh.thresholdF, constructible_homL hh s]
theorem constructible_homL (hh : Hom A B h) : ∀ (s : List P), (compileL A s).map h = compileL B s
  | [] => rfl
  | p :: ps => by
    simp only [compileL, List.map, constructible_hom hh p, constructible_homL hh ps]
end
end hom

/-! ### the hiding wrapper (`node/hiding.rs`) -/

/-- `Hiding<N>`: a node, or the root of a "hidden" one -/
inductive Hid (N H : Type) where
  | node (n : N)
  | hidden (h : H)

namespace Hid
variable {N H : Type}
def isNode : Hid N H → Bool
  | .node _ => true
  | .hidden _ => false
/-- `HasCmr for Hiding` -/
def root (r : N → H) : Hid N H → H
  | .node n => r n
  | .hidden h => h
/-- `Hiding::hide` -/
def hide (r : N → H) : Hid N H → Hid N H
  | .node n => .hidden (r n)
  | .hidden h => .hidden h
/-- `ok_if` of satisfy.rs -/
def okIf (r : N → H) (c : Bool) (x : Hid N H) : Hid N H := if c then x else x.hide r
end Hid

/-- `impl CoreConstructible for Hiding<N>`: `A` builds nodes, `C` computes roots (`Cmr::comp` …),
`r` is the root of a node -/
def hidAlg {N H : Type} (A : Alg N H) (C : Alg H H) (r : N → H) : Alg (Hid N H) H where
  iden := .node A.iden
  unit := .node A.unit
  witness := fun w => .node (A.witness w)
  drop := fun x => match x with
    | .node n => .node (A.drop n)
    | .hidden h => .hidden (C.drop h)
  comp := fun x y => match x, y with
    | .node a, .node b => .node (A.comp a b)
    | x, y => .hidden (C.comp (x.root r) (y.root r))
  pair := fun x y => match x, y with
    | .node a, .node b => .node (A.pair a b)
    | x, y => .hidden (C.pair (x.root r) (y.root r))
  case := fun x y => match x, y with
    | .node a, .node b => .node (A.case a b)
    | .hidden l, .node b => .node (A.assertr l b)
    | .node a, .hidden rr => .node (A.assertl a rr)
    | .hidden l, .hidden rr => .hidden (C.case l rr)
  assertl := fun x h => match x with
    | .node a => .node (A.assertl a h)
    | .hidden l => .hidden (C.case l h)
  assertr := fun h y => match y with
    | .node b => .node (A.assertr h b)
    | .hidden rr => .hidden (C.case h rr)
  fail := fun e => .node (A.fail e)
  word := fun w v => .node (A.word w v)
  jet := fun j => .node (A.jet j)

/-- what makes `r` "the root of": it commutes with every constructor, an assertion has the root of
the `case` it stands for, witness values are not committed to -/
structure RootHom {N H : Type} (A : Alg N H) (C : Alg H H) (r : N → H) : Prop extends Hom A C r where
  assertl : ∀ x h, r (A.assertl x h) = C.case (r x) h
  assertr : ∀ h y, r (A.assertr h y) = C.case h (r y)
  /-- the root of a witness node does not depend on the value in it -/
  witness_irrel : ∀ w, C.witness w = C.witness none

theorem hid_hom {N H : Type} {A : Alg N H} {C : Alg H H} {r : N → H} (hr : RootHom A C r) :
    Hom (hidAlg A C r) C (Hid.root r) where
  iden := hr.iden
  unit := hr.unit
  witness := fun w => hr.witness w
  drop := fun x => by cases x <;> simp [hidAlg, Hid.root, hr.drop]
  comp := fun x y => by cases x <;> cases y <;> simp [hidAlg, Hid.root, hr.comp]
  pair := fun x y => by cases x <;> cases y <;> simp [hidAlg, Hid.root, hr.pair]
  case := fun x y => by
    cases x <;> cases y <;> simp [hidAlg, Hid.root, hr.case, hr.assertl, hr.assertr]
  fail := fun e => hr.fail e
  word := fun w v => hr.word w v
  jet := fun j => hr.jet j

/-! ### the satisfier (`Policy::satisfy_internal`) -/

section satisfy
variable {N H : Type} (A : Alg N H) (C : Alg H H) (r : N → H)
-- `finalize_unpruned().bounds().cost` of a satisfied sub-program, in milliweight (not modelled:
-- any function; the theorems ask that it stays below `Cost::CONSENSUS_MAX`)
variable (cost : N → Nat)

/-- `costs[i]` and `subs_res[i].as_node().is_some()` -/
def item : Hid N H → Thresh.Item
  | .node n => (cost n, true)
  | .hidden _ => (Thresh.MAX, false)

/-- the `or` selector bit: the cheaper side when both are satisfied, the satisfied one otherwise -/
def takeRight : Hid N H → Hid N H → Bool
  | .node l, .node r => decide (cost r < cost l)
  | .hidden _, .node _ => true
  | _, _ => false

/-- `selected_node_indices`: `indices.sort_by_key(|i| costs[i]); indices.truncate(k)` -/
def selIdx (k : Nat) (items : List Thresh.Item) : List Nat :=
  ((items.zipIdx.mergeSort (fun a b => Thresh.le a.1 b.1)).take k).map (·.2)

/-- `witness_bits[i] = Some(u1(selected_node_indices.contains(i)))` -/
def selBits (sel : List Nat) (n : Nat) : List (Option Val) :=
  (List.range n).map fun i => some (Val.bit (sel.contains i))

/-- the values the satisfier hands out when it has them (`lookup_signature`, `lookup_sha256`) -/
structure Secrets where
  sigVal : Nat → Val
  preVal : Nat → Val

def leafWit (W : Secrets) (a : Avail) (t x : Nat) : Option Val :=
  if t = 2 then (if a.sig x then some (W.sigVal x) else none)
  else if t = 5 then (if a.pre x then some (W.preVal x) else none)
  else none

variable (W : Secrets)

mutual
/-- `satisfy_internal`: the program with the unsatisfied parts "hidden" and the witness nodes
populated (signature, preimage, the selector bit of every `or`, the selection bits of every
threshold) -/
def satisfyInternal (a : Avail) : P → Hid N H
  | .leaf t x =>
    if t = 0 then (leafF (hidAlg A C r) 0 x none).hide r
    else Hid.okIf r (leafSat a t x) (leafF (hidAlg A C r) t x (leafWit W a t x))
  | .and l r' => andF (hidAlg A C r) (satisfyInternal a l) (satisfyInternal a r')
  | .or l r' =>
    let L := satisfyInternal a l
    let R := satisfyInternal a r'
    Hid.okIf r (L.isNode || R.isNode)
      (orF (hidAlg A C r) L R (some (Val.bit (takeRight cost L R))))
  | .thr k s =>
    let subs := satisfyInternalL a s
    let items := subs.map (item cost)
    Hid.okIf r (Thresh.selectedOk k items)
      (thresholdF (hidAlg A C r) k subs (selBits (selIdx k items) subs.length))
def satisfyInternalL (a : Avail) : List P → List (Hid N H)
  | [] => []
  | p :: ps => satisfyInternal a p :: satisfyInternalL a ps
end
end satisfy

end Pol
