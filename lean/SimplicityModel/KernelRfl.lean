/-
`kernel_rfl`: closes a goal `a = b` with the term `Eq.refl a` *without* asking the elaborator to
unify `a` and `b` first; whether the two sides are definitionally equal is decided by the kernel
alone when the theorem is added to the environment (a wrong goal is a kernel type error).  No
axiom is involved — this is `decide +kernel` for definitional equalities.

Used for the one thing `decide` is bad at in Lean 4.33: tying string literals to byte keys.  The
kernel compares a string literal with `String.ofList (…)` by unfolding the literal to its list of
characters, whereas evaluating `String` operations (`=`, `<`, `toList`) inside the kernel goes
through UTF-8 byte arrays and takes ≈ 0.1 s per string.

Not imported by anything the driver reaches.
-/
import Lean
open Lean Elab Tactic Meta

elab "kernel_rfl" : tactic => do
  let g ← getMainGoal
  let t ← g.getType'
  let some (α, lhs, _) := t.eq? | throwError "kernel_rfl: the goal is not an equation"
  let u ← getLevel α
  g.assign (mkApp2 (mkConst ``Eq.refl [u]) α lhs)
