/-
C08 on the typed terms the driver evaluates (all node kinds, `disconnect` included): rewriting a
term by the `prune_case` table — for any tracker content that covers the sides this run took —
leaves the result *and the tracker's record* of the run unchanged; hence pruning by the run's own
record succeeds when the run does, gives the same output, and pruning again changes nothing.
(Types are kept here: this is the `Pruner` step alone; the re-typing step is `Prune.lean`'s
`eval_shrink`.)
-/
import SimplicityModel.PrunePlanProps

namespace Prog
open BM4

/-- the `prune_case` table on a labelled term -/
def pruneTerm (S : List (Nat × Bool)) : {a b : Ty} → Term a b → Lab → Term a b
  | _, _, .injl t, l => .injl (pruneTerm S t l.fst)
  | _, _, .injr t, l => .injr (pruneTerm S t l.fst)
  | _, _, .take t, l => .take (pruneTerm S t l.fst)
  | _, _, .drop t, l => .drop (pruneTerm S t l.fst)
  | _, _, .comp s t, l => .comp (pruneTerm S s l.fst) (pruneTerm S t l.snd)
  | _, _, .pair s t, l => .pair (pruneTerm S s l.fst) (pruneTerm S t l.snd)
  | _, _, .case s t, l =>
    match decide ((l.id, false) ∈ S), decide ((l.id, true) ∈ S) with
    | true, false => .assertl (pruneTerm S s l.fst)
    | false, true => .assertr (pruneTerm S t l.snd)
    | _, _ => .case (pruneTerm S s l.fst) (pruneTerm S t l.snd)
  | _, _, .assertl s, l => .assertl (pruneTerm S s l.fst)
  | _, _, .assertr t, l => .assertr (pruneTerm S t l.fst)
  | _, _, .disconnect w cw s t, l => .disconnect w cw (pruneTerm S s l.fst) (pruneTerm S t l.snd)
  | _, _, .iden, _ => .iden
  | _, _, .unit, _ => .unit
  | _, _, .fail, _ => .fail
  | _, _, .witness w, _ => .witness w
  | _, _, .word w, _ => .word w
  | _, _, .jet jf f, _ => .jet jf f

/-- the labels of the rewritten term (an assertion has one child) -/
def pruneLab (S : List (Nat × Bool)) : {a b : Ty} → Term a b → Lab → Lab
  | _, _, .injl t, l => .un l.id (pruneLab S t l.fst)
  | _, _, .injr t, l => .un l.id (pruneLab S t l.fst)
  | _, _, .take t, l => .un l.id (pruneLab S t l.fst)
  | _, _, .drop t, l => .un l.id (pruneLab S t l.fst)
  | _, _, .comp s t, l => .bin l.id (pruneLab S s l.fst) (pruneLab S t l.snd)
  | _, _, .pair s t, l => .bin l.id (pruneLab S s l.fst) (pruneLab S t l.snd)
  | _, _, .case s t, l =>
    match decide ((l.id, false) ∈ S), decide ((l.id, true) ∈ S) with
    | true, false => .un l.id (pruneLab S s l.fst)
    | false, true => .un l.id (pruneLab S t l.snd)
    | _, _ => .bin l.id (pruneLab S s l.fst) (pruneLab S t l.snd)
  | _, _, .assertl s, l => .un l.id (pruneLab S s l.fst)
  | _, _, .assertr t, l => .un l.id (pruneLab S t l.fst)
  | _, _, .disconnect _ _ s t, l => .bin l.id (pruneLab S s l.fst) (pruneLab S t l.snd)
  | _, _, .iden, l => .leaf l.id
  | _, _, .unit, l => .leaf l.id
  | _, _, .fail, l => .leaf l.id
  | _, _, .witness _, l => .leaf l.id
  | _, _, .word _, l => .leaf l.id
  | _, _, .jet _ _, l => .leaf l.id

@[simp] theorem Lab.id_leaf (i : Nat) : (Lab.leaf i).id = i := rfl
@[simp] theorem Lab.id_un (i : Nat) (l : Lab) : (Lab.un i l).id = i := rfl
@[simp] theorem Lab.id_bin (i : Nat) (l r : Lab) : (Lab.bin i l r).id = i := rfl
@[simp] theorem Lab.fst_un (i : Nat) (l : Lab) : (Lab.un i l).fst = l := rfl
@[simp] theorem Lab.snd_un (i : Nat) (l : Lab) : (Lab.un i l).snd = l := rfl
@[simp] theorem Lab.fst_bin (i : Nat) (l r : Lab) : (Lab.bin i l r).fst = l := rfl
@[simp] theorem Lab.snd_bin (i : Nat) (l r : Lab) : (Lab.bin i l r).snd = r := rfl

theorem pruneLab_id (S : List (Nat × Bool)) {a b : Ty} (t : Term a b) (l : Lab) : (pruneLab S t l).id = l.id := by
  cases t <;> simp only [pruneLab, Lab.id_un, Lab.id_bin, Lab.id_leaf]
  case case s t =>
    cases decide ((l.id, false) ∈ S) <;> cases decide ((l.id, true) ∈ S) <;> rfl

/-! inversion of the little combinators of `evalT` -/

theorem withNode_ok {l : Lab} {r : Except Fail (Val × Trace)} {o : Val} {tr : Trace}
    (h : withNode l r = .ok (o, tr)) : ∃ tr', r = .ok (o, tr') ∧ tr = (Trace.node l.id).add tr' := by
  cases r with
  | error e => cases h
  | ok p =>
    obtain ⟨o', tr'⟩ := p
    simp only [withNode, Except.map, Except.ok.injEq, Prod.mk.injEq] at h
    obtain ⟨rfl, rfl⟩ := h
    exact ⟨tr', rfl, rfl⟩

theorem withSide_ok {l : Lab} {b : Bool} {r : Except Fail (Val × Trace)} {o : Val} {tr : Trace}
    (h : withSide l b r = .ok (o, tr)) : ∃ tr', r = .ok (o, tr') ∧ tr = (Trace.side l.id b).add tr' := by
  cases r with
  | error e => cases h
  | ok p =>
    obtain ⟨o', tr'⟩ := p
    simp only [withSide, Except.map, Except.ok.injEq, Prod.mk.injEq] at h
    obtain ⟨rfl, rfl⟩ := h
    exact ⟨tr', rfl, rfl⟩

theorem sides_node_add (id : Nat) (tr : Trace) : ((Trace.node id).add tr).sides = tr.sides := by
  simp [Trace.add, Trace.node]

theorem sides_side_add (id : Nat) (b : Bool) (tr : Trace) :
    ((Trace.side id b).add tr).sides = (id, b) :: tr.sides := by
  simp [Trace.add, Trace.side]

theorem sides_add (t1 t2 : Trace) : (t1.add t2).sides = t1.sides ++ t2.sides := rfl

/-- **same result, same record**: rewriting by any tracker content that covers this run's sides -/
theorem evalT_pruneTerm (S : List (Nat × Bool)) : ∀ {a b : Ty} (t : Term a b) (l : Lab) (v o : Val) (tr : Trace),
    evalT t l v = .ok (o, tr) → (∀ p ∈ tr.sides, p ∈ S) →
    evalT (pruneTerm S t l) (pruneLab S t l) v = .ok (o, tr) := by
  intro a b t
  induction t with
  | iden => intro l v o tr h _; simpa [pruneTerm, pruneLab, evalT] using h
  | unit => intro l v o tr h _; simpa [pruneTerm, pruneLab, evalT] using h
  | fail => intro l v o tr h _; simp [evalT] at h
  | witness w => intro l v o tr h _; simpa [pruneTerm, pruneLab, evalT] using h
  | word w => intro l v o tr h _; simpa [pruneTerm, pruneLab, evalT] using h
  | jet jf f => intro l v o tr h _; simpa [pruneTerm, pruneLab, evalT] using h
  | injl t ih =>
    intro l v o tr h hS
    simp only [evalT] at h
    obtain ⟨tr', h1, rfl⟩ := withNode_ok h
    cases h2 : evalT t l.fst v with
    | error e => simp [h2, Except.map] at h1
    | ok p =>
      obtain ⟨o', tr''⟩ := p
      simp only [h2, Except.map, Except.ok.injEq, Prod.mk.injEq] at h1
      obtain ⟨rfl, rfl⟩ := h1
      have := ih l.fst v o' tr'' h2 (fun p hp => hS p (by rw [sides_node_add]; exact hp))
      simp [pruneTerm, pruneLab, evalT, Lab.fst_un, Lab.fst_bin, Lab.id_un, Lab.id_bin, this, withNode, Except.map]
  | injr t ih =>
    intro l v o tr h hS
    simp only [evalT] at h
    obtain ⟨tr', h1, rfl⟩ := withNode_ok h
    cases h2 : evalT t l.fst v with
    | error e => simp [h2, Except.map] at h1
    | ok p =>
      obtain ⟨o', tr''⟩ := p
      simp only [h2, Except.map, Except.ok.injEq, Prod.mk.injEq] at h1
      obtain ⟨rfl, rfl⟩ := h1
      have := ih l.fst v o' tr'' h2 (fun p hp => hS p (by rw [sides_node_add]; exact hp))
      simp [pruneTerm, pruneLab, evalT, Lab.fst_un, Lab.fst_bin, Lab.id_un, Lab.id_bin, this, withNode, Except.map]
  | take t ih =>
    intro l v o tr h hS
    cases v with
    | pair x y =>
      simp only [evalT] at h
      obtain ⟨tr', h1, rfl⟩ := withNode_ok h
      have := ih l.fst x o tr' h1 (fun p hp => hS p (by rw [sides_node_add]; exact hp))
      simp [pruneTerm, pruneLab, evalT, Lab.fst_un, Lab.fst_bin, Lab.id_un, Lab.id_bin, this, withNode, Except.map]
    | _ => simp [evalT] at h
  | drop t ih =>
    intro l v o tr h hS
    cases v with
    | pair x y =>
      simp only [evalT] at h
      obtain ⟨tr', h1, rfl⟩ := withNode_ok h
      have := ih l.fst y o tr' h1 (fun p hp => hS p (by rw [sides_node_add]; exact hp))
      simp [pruneTerm, pruneLab, evalT, Lab.fst_un, Lab.fst_bin, Lab.id_un, Lab.id_bin, this, withNode, Except.map]
    | _ => simp [evalT] at h
  | comp s t ihs iht =>
    intro l v o tr h hS
    simp only [evalT] at h
    obtain ⟨tr', h1, rfl⟩ := withNode_ok h
    cases h2 : evalT s l.fst v with
    | error e => simp [h2, Except.bind] at h1
    | ok p =>
      obtain ⟨x, t1⟩ := p
      simp only [h2, Except.bind] at h1
      cases h3 : evalT t l.snd x with
      | error e => simp [h3, Except.map] at h1
      | ok q =>
        obtain ⟨o', t2⟩ := q
        simp only [h3, Except.map, Except.ok.injEq, Prod.mk.injEq] at h1
        obtain ⟨rfl, rfl⟩ := h1
        have e1 := ihs l.fst v x t1 h2 (fun p hp => hS p (by rw [sides_node_add, sides_add]; exact List.mem_append_left _ hp))
        have e2 := iht l.snd x o' t2 h3 (fun p hp => hS p (by rw [sides_node_add, sides_add]; exact List.mem_append_right _ hp))
        simp [pruneTerm, pruneLab, evalT, Lab.fst_un, Lab.fst_bin, Lab.snd_bin, Lab.id_un, Lab.id_bin, e1, e2, withNode, Except.map, Except.bind]
  | pair s t ihs iht =>
    intro l v o tr h hS
    simp only [evalT] at h
    obtain ⟨tr', h1, rfl⟩ := withNode_ok h
    cases h2 : evalT s l.fst v with
    | error e => simp [h2, Except.bind] at h1
    | ok p =>
      obtain ⟨x, t1⟩ := p
      simp only [h2, Except.bind] at h1
      cases h3 : evalT t l.snd v with
      | error e => simp [h3, Except.map] at h1
      | ok q =>
        obtain ⟨y, t2⟩ := q
        simp only [h3, Except.map, Except.ok.injEq, Prod.mk.injEq] at h1
        obtain ⟨rfl, rfl⟩ := h1
        have e1 := ihs l.fst v x t1 h2 (fun p hp => hS p (by rw [sides_node_add, sides_add]; exact List.mem_append_left _ hp))
        have e2 := iht l.snd v y t2 h3 (fun p hp => hS p (by rw [sides_node_add, sides_add]; exact List.mem_append_right _ hp))
        simp [pruneTerm, pruneLab, evalT, Lab.fst_un, Lab.fst_bin, Lab.snd_bin, Lab.id_un, Lab.id_bin, e1, e2, withNode, Except.map, Except.bind]
  | case s t ihs iht =>
    intro l v o tr h hS
    cases v with
    | pair xy z =>
      cases xy with
      | inl x =>
        simp only [evalT] at h
        obtain ⟨tr', h1, rfl⟩ := withSide_ok h
        have hin : (l.id, false) ∈ S := hS _ (by rw [sides_side_add]; exact List.mem_cons_self)
        have e1 := ihs l.fst (.pair x z) o tr' h1 (fun p hp => hS p (by rw [sides_side_add]; exact List.mem_cons_of_mem _ hp))
        simp only [pruneTerm, pruneLab, hin, decide_true]
        cases decide ((l.id, true) ∈ S) <;>
          simp [evalT, Lab.fst_un, Lab.fst_bin, Lab.id_un, Lab.id_bin, e1, withSide, Except.map]
      | inr y =>
        simp only [evalT] at h
        obtain ⟨tr', h1, rfl⟩ := withSide_ok h
        have hin : (l.id, true) ∈ S := hS _ (by rw [sides_side_add]; exact List.mem_cons_self)
        have e1 := iht l.snd (.pair y z) o tr' h1 (fun p hp => hS p (by rw [sides_side_add]; exact List.mem_cons_of_mem _ hp))
        simp only [pruneTerm, pruneLab, hin, decide_true]
        cases decide ((l.id, false) ∈ S) <;>
          simp [evalT, Lab.fst_un, Lab.fst_bin, Lab.snd_bin, Lab.id_un, Lab.id_bin, e1, withSide, Except.map]
      | _ => simp [evalT] at h
    | _ => simp [evalT] at h
  | assertl s ih =>
    intro l v o tr h hS
    cases v with
    | pair xy z =>
      cases xy with
      | inl x =>
        simp only [evalT] at h
        obtain ⟨tr', h1, rfl⟩ := withSide_ok h
        have e1 := ih l.fst (.pair x z) o tr' h1 (fun p hp => hS p (by rw [sides_side_add]; exact List.mem_cons_of_mem _ hp))
        simp [pruneTerm, pruneLab, evalT, Lab.fst_un, Lab.fst_bin, Lab.id_un, Lab.id_bin, e1, withSide, Except.map]
      | _ => simp [evalT] at h
    | _ => simp [evalT] at h
  | assertr t ih =>
    intro l v o tr h hS
    cases v with
    | pair xy z =>
      cases xy with
      | inr y =>
        simp only [evalT] at h
        obtain ⟨tr', h1, rfl⟩ := withSide_ok h
        have e1 := ih l.fst (.pair y z) o tr' h1 (fun p hp => hS p (by rw [sides_side_add]; exact List.mem_cons_of_mem _ hp))
        simp [pruneTerm, pruneLab, evalT, Lab.fst_un, Lab.fst_bin, Lab.id_un, Lab.id_bin, e1, withSide, Except.map]
      | _ => simp [evalT] at h
    | _ => simp [evalT] at h
  | disconnect w cw s t ihs iht =>
    intro l v o tr h hS
    simp only [evalT] at h
    obtain ⟨tr', h1, rfl⟩ := withNode_ok h
    cases h2 : evalT s l.fst (.pair cw v) with
    | error e => simp [h2, Except.bind] at h1
    | ok p =>
      obtain ⟨xy, t1⟩ := p
      cases xy with
      | pair x y =>
        simp only [h2, Except.bind] at h1
        cases h3 : evalT t l.snd y with
        | error e => simp [h3, Except.map] at h1
        | ok q =>
          obtain ⟨z, t2⟩ := q
          simp only [h3, Except.map, Except.ok.injEq, Prod.mk.injEq] at h1
          obtain ⟨rfl, rfl⟩ := h1
          have e1 := ihs l.fst (.pair cw v) (.pair x y) t1 h2 (fun p hp => hS p (by rw [sides_node_add, sides_add]; exact List.mem_append_left _ hp))
          have e2 := iht l.snd y z t2 h3 (fun p hp => hS p (by rw [sides_node_add, sides_add]; exact List.mem_append_right _ hp))
          simp [pruneTerm, pruneLab, evalT, Lab.fst_un, Lab.fst_bin, Lab.snd_bin, Lab.id_un, Lab.id_bin, e1, e2, withNode, Except.map, Except.bind]
      | _ => simp [h2, Except.bind] at h1

/-- the rewriting is idempotent for a fixed tracker content (the labels keep the identities) -/
theorem pruneTerm_idem (S : List (Nat × Bool)) : ∀ {a b : Ty} (t : Term a b) (l : Lab),
    pruneTerm S (pruneTerm S t l) (pruneLab S t l) = pruneTerm S t l ∧
    pruneLab S (pruneTerm S t l) (pruneLab S t l) = pruneLab S t l := by
  intro a b t
  induction t with
  | iden => intro l; simp [pruneTerm, pruneLab]
  | unit => intro l; simp [pruneTerm, pruneLab]
  | fail => intro l; simp [pruneTerm, pruneLab]
  | witness w => intro l; simp [pruneTerm, pruneLab]
  | word w => intro l; simp [pruneTerm, pruneLab]
  | jet jf f => intro l; simp [pruneTerm, pruneLab]
  | injl t ih => intro l; simp [pruneTerm, pruneLab, ih l.fst]
  | injr t ih => intro l; simp [pruneTerm, pruneLab, ih l.fst]
  | take t ih => intro l; simp [pruneTerm, pruneLab, ih l.fst]
  | drop t ih => intro l; simp [pruneTerm, pruneLab, ih l.fst]
  | assertl t ih => intro l; simp [pruneTerm, pruneLab, ih l.fst]
  | assertr t ih => intro l; simp [pruneTerm, pruneLab, ih l.fst]
  | comp s t ihs iht => intro l; simp [pruneTerm, pruneLab, ihs l.fst, iht l.snd]
  | pair s t ihs iht => intro l; simp [pruneTerm, pruneLab, ihs l.fst, iht l.snd]
  | disconnect w cw s t ihs iht => intro l; simp [pruneTerm, pruneLab, ihs l.fst, iht l.snd]
  | case s t ihs iht =>
    intro l
    by_cases n1 : (l.id, false) ∈ S <;> by_cases n2 : (l.id, true) ∈ S <;>
      simp [pruneTerm, pruneLab, n1, n2, ihs l.fst, iht l.snd]

/-- **`prune` on terms**: when the run succeeds, rewriting by its own record gives a term with the
same output and the same record, and rewriting that term by the record of *its* run changes
nothing -/
theorem prune_spec_term {a b : Ty} (t : Term a b) (l : Lab) (v o : Val) (tr : Trace)
    (h : evalT t l v = .ok (o, tr)) :
    evalT (pruneTerm tr.sides t l) (pruneLab tr.sides t l) v = .ok (o, tr) ∧
    pruneTerm tr.sides (pruneTerm tr.sides t l) (pruneLab tr.sides t l) = pruneTerm tr.sides t l ∧
    pruneLab tr.sides (pruneTerm tr.sides t l) (pruneLab tr.sides t l) = pruneLab tr.sides t l :=
  ⟨evalT_pruneTerm tr.sides t l v o tr h (fun _ hp => hp), (pruneTerm_idem tr.sides t l).1,
   (pruneTerm_idem tr.sides t l).2⟩

end Prog
