import SimplicityModel.Driver.C19
/-!
Line-protocol driver: one operation per input line, one answer per output line.
The first token selects the property's verb table (`C19 cost …` is written by the harness as
`cost …` into the ops file of C19; `check` prefixes the property id).
-/

def dispatch (line : String) : String :=
  match line.trimAscii.toString.splitOn " " with
  | "C19" :: rest => Drv.C19.handle rest
  | _ => "bad-op"

partial def loop (h : IO.FS.Stream) (out : IO.FS.Stream) : IO Unit := do
  let line ← h.getLine
  if line.isEmpty then return ()
  out.putStrLn (dispatch line)
  loop h out

def main : IO Unit := do
  let out ← IO.getStdout
  loop (← IO.getStdin) out
  out.flush
